// Engine `sandbox` (C10): drives the real sandbox.XMCache (kernel/contract/sandbox) with
// programs of Get / Put / Del / Select(bounds, early stop) / Transfer / AddEvent over two kinds of
// backing reader and a deterministic first-run utxo reader, calls Flush, then re-runs every program
// the way State.verifyTxRWSets does: over sandbox.XMReaderFromRWSet(rwset) and
// sandbox.NewUTXOReaderFromInput(the inputs parsed out of the write set).
//
// op lines (also the input of the Lean driver `xvdriver sandbox`):
//
//	reset <kind> <b:k:ver:val>...   new case; backing state. kind m = sandbox.MemXModel holding every
//	                                entry (a missing key is ErrNotFound); kind x = reader with the
//	                                semantics of the ledger's XModel: entries with val 0 (delete mark)
//	                                are found by Get only (not iterated), a never-written key is
//	                                returned by Get as an empty-version entry, Select never errors
//	                                kind r = the REAL xmodel.XModel (real.go): a ledger and a state store on the
//	                                instrumented in-memory engine, every entry written by a transaction of its own
//	                                through XModel.DoTx; same semantics (and same model) as kind x
//	fault <b> <k>                   (kind r) from now on the version record of the key - the transaction that wrote its
//	                                current version - cannot be read from the store (kvmem.SetReadFault) -> ok.
//	                                A later call that REPORTS an error (Get / Put / Select, or the iterator's Error()
//	                                once the harness stops calling Next) ends the comparison of the case: it and the
//	                                lines after it are answered "-".  A call that reports no error is answered, judged
//	                                and compared with the model as over the healthy store: "report the error or be
//	                                complete".
//	get <b> <k>                     -> v<val> | nf (ErrNotFound) | del (ErrHasDel) | err
//	put <b> <k> <val>               -> ok | err            (val 0 is the delete mark "\x00")
//	del <b> <k>                     -> ok | err
//	sel <b> <lo> <hi> <n>           Select(bucket, lo, hi) then n calls of Next(), Close
//	                                -> [k:val ...] r=<entries in the read set afterwards> | err | panic
//	                                lo/hi: key number or - (nil)
//	utxo <addr>:<amt>,<amt>,... ... the unspent outputs the first-run utxo reader selects from, in selection
//	                                order (references are numbered 0,1,.. along the line); only before the
//	                                first call of the case -> ok
//	xf <from> <to> <amount>         XMCache.Transfer -> ok | err   (the amount may be negative: -3)
//	ev <name> <body>                XMCache.AddEvent -> ok
//	flush                           XMCache.Flush -> ok | err; ends the execution: every later call line
//	                                (get put del sel xf ev utxo flush) is answered bad-op
//	rwset                           -> R b:k:ver:val ... W b:k:val ...   (R sorted, W in the order of
//	                                RWSet().WSet); after flush the W part starts with the entries Flush
//	                                wrote: 0:I:ref/from/amt,... 0:O:to/amt,... 0:E:name/body,...
//	utxorw                          UTXORWSet() -> I ref/from/amt ... O to/amt ...
//	rerun                           run the calls of this case again on a fresh cache over
//	                                XMReaderFromRWSet(RWSet()) and NewUTXOReaderFromInput(recorded inputs)
//	                                (+ Flush if the case flushed); -> same | diff
//
// buckets: 0 = "$transient", i = "b<i>";  keys: "k<i>" (one digit, so byte order = numeric order);
// values: 0 = "\x00" (delete mark), 1 = empty, n>=2 = "v<n>"; versions: 0 = empty version
// (RefTxid nil, RefOffset 0), n>=1 = RefTxid "t<n>", RefOffset n%4.
// addresses: "a<i>"; output reference i = RefTxid "u<i>", RefOffset i%3; event: contract "c",
// name "n<name>", body "b<body>".
package main

import (
	"bytes"
	"errors"
	"fmt"
	"math/big"
	"os"
	"path/filepath"
	"sort"
	"strconv"
	"strings"

	"github.com/xuperchain/xupercore/bcs/ledger/xledger/state/xmodel"
	lpb "github.com/xuperchain/xupercore/bcs/ledger/xledger/xldgpb"
	"github.com/xuperchain/xupercore/kernel/contract"
	"github.com/xuperchain/xupercore/kernel/contract/sandbox"
	"github.com/xuperchain/xupercore/kernel/ledger"
	"github.com/xuperchain/xupercore/protos"
	"xv/xvlib"
)

// ---------------------------------------------------------------- encoding of the abstract ids

const nBuckets = 4

func bucketName(b int) string {
	if b == 0 {
		return sandbox.TransientBucket
	}
	return "b" + strconv.Itoa(b)
}

func bucketID(s string) int {
	if s == sandbox.TransientBucket {
		return 0
	}
	n, err := strconv.Atoi(strings.TrimPrefix(s, "b"))
	if err != nil {
		return -1
	}
	return n
}

// keyBytes: the keys from 7 up (7 is the highest key of the random universe, higher numbers occur as scan bounds) start
// with the byte 0xff - binary keys such as hashes do - so that open-ended scans have to reach past every printable key;
// the order of the byte strings is still the numeric order.
// nilEmptyKey: the case spells the empty key as a nil slice (reset kinds "M" / "X") - what a contract's empty key
// becomes on its way through the protobuf-encoded syscall - instead of a zero-length non-nil one
var nilEmptyKey bool

func keyBytes(k int) []byte {
	if k == 0 {
		if nilEmptyKey {
			return nil
		}
		return []byte{} // the empty key: the smallest key of every bucket
	}
	if k >= 7 {
		return []byte("\xffk" + strconv.Itoa(k))
	}
	return []byte("k" + strconv.Itoa(k))
}

func keyID(k []byte) int {
	if len(k) == 0 {
		return 0
	}
	if len(k) > 2 && k[0] == 0xff {
		k = k[1:]
	}
	if len(k) < 2 || k[0] != 'k' {
		return -1
	}
	n, err := strconv.Atoi(string(k[1:]))
	if err != nil {
		return -1
	}
	return n
}

func valBytes(v int) []byte {
	switch v {
	case 0:
		return []byte(sandbox.DelFlag)
	case 1:
		return []byte{}
	}
	return []byte("v" + strconv.Itoa(v))
}

func valID(v []byte) int {
	if bytes.Equal(v, []byte(sandbox.DelFlag)) {
		return 0
	}
	if len(v) == 0 {
		return 1
	}
	if v[0] == 'v' {
		if n, err := strconv.Atoi(string(v[1:])); err == nil {
			return n
		}
	}
	return -1
}

func mkData(b, k, ver, val int) *ledger.VersionedData {
	d := &ledger.VersionedData{PureData: &ledger.PureData{Bucket: bucketName(b), Key: keyBytes(k), Value: valBytes(val)}}
	if ver > 0 {
		d.RefTxid = []byte("t" + strconv.Itoa(ver))
		d.RefOffset = int32(ver % 4)
	}
	return d
}

func verID(d *ledger.VersionedData) int {
	if d.RefTxid == nil {
		if d.RefOffset == 0 {
			return 0
		}
		return -1
	}
	n, err := strconv.Atoi(strings.TrimPrefix(string(d.RefTxid), "t"))
	if err != nil || int32(n%4) != d.RefOffset {
		return -1
	}
	return n
}

// ---------------------------------------------------------------- backing readers

type entry struct{ b, k, ver, val int }

// xfake has the observable semantics of bcs/ledger/xledger/state/xmodel.XModel (Get falls back to
// the delete table, then to an empty-version entry; Select iterates live keys only and never
// returns an error) without needing a ledger.
type xfake struct {
	live *sandbox.MemXModel
	dead map[string]*ledger.VersionedData
}

func (x *xfake) Get(bucket string, key []byte) (*ledger.VersionedData, error) {
	if v, err := x.live.Get(bucket, key); err == nil {
		return v, nil
	}
	if v, ok := x.dead[bucket+"/"+string(key)]; ok {
		return v, nil
	}
	return &ledger.VersionedData{PureData: &ledger.PureData{Bucket: bucket, Key: key}}, nil
}

type emptyIter struct{}

func (emptyIter) Key() []byte                  { return nil }
func (emptyIter) Value() *ledger.VersionedData { return nil }
func (emptyIter) Next() bool                   { return false }
func (emptyIter) Error() error                 { return nil }
func (emptyIter) Close()                       {}

func (x *xfake) Select(bucket string, start, end []byte) (ledger.XMIterator, error) {
	it, err := x.live.Select(bucket, start, end)
	if err != nil { // XModel.Select: a range iterator over the table; an inverted range is empty, not an error
		return emptyIter{}, nil
	}
	return it, nil
}

func buildReader(kind byte, es []entry) ledger.XMReader {
	m := sandbox.NewMemXModel()
	if kind == 'm' {
		for _, e := range es {
			m.Put(bucketName(e.b), keyBytes(e.k), mkData(e.b, e.k, e.ver, e.val))
		}
		return m
	}
	x := &xfake{live: m, dead: map[string]*ledger.VersionedData{}}
	for _, e := range es {
		rk := bucketName(e.b) + "/" + string(keyBytes(e.k))
		if e.val == 0 {
			x.dead[rk] = mkData(e.b, e.k, e.ver, e.val)
			// a later live entry of the same key replaces it in MemXModel order; keep last-wins
			continue
		}
		delete(x.dead, rk)
		m.Put(bucketName(e.b), keyBytes(e.k), mkData(e.b, e.k, e.ver, e.val))
	}
	return x
}

// ---------------------------------------------------------------- the token side: ids, first-run utxo reader

var (
	keyUtxoIn  = []byte("ContractUtxo.Inputs")
	keyUtxoOut = []byte("ContractUtxo.Outputs")
	keyEvent   = []byte("contractEvent")
)

func addrName(a int) string { return "a" + strconv.Itoa(a) }

func addrID(b []byte) int {
	if len(b) < 2 || b[0] != 'a' {
		return -1
	}
	n, err := strconv.Atoi(string(b[1:]))
	if err != nil {
		return -1
	}
	return n
}

func amtID(b []byte) int64 {
	v := new(big.Int).SetBytes(b)
	if !v.IsInt64() {
		return -1
	}
	return v.Int64()
}

func refID(in *protos.TxInput) int {
	t := in.GetRefTxid()
	if len(t) < 2 || t[0] != 'u' {
		return -1
	}
	n, err := strconv.Atoi(string(t[1:]))
	if err != nil || int32(n%3) != in.GetRefOffset() {
		return -1
	}
	return n
}

func inStr(in *protos.TxInput) string {
	return fmt.Sprintf("%d/%d/%d", refID(in), addrID(in.GetFromAddr()), amtID(in.GetAmount()))
}

func outStr(o *protos.TxOutput) string {
	return fmt.Sprintf("%d/%d", addrID(o.GetToAddr()), amtID(o.GetAmount()))
}

func evStr(e *protos.ContractEvent) string {
	n, b := -1, -1
	if strings.HasPrefix(e.GetName(), "n") {
		if v, err := strconv.Atoi(e.GetName()[1:]); err == nil {
			n = v
		}
	}
	if len(e.GetBody()) > 0 && e.GetBody()[0] == 'b' {
		if v, err := strconv.Atoi(string(e.GetBody()[1:])); err == nil {
			b = v
		}
	}
	if e.GetContract() != "c" {
		n = -1
	}
	return fmt.Sprintf("%d/%d", n, b)
}

func insStr(l []*protos.TxInput) string {
	var p []string
	for _, x := range l {
		p = append(p, inStr(x))
	}
	return strings.Join(p, ",")
}

func outsStr(l []*protos.TxOutput) string {
	var p []string
	for _, x := range l {
		p = append(p, outStr(x))
	}
	return strings.Join(p, ",")
}

func evsStr(l []*protos.ContractEvent) string {
	var p []string
	for _, x := range l {
		p = append(p, evStr(x))
	}
	return strings.Join(p, ",")
}

type utxoItem struct {
	ref, owner int
	amt        int64
	taken      bool
}

type selCall struct {
	from   string
	amount int64
	ok     bool
	handed []*utxoItem
	total  int64
}

// firstReader is the utxo reader of the first run: what UtxoVM.SelectUtxos guarantees, made
// deterministic. The unspent outputs stand in a fixed order; a selection takes the outputs of
// `from` in that order until their sum reaches the amount and never hands an output out again
// (UtxoVM locks it); if the outputs of `from` do not cover the amount nothing is taken. It logs
// every call: the log is the ground truth of the token oracle.
type firstReader struct {
	items []*utxoItem
	calls []*selCall
}

func (f *firstReader) SelectUtxo(from string, amount *big.Int, lock bool, excludeUnconfirmed bool) ([]*protos.TxInput, [][]byte, *big.Int, error) {
	call := &selCall{from: from, amount: amount.Int64()}
	f.calls = append(f.calls, call)
	if amount.Sign() == 0 {
		call.ok = true
		return nil, nil, big.NewInt(0), nil
	}
	sum := new(big.Int)
	var picked []*utxoItem
	enough := false
	for _, it := range f.items {
		if it.taken || addrName(it.owner) != from {
			continue
		}
		picked = append(picked, it)
		sum.Add(sum, big.NewInt(it.amt))
		if sum.Cmp(amount) >= 0 {
			enough = true
			break
		}
	}
	if !enough {
		return nil, nil, nil, errors.New("no enough utxo")
	}
	var ins []*protos.TxInput
	for _, it := range picked {
		it.taken = true
		ins = append(ins, &protos.TxInput{RefTxid: []byte("u" + strconv.Itoa(it.ref)), RefOffset: int32(it.ref % 3),
			FromAddr: []byte(from), Amount: big.NewInt(it.amt).Bytes()})
	}
	call.ok, call.handed, call.total = true, picked, sum.Int64()
	return ins, nil, sum, nil
}

// natOf parses a decimal natural number (digits only)
func natOf(s string) (int, bool) {
	if s == "" || len(s) > 9 {
		return 0, false
	}
	for _, c := range s {
		if c < '0' || c > '9' {
			return 0, false
		}
	}
	n, _ := strconv.Atoi(s)
	return n, true
}

// parseUtxo parses the tokens of a `utxo` line
func parseUtxo(toks []string) ([]*utxoItem, bool) {
	var items []*utxoItem
	for _, t := range toks {
		p := strings.Split(t, ":")
		if len(p) != 2 {
			return nil, false
		}
		a, ok := natOf(p[0])
		if !ok {
			return nil, false
		}
		for _, x := range strings.Split(p[1], ",") {
			v, ok := natOf(x)
			if !ok {
				return nil, false
			}
			items = append(items, &utxoItem{ref: len(items), owner: a, amt: int64(v)})
		}
	}
	return items, true
}

// ---------------------------------------------------------------- executor on the real code

type bk struct{ b, k int }

func bound(s string) []byte {
	if s == "-" {
		return nil
	}
	n, _ := strconv.Atoi(s)
	return keyBytes(n)
}

type selRes struct {
	ok     bool
	status string // "", err, panic
	keys   []int
	vals   []int
}

func (r selRes) list() string {
	var p []string
	for i := range r.keys {
		p = append(p, fmt.Sprintf("%d:%d", r.keys[i], r.vals[i]))
	}
	return "[" + strings.Join(p, " ") + "]"
}

func rsetSize(c *sandbox.XMCache) int { return len(c.RWSet().RSet) }

func doSelect(c *sandbox.XMCache, b int, lo, hi string, n int) (res selRes) {
	defer func() {
		if r := recover(); r != nil {
			res = selRes{status: "panic"}
		}
	}()
	it, err := c.Select(bucketName(b), bound(lo), bound(hi))
	if err != nil {
		return selRes{status: "err"}
	}
	res.ok = true
	for i := 0; i < n; i++ {
		if !it.Next() {
			break
		}
		res.keys = append(res.keys, keyID(it.Key()))
		res.vals = append(res.vals, valID(it.Value()))
	}
	// what a contract does when it stops calling Next (bridge: iter.Error() after the loop)
	if err := it.Error(); err != nil {
		it.Close()
		return selRes{status: "itererr", keys: res.keys, vals: res.vals}
	}
	it.Close()
	return res
}

// execOp runs one op (not reset/rwset/rerun) on cache c; returns canonical answer and, for sel, the structured result.
func execOp(c *sandbox.XMCache, w []string) (ans string, sr selRes) {
	defer func() {
		if r := recover(); r != nil {
			ans = "panic"
		}
	}()
	switch w[0] {
	case "get":
		b, _ := strconv.Atoi(w[1])
		k, _ := strconv.Atoi(w[2])
		v, err := c.Get(bucketName(b), keyBytes(k))
		switch {
		case err == nil:
			return "v" + strconv.Itoa(valID(v)), sr
		case err == sandbox.ErrNotFound:
			return "nf", sr
		case err == sandbox.ErrHasDel:
			return "del", sr
		}
		return "err", sr
	case "put":
		b, _ := strconv.Atoi(w[1])
		k, _ := strconv.Atoi(w[2])
		v, _ := strconv.Atoi(w[3])
		if err := c.Put(bucketName(b), keyBytes(k), valBytes(v)); err != nil {
			return "err", sr
		}
		return "ok", sr
	case "del":
		b, _ := strconv.Atoi(w[1])
		k, _ := strconv.Atoi(w[2])
		if err := c.Del(bucketName(b), keyBytes(k)); err != nil {
			return "err", sr
		}
		return "ok", sr
	case "sel":
		b, _ := strconv.Atoi(w[1])
		n, _ := strconv.Atoi(w[4])
		sr = doSelect(c, b, w[2], w[3], n)
		if !sr.ok {
			return sr.status, sr
		}
		return sr.list() + " r=" + strconv.Itoa(rsetSize(c)), sr
	case "xf":
		from, _ := strconv.Atoi(w[1])
		to, _ := strconv.Atoi(w[2])
		amt, _ := strconv.Atoi(w[3])
		if err := c.Transfer(addrName(from), addrName(to), big.NewInt(int64(amt))); err != nil {
			return "err", sr
		}
		return "ok", sr
	case "ev":
		c.AddEvent(&protos.ContractEvent{Contract: "c", Name: "n" + w[1], Body: []byte("b" + w[2])})
		return "ok", sr
	}
	return "bad-op", sr
}

// isCall: the op lines that are calls of the contract (or set up the case); refused after flush
func isCall(op string) bool {
	switch op {
	case "get", "put", "del", "sel", "xf", "ev", "utxo", "flush":
		return true
	}
	return false
}

// wellFormed: is the line a call with operands the model driver parses too
func wellFormed(w []string) bool {
	nat := func(ix ...int) bool {
		for _, i := range ix {
			if _, ok := natOf(w[i]); !ok {
				return false
			}
		}
		return true
	}
	switch {
	case w[0] == "xf" && len(w) == 4: // the amount may be negative
		_, ok := natOf(strings.TrimPrefix(w[3], "-"))
		return nat(1, 2) && ok
	case w[0] == "ev" && len(w) == 3:
		return nat(1, 2)
	}
	return false
}

// reservedKey: 1,2,3 for the three keys Flush writes into the transient bucket, else 0
func reservedKey(bucket string, key []byte) int {
	if bucket != sandbox.TransientBucket {
		return 0
	}
	switch {
	case bytes.Equal(key, keyUtxoIn):
		return 1
	case bytes.Equal(key, keyUtxoOut):
		return 2
	case bytes.Equal(key, keyEvent):
		return 3
	}
	return 0
}

// reservedStr decodes an entry Flush wrote (the way the verifier parses it back)
func reservedStr(kind int, value []byte) string {
	switch kind {
	case 1:
		var l []*protos.TxInput
		if err := xmodel.UnmsarshalMessages(value, &l); err != nil {
			return "0:I:undecodable"
		}
		return "0:I:" + insStr(l)
	case 2:
		var l []*protos.TxOutput
		if err := xmodel.UnmsarshalMessages(value, &l); err != nil {
			return "0:O:undecodable"
		}
		return "0:O:" + outsStr(l)
	}
	var l []*protos.ContractEvent
	if err := xmodel.UnmsarshalMessages(value, &l); err != nil {
		return "0:E:undecodable"
	}
	return "0:E:" + evsStr(l)
}

func utxorwString(c *sandbox.XMCache) string {
	u := c.UTXORWSet()
	p := []string{"I"}
	for _, x := range u.Rset {
		p = append(p, inStr(x))
	}
	p = append(p, "O")
	for _, x := range u.WSet {
		p = append(p, outStr(x))
	}
	return strings.Join(p, " ")
}

func dumpRW(c *sandbox.XMCache) string {
	rw := c.RWSet()
	var rs, ws []string
	type row struct {
		b, k int
		s    string
	}
	var rr, wr []row
	for _, r := range rw.RSet {
		b, k := bucketID(r.PureData.Bucket), keyID(r.PureData.Key)
		rr = append(rr, row{b, k, fmt.Sprintf("%d:%d:%d:%d", b, k, verID(r), valID(r.PureData.Value))})
	}
	for _, p := range rw.WSet { // in the order of the write set (the order the transaction id is computed over)
		if kind := reservedKey(p.Bucket, p.Key); kind != 0 {
			wr = append(wr, row{0, -1, reservedStr(kind, p.Value)})
			continue
		}
		b, k := bucketID(p.Bucket), keyID(p.Key)
		wr = append(wr, row{b, k, fmt.Sprintf("%d:%d:%d", b, k, valID(p.Value))})
	}
	less := func(x []row) func(i, j int) bool {
		return func(i, j int) bool {
			if x[i].b != x[j].b {
				return x[i].b < x[j].b
			}
			return x[i].k < x[j].k
		}
	}
	sort.SliceStable(rr, less(rr))
	for _, r := range rr {
		rs = append(rs, r.s)
	}
	for _, r := range wr {
		ws = append(ws, r.s)
	}
	return strings.Join(append(append(append([]string{"R"}, rs...), "W"), ws...), " ")
}

func wsetString(c *sandbox.XMCache) string {
	s := dumpRW(c)
	return s[strings.Index(s, "W"):]
}

// selList strips the read-set count off a sel answer (the count is not an observable of a contract call)
func selList(ans string) string {
	if i := strings.Index(ans, " r="); i >= 0 {
		return ans[:i]
	}
	return ans
}

// ---------------------------------------------------------------- one case: execution + property oracle

type viol struct{ key, what string }

// caseInfo: what kind of token traffic a case had (for the distribution in the stats)
type caseInfo struct {
	xfers, exact, change, short, zero int
	exactThenMore                     bool // a transfer covered exactly, then another successful one of the same address
	events                            int
	flushed                           bool
	faulted, faultReported            bool // a read fault was installed / a later call reported it
}

// xferRec: one Transfer call of the first run as the oracle saw it
type xferRec struct {
	from, to int
	amt      int64
	ok       bool
}

type outRec struct {
	to  int
	amt int64
}

// checkChunk: the inputs a Transfer call appended to the utxo read set must belong to its `from`
func chunkOwners(chunk []*protos.TxInput, from int) (int, bool) {
	for _, in := range chunk {
		if addrID(in.GetFromAddr()) != from {
			return refID(in), false
		}
	}
	return 0, true
}

// runCase executes the op lines of one case (first line is `reset`) on the real code and evaluates
// the property oracle on what the real code returned. Returns the answers and the violations.
func runCase(lines []string) (answers []string, viols []viol, info caseInfo) {
	add := func(key, f string, a ...interface{}) { viols = append(viols, viol{key, fmt.Sprintf(f, a...)}) }
	w0 := strings.Fields(lines[0])
	if len(w0) < 2 || w0[0] != "reset" || (w0[1] != "m" && w0[1] != "x" && w0[1] != "M" && w0[1] != "X" && w0[1] != "r") {
		return []string{"bad-op"}, nil, info
	}
	kind := w0[1][0]
	real := kind == 'r'
	if real {
		kind = 'x' // the shadow of the backing state and the model are those of the XModel-like reader
	}
	nilEmptyKey = kind == 'M' || kind == 'X'
	if nilEmptyKey {
		kind += 'a' - 'A'
	}
	var es []entry
	for _, t := range w0[2:] {
		p := strings.Split(t, ":")
		if len(p) != 4 {
			return []string{"bad-op"}, nil, info
		}
		var e entry
		e.b, _ = strconv.Atoi(p[0])
		e.k, _ = strconv.Atoi(p[1])
		e.ver, _ = strconv.Atoi(p[2])
		e.val, _ = strconv.Atoi(p[3])
		es = append(es, e)
	}
	// shadow of the backing state (independent of the code under test)
	back := map[bk]entry{}
	for _, e := range es {
		back[bk{e.b, e.k}] = e
	}
	backLive := func(b, k int) (int, bool) { // value a reader of the underlying state must see
		e, ok := back[bk{b, k}]
		if !ok || e.val == 0 || e.ver == 0 {
			return 0, false
		}
		return e.val, true
	}
	iterated := func(e entry) bool { return kind == 'm' || e.val != 0 } // does the reader's Select iterate it
	pend := map[bk]int{}                                               // latest write of this execution
	view := func(b, k int) (int, bool) {
		if v, ok := pend[bk{b, k}]; ok {
			return v, v != 0
		}
		return backLive(b, k)
	}
	mustRead := map[bk]string{} // keys the read set has to hold, with the reason

	fr := &firstReader{}
	var rs *realStore
	mkReader := func() ledger.XMReader {
		if !real {
			return buildReader(kind, es)
		}
		if rs == nil {
			var err error
			if rs, err = buildRealStore(es); err != nil {
				xvlib.Die("real XModel: %v", err)
			}
		}
		return rs.xm
	}
	defer func() {
		if rs != nil {
			rs.close()
		}
	}()
	if real {
		for _, e := range es {
			if e.ver == 0 || e.b == 0 {
				return []string{"bad-op"}, nil, info // the ledger stores neither empty versions nor the transient bucket
			}
		}
	}
	c := sandbox.NewXModelCache(&contract.SandboxConfig{XMReader: mkReader(), UTXOReader: fr})
	answers = append(answers, "ok")
	faulted, aborted := false, false
	var prog [][]string
	var progIdx []int // index in lines of every executed call
	// shadow of the token side, fed by the log of the first-run reader only
	var (
		expIn    []string // ref/from/amt of every input handed out to a successful Transfer, in order
		expOut   []outRec
		expEv    []string
		xfs      []xferRec
		flushed  bool
		lastFrom = map[int]bool{} // addresses whose latest successful transfer was covered exactly
	)
	checkUtxoCaches := func(where string) {
		u := c.UTXORWSet()
		var gotIn, wantOut, gotOut []string
		for _, x := range u.Rset {
			gotIn = append(gotIn, inStr(x))
		}
		for _, x := range u.WSet {
			gotOut = append(gotOut, outStr(x))
		}
		for _, o := range expOut {
			wantOut = append(wantOut, fmt.Sprintf("%d/%d", o.to, o.amt))
		}
		if strings.Join(gotIn, " ") != strings.Join(expIn, " ") {
			add("utxo-inputs-wrong", "%s: UTXORWSet().Rset is [%s]; the first-run reader handed out [%s] to the successful transfers", where, strings.Join(gotIn, " "), strings.Join(expIn, " "))
		}
		if strings.Join(gotOut, " ") != strings.Join(wantOut, " ") {
			add("utxo-outputs-wrong", "%s: UTXORWSet().WSet is [%s]; the transfers ask for [%s] (amount to the receiver, then the change if the inputs are worth more)", where, strings.Join(gotOut, " "), strings.Join(wantOut, " "))
		}
	}
	checkRecorded := func(where string, u *contract.UTXORWSet) {
		var sin, sout int64
		seen := map[int]bool{}
		for _, x := range u.Rset {
			sin += amtID(x.GetAmount())
			if seen[refID(x)] {
				add("input-recorded-twice", "%s: output %d is recorded twice as an input: [%s]", where, refID(x), insStr(u.Rset))
			}
			seen[refID(x)] = true
		}
		for _, x := range u.WSet {
			sout += amtID(x.GetAmount())
		}
		if sin != sout {
			add("utxo-not-conserved", "%s: the recorded inputs [%s] are worth %d, the recorded outputs [%s] are worth %d", where, insStr(u.Rset), sin, outsStr(u.WSet), sout)
		}
	}
	for li, line := range lines[1:] {
		w := strings.Fields(line)
		if len(w) == 0 {
			answers = append(answers, "bad-op")
			continue
		}
		if aborted {
			answers = append(answers, "-") // a call reported the injected read fault: the execution is over
			continue
		}
		if flushed && isCall(w[0]) {
			answers = append(answers, "bad-op") // the execution ended with Flush
			continue
		}
		switch {
		case w[0] == "fault" && len(w) == 3:
			b, _ := strconv.Atoi(w[1])
			k, _ := strconv.Atoi(w[2])
			e, ok := back[bk{b, k}]
			if flushed {
				answers = append(answers, "bad-op")
				break
			}
			if real && ok { // elsewhere there is no row to damage: a no-op
				rs.fault(e)
				faulted, info.faulted = true, true
			}
			answers = append(answers, "ok")
		case w[0] == "utxo":
			items, ok := parseUtxo(w[1:])
			if !ok || len(prog) > 0 {
				answers = append(answers, "bad-op")
				break
			}
			fr = &firstReader{items: items}
			c = sandbox.NewXModelCache(&contract.SandboxConfig{XMReader: mkReader(), UTXOReader: fr})
			answers = append(answers, "ok")
		case wellFormed(w) && w[0] == "xf":
			prog = append(prog, w)
			progIdx = append(progIdx, li+1)
			from, _ := strconv.Atoi(w[1])
			to, _ := strconv.Atoi(w[2])
			amt, _ := strconv.Atoi(w[3])
			nCalls, nIn := len(fr.calls), len(c.UTXORWSet().Rset)
			ans, _ := execOp(c, w)
			answers = append(answers, ans)
			info.xfers++
			rec := xferRec{from: from, to: to, amt: int64(amt), ok: ans == "ok"}
			xfs = append(xfs, rec)
			calls := fr.calls[nCalls:]
			switch {
			case ans == "panic":
				add("transfer-panic", "%s panicked", line)
			case amt <= 0:
				info.zero++
				if ans == "ok" && amt == 0 {
					add("transfer-zero-accepted", "%s was accepted although the amount is zero", line)
				} else if ans == "ok" {
					add("transfer-negative-accepted", "%s was accepted although the amount is negative", line)
				}
			case len(calls) != 1 || calls[0].from != addrName(from) || calls[0].amount != int64(amt):
				add("transfer-asks-wrong", "%s asked the utxo reader %d time(s), not once for (%s, %d)", line, len(calls), addrName(from), amt)
			case calls[0].ok != (ans == "ok"):
				add("transfer-result-wrong", "%s answered %s although the utxo reader answered ok=%v", line, ans, calls[0].ok)
			}
			if amt > 0 && len(calls) == 1 && calls[0].ok && ans == "ok" {
				for _, it := range calls[0].handed {
					expIn = append(expIn, fmt.Sprintf("%d/%d/%d", it.ref, it.owner, it.amt))
				}
				expOut = append(expOut, outRec{to, int64(amt)})
				if lastFrom[from] {
					info.exactThenMore = true
				}
				if calls[0].total > int64(amt) {
					expOut = append(expOut, outRec{from, calls[0].total - int64(amt)})
					info.change++
					lastFrom[from] = false
				} else {
					info.exact++
					lastFrom[from] = true
				}
			} else if amt > 0 && ans != "ok" {
				info.short++
			}
			if rs := c.UTXORWSet().Rset; len(rs) >= nIn {
				if ref, ok := chunkOwners(rs[nIn:], from); !ok {
					add("input-of-other-address", "%s consumed output %d, which does not belong to %s: [%s]", line, ref, addrName(from), insStr(rs[nIn:]))
				}
			}
			checkUtxoCaches("after " + line)
		case wellFormed(w) && w[0] == "ev":
			prog = append(prog, w)
			progIdx = append(progIdx, li+1)
			ans, _ := execOp(c, w)
			answers = append(answers, ans)
			expEv = append(expEv, w[1]+"/"+w[2])
			info.events++
			if ans != "ok" {
				add("event-"+ans, "%s answered %s", line, ans)
			}
		case w[0] == "flush" && len(w) == 1:
			flushed, info.flushed = true, true
			ans := "ok"
			func() {
				defer func() {
					if r := recover(); r != nil {
						ans = "panic"
					}
				}()
				if err := c.Flush(); err != nil {
					ans = "err"
				}
			}()
			answers = append(answers, ans)
			if ans != "ok" {
				add("flush-"+ans, "Flush answered %s", ans)
			}
			checkUtxoCaches("at Flush")
			checkRecorded("first run", c.UTXORWSet())
			// the entries Flush has to leave in the transient bucket, in write-set order
			u := c.UTXORWSet()
			var want, got []string
			if len(u.Rset) > 0 {
				want = append(want, "0:I:"+insStr(u.Rset))
			}
			if len(u.WSet) > 0 {
				want = append(want, "0:O:"+outsStr(u.WSet))
			}
			if len(expEv) > 0 {
				want = append(want, "0:E:"+strings.Join(expEv, ","))
			}
			ws := c.RWSet().WSet
			for i, p := range ws {
				if kind := reservedKey(p.Bucket, p.Key); kind != 0 {
					got = append(got, reservedStr(kind, p.Value))
				}
				if i > 0 && bytes.Compare(append([]byte(ws[i-1].Bucket+"/"), ws[i-1].Key...), append([]byte(p.Bucket+"/"), p.Key...)) >= 0 {
					add("wset-order", "the write set is not in raw-key order at %s/%s", p.Bucket, p.Key)
				}
			}
			if strings.Join(got, " ") != strings.Join(want, " ") {
				key := "transient-entries-differ"
				strip := func(l []string) string {
					var r []string
					for _, x := range l {
						if !strings.HasPrefix(x, "0:E:") {
							r = append(r, x)
						}
					}
					return strings.Join(r, " ")
				}
				if strip(got) == strip(want) {
					key = "events-differ"
				}
				add(key, "after Flush the transient bucket holds [%s]; the token caches and the events of the execution are [%s]", strings.Join(got, " "), strings.Join(want, " "))
			}
		case w[0] == "utxorw" && len(w) == 1:
			answers = append(answers, utxorwString(c))
			checkUtxoCaches("at utxorw")
			checkRecorded("first run", c.UTXORWSet())
		case w[0] == "get" && len(w) == 3, w[0] == "put" && len(w) == 4, w[0] == "del" && len(w) == 3, w[0] == "sel" && len(w) == 5:
			prog = append(prog, w)
			progIdx = append(progIdx, li+1)
			ans, sr := execOp(c, w)
			if faulted && (ans == "err" || ans == "itererr") {
				// the fault was reached and reported: nothing more is claimed about this execution
				aborted, info.faultReported = true, true
				answers = append(answers, "-")
				break
			}
			answers = append(answers, ans)
			b, _ := strconv.Atoi(w[1])
			switch w[0] {
			case "get":
				k, _ := strconv.Atoi(w[2])
				want, live := view(b, k)
				_, pending := pend[bk{b, k}]
				cause := "underlying"
				if pending && live {
					cause = "after-put"
				} else if pending {
					cause = "after-del"
				}
				if ans == "panic" || ans == "err" {
					add("get-"+ans, "%s answered %s", line, ans)
				} else if live && ans != "v"+strconv.Itoa(want) {
					add("ryw-"+cause, "%s answered %s; the latest write/underlying state says v%d", line, ans, want)
				} else if !live && ans != "nf" && ans != "del" {
					add("ryw-"+cause, "%s answered %s for an absent key", line, ans)
				}
				if _, ok := back[bk{b, k}]; !pending && (ok || kind == 'x') {
					mustRead[bk{b, k}] = "Get fell through to the underlying state"
				}
			case "put", "del":
				k, _ := strconv.Atoi(w[2])
				v := 0
				if w[0] == "put" {
					v, _ = strconv.Atoi(w[3])
				}
				if ans != "ok" {
					add("put-"+ans, "%s answered %s", line, ans)
				}
				pend[bk{b, k}] = v
			case "sel":
				n, _ := strconv.Atoi(w[4])
				lo, hi := -1, 1<<30
				if w[2] != "-" {
					lo, _ = strconv.Atoi(w[2])
				}
				if w[3] != "-" {
					hi, _ = strconv.Atoi(w[3])
				}
				if !sr.ok {
					if sr.status == "panic" {
						add("select-panic", "%s panicked", line)
					} else if sr.status == "itererr" {
						add("select-iterator-error", "%s: the iterator reports an error over a healthy backing state", line)
					} else if !(w[2] != "-" && w[3] != "-" && lo > hi) {
						add("select-error", "%s was refused although the range is well formed", line)
					}
					break
				}
				// expected: the live keys of [lo,hi) in order (shadow), first n of them
				var expK, expV []int
				for k := 0; k < 10; k++ {
					if k >= lo && k < hi {
						if v, ok := view(b, k); ok {
							expK = append(expK, k)
							expV = append(expV, v)
						}
					}
				}
				full := len(expK)
				if len(expK) > n {
					expK, expV = expK[:n], expV[:n]
				}
				bad := false
				for i, k := range sr.keys {
					if pv, ok := pend[bk{b, k}]; ok && pv == 0 {
						add("select-yields-deleted", "%s yielded key %d (value code %d) which this execution deleted", line, k, sr.vals[i])
						bad = true
					} else if _, ok := view(b, k); !ok {
						e, inBack := back[bk{b, k}]
						switch {
						case !inBack || e.ver == 0:
							add("select-yields-never-written", "%s yielded key %d which was never written (empty version)", line, k)
						default:
							add("select-yields-dead", "%s yielded key %d which is deleted in the underlying state", line, k)
						}
						bad = true
					} else if k < lo || k >= hi {
						add("select-out-of-range", "%s yielded key %d", line, k)
						bad = true
					}
					if i > 0 && sr.keys[i-1] >= k {
						add("select-order", "%s yielded %d after %d", line, k, sr.keys[i-1])
						bad = true
					}
				}
				if !bad {
					if len(sr.keys) < len(expK) {
						add("select-misses-live", "%s yielded %v, live keys are %v (of %d)", line, sr.keys, expK, full)
					} else if len(sr.keys) > len(expK) {
						add("select-too-many", "%s yielded %v, live keys are %v", line, sr.keys, expK)
					} else {
						for i := range expK {
							if sr.keys[i] != expK[i] {
								add("select-misses-live", "%s yielded %v, live keys are %v", line, sr.keys, expK)
								break
							}
							if sr.vals[i] != expV[i] {
								add("select-wrong-value", "%s yielded %d:%d, expected value %d", line, sr.keys[i], sr.vals[i], expV[i])
								break
							}
						}
					}
				}
				// read-set obligations of the scan: every key the underlying reader iterates up to the last
				// yielded key (all of the range when the scan ran to its end)
				upto := hi
				if len(sr.keys) == n && n > 0 {
					upto = sr.keys[len(sr.keys)-1] + 1
				} else if n == 0 {
					upto = lo
				}
				for _, e := range es {
					if e2 := back[bk{e.b, e.k}]; e2 != e {
						continue
					}
					if e.b == b && e.k >= lo && e.k < hi && e.k < upto && iterated(e) {
						if _, ok := pend[bk{b, e.k}]; ok {
							// a key written or deleted in this execution is shadowed by the write set; outside the
							// transient bucket Put has force-read it, which is checked through wset-not-in-rset
							continue
						}
						mustRead[bk{b, e.k}] = "iterated by Select " + strings.Join(w[2:], " ")
					}
				}
			}
		case w[0] == "rwset" && len(w) == 1:
			answers = append(answers, dumpRW(c))
			rw := c.RWSet()
			have := map[bk]bool{}
			for _, r := range rw.RSet {
				b, k := bucketID(r.PureData.Bucket), keyID(r.PureData.Key)
				have[bk{b, k}] = true
				e, ok := back[bk{b, k}]
				switch {
				case ok && (verID(r) != e.ver || valID(r.PureData.Value) != e.val):
					add("rset-wrong-version", "read set holds %d:%d with version %d value %d; the underlying state has version %d value %d", b, k, verID(r), valID(r.PureData.Value), e.ver, e.val)
				case !ok && verID(r) != 0:
					add("rset-wrong-version", "read set holds never-written %d:%d with version %d", b, k, verID(r))
				}
			}
			for key, why := range mustRead {
				if !have[key] {
					add("rset-missing-read", "key %d:%d is not in the read set (%s)", key.b, key.k, why)
				}
			}
			ws := map[bk]int{}
			for _, p := range rw.WSet {
				if flushed && reservedKey(p.Bucket, p.Key) != 0 {
					continue // written by Flush; checked there
				}
				b, k := bucketID(p.Bucket), keyID(p.Key)
				ws[bk{b, k}] = valID(p.Value)
				if _, ok := pend[bk{b, k}]; !ok {
					add("wset-extra", "write set holds %d:%d which was never written", b, k)
				}
				_, inBack := back[bk{b, k}]
				if b != 0 && !have[bk{b, k}] && (kind == 'x' || inBack) {
					add("wset-not-in-rset", "written key %d:%d is not in the read set", b, k)
				}
			}
			for key, v := range pend {
				if got, ok := ws[key]; !ok || got != v {
					add("wset-not-final", "write set value of %d:%d is %d (present=%v), final write was %d", key.b, key.k, got, ok, v)
				}
			}
		case w[0] == "rerun" && len(w) == 1:
			// what State.verifyTxRWSets does with a transaction carrying this read/write set: the reader is built
			// from the read set, the utxo reader from the inputs parsed out of the transient bucket of the write
			// set, the contract calls run again, Flush, and the write sets are compared with xmodel.Equal
			rw := c.RWSet()
			first := c.UTXORWSet()
			utxoIn := first.Rset
			if flushed {
				tx := &lpb.Transaction{}
				for _, p := range rw.WSet {
					tx.TxOutputsExt = append(tx.TxOutputsExt, &protos.TxOutputExt{Bucket: p.Bucket, Key: p.Key, Value: p.Value})
				}
				parsedIn, err1 := xmodel.ParseContractUtxoInputs(tx)
				parsedOut, err2 := xmodel.ParseContractUtxoOutputs(tx)
				if err1 != nil || err2 != nil || insStr(parsedIn) != insStr(first.Rset) || outsStr(parsedOut) != outsStr(first.WSet) {
					add("transient-entries-differ", "the token inputs/outputs parsed back out of the write set are [%s] / [%s] (errors %v, %v); the execution recorded [%s] / [%s]",
						insStr(parsedIn), outsStr(parsedOut), err1, err2, insStr(first.Rset), outsStr(first.WSet))
				}
				utxoIn = parsedIn
			}
			c2 := sandbox.NewXModelCache(&contract.SandboxConfig{XMReader: sandbox.XMReaderFromRWSet(rw), UTXOReader: sandbox.NewUTXOReaderFromInput(utxoIn)})
			res := "same"
			for _, i := range progIdx {
				l := lines[i]
				pw := strings.Fields(l)
				nIn := len(c2.UTXORWSet().Rset)
				a2, _ := execOp(c2, pw)
				if pw[0] == "xf" {
					from, _ := strconv.Atoi(pw[1])
					if rs := c2.UTXORWSet().Rset; len(rs) >= nIn {
						if ref, ok := chunkOwners(rs[nIn:], from); !ok {
							add("input-of-other-address", "in the re-run %q consumed output %d, which does not belong to %s: [%s]", l, ref, addrName(from), insStr(rs[nIn:]))
						}
					}
				}
				if selList(a2) != selList(answers[i]) {
					res = "diff"
					if pw[0] == "xf" {
						add("replay-transfer-differs", "over NewUTXOReaderFromInput([%s]) %q answers %s, first run answered %s (re-run so far recorded inputs [%s] outputs [%s])",
							insStr(utxoIn), l, a2, answers[i], insStr(c2.UTXORWSet().Rset), outsStr(c2.UTXORWSet().WSet))
					} else {
						add("replay-diverges-"+pw[0], "over XMReaderFromRWSet %q answers %s, first run answered %s", l, selList(a2), selList(answers[i]))
					}
					break
				}
			}
			if res == "same" {
				if flushed {
					if err := c2.Flush(); err != nil {
						res = "diff"
						add("replay-flush-error", "Flush of the re-run fails: %v", err)
					}
				}
				again := c2.UTXORWSet()
				checkRecorded("re-run", again)
				if insStr(again.Rset) != insStr(first.Rset) || outsStr(again.WSet) != outsStr(first.WSet) {
					res = "diff"
					add("replay-utxo-differs", "the re-run over NewUTXOReaderFromInput records inputs [%s] outputs [%s]; the first run recorded inputs [%s] outputs [%s]",
						insStr(again.Rset), outsStr(again.WSet), insStr(first.Rset), outsStr(first.WSet))
				}
				w1, w2 := wsetString(c), wsetString(c2)
				if w1 != w2 || !xmodel.Equal(rw.WSet, c2.RWSet().WSet) {
					res = "diff"
					kvPart := func(ws string) string {
						var r []string
						for _, t := range strings.Fields(ws) {
							if !strings.HasPrefix(t, "0:I:") && !strings.HasPrefix(t, "0:O:") && !strings.HasPrefix(t, "0:E:") {
								r = append(r, t)
							}
						}
						return strings.Join(r, " ")
					}
					if kvPart(w1) != kvPart(w2) || w1 == w2 {
						add("replay-diverges-wset", "write set of the re-run is %s, first run %s (xmodel.Equal=%v)", w2, w1, xmodel.Equal(rw.WSet, c2.RWSet().WSet))
					} else {
						add("replay-transient-differs", "the transient entries of the re-run's write set are %s, first run %s", w2, w1)
					}
				}
			}
			answers = append(answers, res)
		default:
			answers = append(answers, "bad-op")
		}
	}
	return answers, viols, info
}

// shrink drops ops / backing entries while a violation with the same key persists.
func shrink(lines []string, key string) []string {
	has := func(ls []string) bool {
		_, vs, _ := runCase(ls)
		for _, v := range vs {
			if v.key == key {
				return true
			}
		}
		return false
	}
	cur := append([]string{}, lines...)
	for changed := true; changed; {
		changed = false
		for i := 1; i < len(cur); i++ {
			cand := append(append([]string{}, cur[:i]...), cur[i+1:]...)
			if has(cand) {
				cur, changed = cand, true
				i--
			}
		}
		w := strings.Fields(cur[0])
		for i := 2; i < len(w); i++ {
			cw := append(append([]string{}, w[:i]...), w[i+1:]...)
			cand := append([]string{strings.Join(cw, " ")}, cur[1:]...)
			if has(cand) {
				cur, w, changed = cand, cw, true
				i--
			}
		}
		// the unspent outputs of the `utxo` line, one amount at a time
		for li := 1; li < len(cur); li++ {
			uw := strings.Fields(cur[li])
			if len(uw) == 0 || uw[0] != "utxo" {
				continue
			}
			for ti := 1; ti < len(uw); ti++ {
				p := strings.SplitN(uw[ti], ":", 2)
				if len(p) != 2 {
					continue
				}
				amts := strings.Split(p[1], ",")
				for ai := 0; ai < len(amts); ai++ {
					na := append(append([]string{}, amts[:ai]...), amts[ai+1:]...)
					nw := append([]string{}, uw...)
					if len(na) == 0 {
						nw = append(nw[:ti], nw[ti+1:]...)
					} else {
						nw[ti] = p[0] + ":" + strings.Join(na, ",")
					}
					cand := append([]string{}, cur...)
					cand[li] = strings.Join(nw, " ")
					if has(cand) {
						cur, uw, changed = cand, nw, true
						if len(na) == 0 {
							ti--
							break
						}
						amts = na
						ai--
					}
				}
			}
		}
	}
	return cur
}

// ---------------------------------------------------------------- generators

func entriesString(es []entry) string {
	var p []string
	for _, e := range es {
		p = append(p, fmt.Sprintf("%d:%d:%d:%d", e.b, e.k, e.ver, e.val))
	}
	return strings.Join(p, " ")
}

func randWorld(r *xvlib.Rng, nKeys int) (byte, []entry) {
	kind := byte('m')
	if r.Bool() {
		kind = 'x'
	}
	var es []entry
	ver := 1
	for b := 0; b < nBuckets; b++ {
		if b == 0 && kind == 'x' {
			continue // the ledger never stores the transient bucket
		}
		for k := 0; k < nKeys; k++ {
			if b >= 2 && !r.Chance(1, 3) {
				continue
			}
			switch r.Intn(6) {
			case 0, 1, 2: // live
				es = append(es, entry{b, k, ver, 2 + r.Intn(4)})
				ver++
			case 3: // deleted in the underlying state
				es = append(es, entry{b, k, ver, 0})
				ver++
			case 4: // never written (absent)
			case 5:
				if kind == 'm' && r.Chance(1, 2) { // an empty-version entry (as a read-set derived reader holds)
					es = append(es, entry{b, k, 0, 1})
				}
			}
		}
	}
	return kind, es
}

func randBound(r *xvlib.Rng, nKeys int) string {
	if r.Chance(1, 3) {
		return "-"
	}
	return strconv.Itoa(r.Intn(nKeys + 1))
}

func randProgram(r *xvlib.Rng, nKeys, maxOps int) []string {
	n := 1 + r.Intn(maxOps)
	var ops []string
	nextVal := 10
	hot := 1 + r.Intn(2) // most ops hit one bucket so that they interact
	for i := 0; i < n; i++ {
		b := hot
		if r.Chance(1, 6) {
			b = r.Intn(nBuckets)
		}
		k := r.Intn(nKeys)
		switch r.Intn(10) {
		case 0, 1:
			ops = append(ops, fmt.Sprintf("get %d %d", b, k))
		case 2, 3, 4:
			v := nextVal
			nextVal++
			if r.Chance(1, 12) {
				v = r.Intn(2) // the delete mark / the empty value written through Put
			}
			ops = append(ops, fmt.Sprintf("put %d %d %d", b, k, v))
		case 5, 6:
			ops = append(ops, fmt.Sprintf("del %d %d", b, k))
		default:
			lo, hi := randBound(r, nKeys), randBound(r, nKeys)
			if hi == "0" {
				hi = "-" // key 0 is the empty key: as an upper bound the empty byte string means "no bound"
			}
			if lo != "-" && hi != "-" && r.Chance(4, 5) {
				a, _ := strconv.Atoi(lo)
				c, _ := strconv.Atoi(hi)
				if a > c {
					lo, hi = hi, lo
				}
			}
			cnt := 99
			if r.Chance(1, 2) {
				cnt = r.Intn(nKeys + 1)
			}
			ops = append(ops, fmt.Sprintf("sel %d %s %s %d", b, lo, hi, cnt))
		}
	}
	return ops
}

// exhaustive universe: 3 keys in bucket 1
var exWorlds = []string{
	"reset m 1:0:1:2 1:1:2:0 1:2:0:1",          // MemXModel: live, deleted, empty-version entry
	"reset x 1:0:1:2 1:1:2:0",                  // XModel-like: live, deleted, never written
	"reset x 1:1:1:3 1:2:2:4 2:0:3:5 2:1:4:0", // XModel-like: never written, live, live; other bucket populated
	"reset X 1:0:1:2 1:2:2:4",                  // the empty key (key 0) spelled nil, live in the backing state
	"reset M 1:1:1:3 1:2:0:1",                  // the empty key spelled nil, only written by the execution
}

func exAlphabet(small bool) []string {
	var a []string
	for k := 0; k < 3; k++ {
		a = append(a, fmt.Sprintf("get 1 %d", k), fmt.Sprintf("put 1 %d %d", k, 7+k), fmt.Sprintf("del 1 %d", k))
	}
	sels := []string{"sel 1 - - 99", "sel 1 - - 1", "sel 1 1 - 99", "sel 1 - 2 2", "sel 1 0 - 0", "sel 1 1 3 1"}
	if small {
		sels = sels[:3]
	}
	return append(a, sels...)
}

// randTokenCase: backing state + unspent outputs + a program mixing transfers, events and key ops
func randTokenCase(r *xvlib.Rng) []string {
	nKeys := 2 + r.Intn(4)
	kind, es := randWorld(r, nKeys)
	lines := []string{strings.TrimSpace("reset " + string(kind) + " " + entriesString(es))}
	nAddr := 1 + r.Intn(3)
	type outp struct {
		owner, amt int
		taken      bool
	}
	var outs []*outp
	var toks []string
	amtChoices := []int{0, 1, 1, 1, 2, 2, 2, 3, 3, 5}
	for t, nt := 0, r.Intn(5); t < nt; t++ {
		a := 1 + r.Intn(nAddr)
		var p []string
		for j, nj := 0, 1+r.Intn(3); j < nj; j++ {
			v := amtChoices[r.Intn(len(amtChoices))]
			outs = append(outs, &outp{owner: a, amt: v})
			p = append(p, strconv.Itoa(v))
		}
		toks = append(toks, fmt.Sprintf("%d:%s", a, strings.Join(p, ",")))
	}
	if len(toks) > 0 {
		lines = append(lines, "utxo "+strings.Join(toks, " "))
	}
	nx := []int{0, 1, 2, 2, 2, 3, 3, 4}[r.Intn(8)]
	nEv := []int{0, 0, 1, 2}[r.Intn(4)]
	kvOps := randProgram(r, nKeys, 8)
	if r.Chance(1, 4) {
		kvOps = nil
	}
	// interleave: kinds 0 = key op, 1 = transfer, 2 = event
	var kinds []int
	for range kvOps {
		kinds = append(kinds, 0)
	}
	for i := 0; i < nx; i++ {
		kinds = append(kinds, 1)
	}
	for i := 0; i < nEv; i++ {
		kinds = append(kinds, 2)
	}
	for i := len(kinds) - 1; i > 0; i-- {
		j := r.Intn(i + 1)
		kinds[i], kinds[j] = kinds[j], kinds[i]
	}
	hot := 1 + r.Intn(nAddr)
	ki := 0
	for _, k := range kinds {
		switch k {
		case 0:
			lines = append(lines, kvOps[ki])
			ki++
		case 2:
			lines = append(lines, fmt.Sprintf("ev %d %d", r.Intn(3), r.Intn(4)))
		case 1:
			from := hot
			if r.Chance(1, 4) {
				from = 1 + r.Intn(nAddr)
			}
			to := 9
			if r.Chance(1, 3) {
				to = 1 + r.Intn(nAddr) // also to oneself
			}
			var mine []*outp
			total := 0
			for _, o := range outs {
				if !o.taken && o.owner == from {
					mine = append(mine, o)
					total += o.amt
				}
			}
			amt := 0
			switch c := r.Intn(12); {
			case c < 6 && len(mine) > 0: // an exact prefix sum
				n := 1 + r.Intn(len(mine))
				for _, o := range mine[:n] {
					amt += o.amt
				}
			case c < 8 && len(mine) > 0: // one short of / one past a prefix sum
				n := 1 + r.Intn(len(mine))
				for _, o := range mine[:n] {
					amt += o.amt
				}
				if c == 6 && amt > 1 {
					amt--
				} else {
					amt++
				}
			case c == 8:
				amt = 0
				if r.Chance(1, 2) {
					amt = -1 - r.Intn(3)
				}
			case c == 9:
				amt = total + 1 + r.Intn(3)
			default:
				amt = 1 + r.Intn(6)
			}
			lines = append(lines, fmt.Sprintf("xf %d %d %d", from, to, amt))
			// what a selection in order takes (to keep `mine` right for the next transfer)
			if amt > 0 && amt <= total {
				sum := 0
				for _, o := range mine {
					o.taken = true
					sum += o.amt
					if sum >= amt {
						break
					}
				}
			}
		}
	}
	return lines
}

func main() {
	args := xvlib.ParseArgs()
	scratchDir = args.Scratch
	out := xvlib.NewOut(args.Out)
	defer out.Close()
	// XMCache.flushUTXORWSet prints every token output to stdout; the harness reports through files only
	if devnull, err := os.OpenFile(os.DevNull, os.O_WRONLY, 0); err == nil {
		os.Stdout = devnull
	}
	reported := map[string]int{}
	runAndEmit := func(lines []string) {
		answers, viols, info := runCase(lines)
		for i, l := range lines {
			a := "bad-op"
			if i < len(answers) {
				a = answers[i]
			}
			out.Emit(l, a)
		}
		nontrivial := false
		for i, l := range lines {
			w := strings.Fields(l)
			if len(w) == 0 {
				continue
			}
			if w[0] == "sel" || w[0] == "get" {
				nontrivial = true
			}
			if w[0] == "xf" {
				nontrivial = true
			}
			if w[0] != "reset" && w[0] != "rwset" && w[0] != "rerun" && w[0] != "utxo" && w[0] != "utxorw" && i < len(answers) {
				a := answers[i]
				if w[0] == "sel" && strings.HasPrefix(a, "[") {
					n := 0
					if s := selList(a); len(s) > 2 {
						n = len(strings.Fields(s))
					}
					a = "yield" + strconv.Itoa(n)
				} else if w[0] == "get" && strings.HasPrefix(a, "v") {
					a = "value"
				}
				out.Count(w[0] + ":" + a)
			}
			if w[0] == "reset" && len(w) > 1 {
				out.Count("backing:" + w[1])
			}
		}
		out.Case(strings.Join(lines, ";"), nontrivial)
		if info.faulted {
			if info.faultReported {
				out.Count("read-fault:reported")
			} else {
				out.Count("read-fault:not-reached-or-not-reported")
			}
		}
		if info.xfers > 0 || info.events > 0 {
			out.Count("token-case")
			cnt := func(name string, n int) {
				if n > 0 {
					out.Count("token-case:" + name)
				}
			}
			cnt("exact-cover", info.exact)
			cnt("change", info.change)
			cnt("failed-transfer", info.short)
			cnt("zero-amount", info.zero)
			cnt("event", info.events)
			if info.xfers >= 2 {
				out.Count("token-case:>=2-transfers")
			}
			if info.exactThenMore {
				out.Count("token-case:exact-cover-then-another-transfer-of-the-same-address")
			}
			if info.exact > 0 && info.short > 0 {
				out.Count("token-case:exact-cover-and-failed-transfer")
			}
		}
		seen := map[string]bool{}
		for _, v := range viols {
			if seen[v.key] {
				continue
			}
			seen[v.key] = true
			out.Count("violation:" + v.key)
			if reported[v.key] >= 2 {
				continue
			}
			reported[v.key]++
			min := shrink(lines, v.key)
			ma, mv, _ := runCase(min)
			what := v.what
			for _, x := range mv {
				if x.key == v.key {
					what = x.what
					break
				}
			}
			out.Violate(xvlib.Violation{Key: v.key, What: what, Ops: min, Impl: ma})
		}
	}
	runFile := func(path string) {
		var cur []string
		for _, l := range xvlib.ReadLines(path) {
			if strings.HasPrefix(l, "reset") && len(cur) > 0 {
				runAndEmit(cur)
				cur = nil
			}
			cur = append(cur, l)
		}
		if len(cur) > 0 {
			runAndEmit(cur)
		}
	}
	if args.Replay != "" {
		runFile(args.Replay)
		out.Stats.Rule = "replay of " + args.Replay
		return
	}
	rng := xvlib.NewRng(args.Seed)
	thorough := args.Tier == "thorough"
	// 0. the corpus (replays of repaired defects and hand-written corner cases) runs first
	corpusFiles, _ := filepath.Glob(filepath.Join("corpus", args.Prop, "*.ops"))
	sort.Strings(corpusFiles)
	for _, f := range corpusFiles {
		runFile(f)
		out.Count("corpus-file")
	}
	// 1. exhaustive programs over 3 keys x 3 backing states
	exLen, exLenSmall := 3, 4
	randCases := 2000
	if thorough {
		exLen, exLenSmall = 5, 5
		randCases = 50000
	}
	exCount := 0
	var rec func(world string, alpha []string, prog []string, depth, max int, minLen int)
	rec = func(world string, alpha []string, prog []string, depth, max int, minLen int) {
		if depth >= minLen && depth > 0 {
			lines := append(append([]string{world}, prog...), "rwset", "rerun")
			runAndEmit(lines)
			exCount++
		}
		if depth == max {
			return
		}
		for _, op := range alpha {
			rec(world, alpha, append(prog, op), depth+1, max, minLen)
		}
	}
	for _, w := range exWorlds {
		rec(w, exAlphabet(false), nil, 0, exLen, 1)
		if exLenSmall > exLen {
			rec(w, exAlphabet(true), nil, 0, exLenSmall, exLen+1) // longer programs over the reduced scan alphabet
		}
	}
	// 2. random programs ≤ 15 ops over ≤ 8 keys, 4 buckets incl. the transient one
	for i := 0; i < randCases; i++ {
		nKeys := 2 + rng.Intn(7)
		kind, es := randWorld(rng, nKeys)
		prog := randProgram(rng, nKeys, 15)
		if rng.Chance(1, 4) {
			kind -= 'a' - 'A' // the empty key spelled nil
		}
		lines := append([]string{strings.TrimSpace("reset " + string(kind) + " " + entriesString(es))}, prog...)
		lines = append(lines, "rwset", "rerun")
		runAndEmit(lines)
		if i < 3 {
			a, _, _ := runCase(lines)
			out.Sample(map[string]interface{}{"ops": lines, "impl": a})
		}
	}
	// 2b. the sandbox over the REAL XModel (real.go): the same random programs over healthy stores, then stores on
	// which one version record becomes unreadable in the middle of the program - every later call must report the
	// error or answer as over the healthy store (a scan: be complete)
	realCases, faultCases := 300, 700
	if thorough {
		realCases, faultCases = 5000, 12000
	}
	realWorld := func(nKeys int) []entry {
		for {
			_, es := randWorld(rng, nKeys)
			var r []entry
			for _, e := range es {
				if e.b != 0 && e.ver != 0 {
					r = append(r, e)
				}
			}
			if len(r) >= 2 {
				return r
			}
		}
	}
	// XModel.Select with a nil end key scans nothing (limit "<bucket>/"; §6 C10 "Expected", an observation): the cases over
	// the real XModel give every scan an explicit upper bound (9 = above every key)
	bounded := func(lines []string) []string {
		for i, l := range lines {
			if w := strings.Fields(l); len(w) == 5 && w[0] == "sel" && w[3] == "-" {
				w[3] = "9"
				lines[i] = strings.Join(w, " ")
			}
		}
		return lines
	}
	for i := 0; i < realCases; i++ {
		nKeys := 2 + rng.Intn(7)
		lines := append([]string{"reset r " + entriesString(realWorld(nKeys))}, randProgram(rng, nKeys, 12)...)
		runAndEmit(bounded(append(lines, "rwset", "rerun")))
	}
	for _, victim := range []int{1, 2, 3} { // small and systematic: each key of a three-key range, every scan shape
		for _, sel := range []string{"sel 1 - - 99", "sel 1 1 - 99", "sel 1 - 3 99", "sel 1 2 4 99", "sel 1 - - 1", "sel 1 - - 2", "sel 1 1 9 3", "get 1 %d", "put 1 %d 7", "del 1 %d"} {
			for _, pre := range []string{"", "get 1 1", "put 1 2 9", "del 1 1", "sel 1 - - 1", "put 1 0 8"} {
				lines := []string{"reset r 1:1:1:3 1:2:2:4 1:3:3:5 2:1:4:2"}
				if pre != "" {
					lines = append(lines, pre)
				}
				op := sel
				if strings.Contains(op, "%d") {
					op = fmt.Sprintf(op, victim)
				}
				lines = append(lines, fmt.Sprintf("fault 1 %d", victim), op, "sel 1 - - 99", "rwset", "rerun")
				runAndEmit(bounded(lines))
			}
		}
	}
	for i := 0; i < faultCases; i++ {
		nKeys := 2 + rng.Intn(7)
		es := realWorld(nKeys)
		lines := []string{"reset r " + entriesString(es)}
		if rng.Chance(2, 3) {
			lines = append(lines, randProgram(rng, nKeys, 4)...)
		}
		v := es[rng.Intn(len(es))]
		lines = append(lines, fmt.Sprintf("fault %d %d", v.b, v.k))
		for j, n := 0, 1+rng.Intn(3); j < n; j++ {
			switch rng.Intn(6) {
			case 0:
				lines = append(lines, fmt.Sprintf("get %d %d", v.b, v.k))
			case 1:
				lines = append(lines, fmt.Sprintf("put %d %d %d", v.b, v.k, 20+j))
			case 2:
				lines = append(lines, fmt.Sprintf("sel %d - - 99", v.b))
			case 3:
				lines = append(lines, fmt.Sprintf("sel %d - - %d", v.b, rng.Intn(nKeys+1)))
			case 4:
				lines = append(lines, fmt.Sprintf("sel %d %s - 99", v.b, randBound(rng, nKeys)))
			default:
				lines = append(lines, randProgram(rng, nKeys, 2)...)
			}
		}
		runAndEmit(bounded(append(lines, "rwset", "rerun")))
	}
	// 3. the token side, exhaustively over small universes: every list of ≤ 3 unspent outputs worth 0..3 of one
	// address x every sequence of transfers with amounts 0..4 (so every way a prefix covers an amount exactly,
	// with change, or not at all is hit, also with zero-valued outputs), and every interleaving of outputs of two
	// addresses worth 1..2 x every sequence of two transfers from either address
	tokEnd := []string{"flush", "rwset", "utxorw", "rerun"}
	xfLen := 2
	if thorough {
		xfLen = 3
	}
	tokEx := 0
	var vec func(cur []int, max, bound int, f func([]int))
	vec = func(cur []int, max, bound int, f func([]int)) {
		f(cur)
		if len(cur) == max {
			return
		}
		for v := 0; v < bound; v++ {
			vec(append(append([]int{}, cur...), v), max, bound, f)
		}
	}
	var seqs func(cur []int, n, bound int, f func([]int))
	seqs = func(cur []int, n, bound int, f func([]int)) {
		if len(cur) == n {
			f(cur)
			return
		}
		for v := 0; v < bound; v++ {
			seqs(append(append([]int{}, cur...), v), n, bound, f)
		}
	}
	vec(nil, 3, 4, func(amts []int) {
		for n := 1; n <= xfLen; n++ {
			seqs(nil, n, 5, func(xs []int) {
				lines := []string{"reset x 1:0:1:5"}
				if len(amts) > 0 {
					var p []string
					for _, a := range amts {
						p = append(p, strconv.Itoa(a))
					}
					lines = append(lines, "utxo 1:"+strings.Join(p, ","))
				}
				for i, x := range xs {
					lines = append(lines, fmt.Sprintf("xf 1 %d %d", 2+i%2, x))
				}
				runAndEmit(append(lines, tokEnd...))
				tokEx++
			})
		}
	})
	vec(nil, 3, 4, func(code []int) { // code: owner = 1 + c/2, amount = 1 + c%2
		if len(code) == 0 {
			return
		}
		seqs(nil, 2, 6, func(xs []int) { // from = 1 + x/3, amount = 1 + x%3
			var p []string
			for _, c := range code {
				p = append(p, fmt.Sprintf("%d:%d", 1+c/2, 1+c%2))
			}
			lines := []string{"reset x", "utxo " + strings.Join(p, " ")}
			for _, x := range xs {
				lines = append(lines, fmt.Sprintf("xf %d 9 %d", 1+x/3, 1+x%3))
			}
			runAndEmit(append(lines, tokEnd...))
			tokEx++
		})
	})
	// 4. random programs mixing 0-4 transfers and events with key ops; the amounts are mostly chosen so that a
	// prefix of the remaining outputs of the sender covers them exactly, or misses / exceeds that by one
	tokCases := 3000
	if thorough {
		tokCases = 60000
	}
	for i := 0; i < tokCases; i++ {
		lines := randTokenCase(rng)
		runAndEmit(append(lines, tokEnd...))
		if i < 2 {
			a, _, _ := runCase(append(lines, tokEnd...))
			out.Sample(map[string]interface{}{"ops": append(lines, tokEnd...), "impl": a})
		}
	}
	out.Stats.Exhaustive = true
	out.Stats.Rule = fmt.Sprintf("exhaustive: every program of ≤ %d ops over the full alphabet (get/put/del on 3 keys, 6 scans with different bounds and early stops) and of ≤ %d ops over the reduced alphabet (3 scans), on each of 3 backing states (MemXModel with live/deleted/empty-version entries; XModel-like with live/deleted/never-written keys; XModel-like with a second bucket): %d programs; random: %d programs of ≤ 15 ops over ≤ 8 keys and 4 buckets (incl. the transient bucket) on random backing states of both reader kinds; every program is followed by the RW-set dump and a re-run over XMReaderFromRWSet; the REAL xmodel.XModel on a store (reset r): %d random programs over healthy stores, 180 systematic + %d random programs in which the version record of one key becomes unreadable (read fault on one row) before the last calls - a call then reports the error or answers as over the healthy store; token side exhaustive: every list of ≤ 3 unspent outputs worth 0..3 of one address x every sequence of ≤ %d transfers with amounts 0..4, and every list of ≤ 3 outputs worth 1..2 of two addresses x every pair of transfers (either sender, amounts 1..3): %d cases; token side random: %d programs of 0-4 transfers (amounts mostly an exact prefix sum of the sender's remaining outputs, or one off, or zero, or more than the sender owns; zero-valued outputs; up to 3 senders) and 0-2 events mixed with ≤ 8 key ops; every token case ends with Flush, the RW-set and UTXORWSet dumps and the re-run over XMReaderFromRWSet + NewUTXOReaderFromInput(inputs parsed from the write set) + Flush; a case is non-trivial if it reads or transfers; distinct by op lines", exLen, exLenSmall, exCount, randCases, realCases, faultCases, xfLen, tokEx, tokCases)
}
