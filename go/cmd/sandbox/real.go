package main

// The sandbox over the REAL xmodel.XModel (reset kind r): one ledger on the instrumented in-memory engine (kvmem), and
// per case a fresh state store on which every entry of the reset line is written by a transaction of its own through
// XModel.DoTx (transaction "t<ver>", the entry at output offset ver%4 behind padding writes of another bucket), the
// transaction kept in the unconfirmed table - where XModel resolves a version from.  The reader handed to XMCache is a
// second XModel opened on that store: its version caches are cold, every version is resolved from storage.
//
// fault: kvmem.SetReadFault fails every read of the record of the transaction that wrote the key's current version
// (an I/O error on one row; the same code path as a transaction rolled back under a running scan).

import (
	"errors"
	"fmt"
	"path/filepath"
	"strconv"

	"github.com/golang/protobuf/proto"
	sctx "github.com/xuperchain/xupercore/bcs/ledger/xledger/state/context"
	"github.com/xuperchain/xupercore/bcs/ledger/xledger/state/xmodel"
	pb "github.com/xuperchain/xupercore/bcs/ledger/xledger/xldgpb"
	"github.com/xuperchain/xupercore/lib/storage/kvdb"
	"github.com/xuperchain/xupercore/protos"

	"xv/chainlib"
	"xv/kvmem"
	"xv/xvlib"
)

var (
	scratchDir string
	realNode   *chainlib.Node
	realSeq    int
)

type realStore struct {
	path string
	db   kvdb.Database
	xm   *xmodel.XModel
}

var errReadFault = errors.New("xv: injected read fault")

func buildRealStore(es []entry) (*realStore, error) {
	if realNode == nil {
		g := &chainlib.Genesis{Alloc: map[string]string{}, NoFee: true, Award: "0"}
		miner := xvlib.NewAccount(0)
		g.Alloc[miner.Address] = "1000"
		g.AllocOrder = []string{miner.Address}
		n, err := chainlib.NewNode(scratchDir, "sandbox", g.JSON(), miner)
		if err != nil {
			return nil, err
		}
		realNode = n
	}
	realSeq++
	rs := &realStore{path: filepath.Join(realNode.Root, "xm", strconv.Itoa(realSeq))}
	kvmem.Drop(rs.path)
	rs.db = kvmem.Open(rs.path)
	sc, err := sctx.NewStateCtx(realNode.Env, chainlib.BCName, realNode.L, xvlib.Crypto())
	if err != nil {
		return nil, err
	}
	w, err := xmodel.NewXModel(sc, rs.db)
	if err != nil {
		return nil, err
	}
	for _, e := range es {
		tx := &pb.Transaction{Txid: []byte("t" + strconv.Itoa(e.ver))}
		cite := func(bucket string, key []byte) error {
			cur, err := w.Get(bucket, key)
			if err != nil {
				return err
			}
			tx.TxInputsExt = append(tx.TxInputsExt, &protos.TxInputExt{Bucket: bucket, Key: key, RefTxid: cur.RefTxid, RefOffset: cur.RefOffset})
			return nil
		}
		for i := 0; i < e.ver%4; i++ {
			pk := []byte(fmt.Sprintf("p%d-%d", e.ver, i))
			if err := cite("zpad", pk); err != nil {
				return nil, err
			}
			tx.TxOutputsExt = append(tx.TxOutputsExt, &protos.TxOutputExt{Bucket: "zpad", Key: pk, Value: []byte("x")})
		}
		if err := cite(bucketName(e.b), keyBytes(e.k)); err != nil {
			return nil, err
		}
		val := valBytes(e.val)
		if val == nil {
			val = []byte{}
		}
		tx.TxOutputsExt = append(tx.TxOutputsExt, &protos.TxOutputExt{Bucket: bucketName(e.b), Key: keyBytes(e.k), Value: val})
		batch := rs.db.NewBatch()
		if err := w.DoTx(tx, batch); err != nil {
			return nil, fmt.Errorf("DoTx %s: %v", tx.Txid, err)
		}
		buf, err := proto.Marshal(tx)
		if err != nil {
			return nil, err
		}
		batch.Put(append([]byte(pb.UnconfirmedTablePrefix), tx.Txid...), buf)
		if err := batch.Write(); err != nil {
			return nil, err
		}
	}
	// the reader under test: a second XModel on the same store, caches cold
	sc2, err := sctx.NewStateCtx(realNode.Env, chainlib.BCName, realNode.L, xvlib.Crypto())
	if err != nil {
		return nil, err
	}
	if rs.xm, err = xmodel.NewXModel(sc2, rs.db); err != nil {
		return nil, err
	}
	return rs, nil
}

// fault: the record of the transaction that wrote entry e cannot be read any more
func (rs *realStore) fault(e entry) {
	row := pb.UnconfirmedTablePrefix + "t" + strconv.Itoa(e.ver)
	path := rs.path
	kvmem.SetReadFault(func(store, key string) error {
		if store == path && key == row {
			return errReadFault
		}
		return nil
	})
}

func (rs *realStore) close() {
	kvmem.ClearHooks()
	kvmem.Drop(rs.path)
}
