// Engine `bftmatch` (second engine of C14): WHICH validator set the justify certificate of a
// block is checked against.  Drives the real xpoa and tdpos plugins (chained-bft enabled, built
// through their public constructors on a stub ledger whose snapshots depend on the block they
// are taken at) and presents candidate blocks around a validator-set change to the real
// CheckMinerMatch.
//
// op lines (also the input of the Lean driver `xvdriver bftmatch`):
//
//	xp <start> <init> <hist> <tip> <h> <ownBits> <preBits> <pos> <view|noqc> <entry>...
//	td <start> <init> <hist> <terms> <h> <ownBits> <preBits> <term> <pos> <view|noqc> <entry>...
//	     -> accept | reject
//	xpf <fault> <xp line...>  /  tdf <fault> <td line...>
//	     the same check with a storage fault: fault = g<k> the k-th Get of a snapshot reader made by the check fails,
//	     s<k> the k-th CreateSnapshot fails.  -> reject (no validator record, no set to accept under); `-` when the check
//	     makes fewer reads
//	tdt <reps> <extras> <td line...>
//	     the same check over an election record with TIED ballots: the nominees are the recorded set plus <extras>; an
//	     elected member ties with its successor / a refused nominee ties with the last elected member wherever the address
//	     order (larger address first) keeps the recorded list the result; evaluated <reps> times on the cached instance and
//	     on fresh ones.  -> accept | reject | unstable (the evaluations disagree)
//
//	start   StartHeight of the consensus instance
//	init    configured initial validators, e.g. 0,1,2,3 (account numbers)
//	hist    validator-set changes recorded on the chain: `-` or E:set/E:set...  (the post-state of
//	        block E is the first that contains the new set; chain order)
//	tip     height of the ledger tip (blocks 0..tip exist); tdpos: terms = curTerm stored in
//	        blocks 0..tip, e.g. 0,1,1,2
//	h       height of the candidate block; its predecessor is ledger block h-1
//	ownBits / preBits   targetBits (rollback marker) in the storage of the candidate / of block h-1; a marker m is resolved
//	        through the snapshot of block m-3: m > tip+3 cannot be resolved (no validator set: nothing is accepted)
//	pos     position in the slot schedule selected by the candidate's timestamp; the proposer is
//	        the validator at that position of the set the code should compute for the block
//	        (tdpos: term = the term selected by the timestamp)
//	view    <v> or <v>@<cert>: the view number declared in the justify certificate (honest: h-1) and the
//	        height of the ledger block whose id it certifies (default and honest: the predecessor h-1;
//	        h-3 <= cert <= h-1).  `noqc`: storage without justify
//	entry   <addr><kind> as in the safety engine: v valid signature by <addr> over the certified id,
//	        r the same re-signed, w signature over another id, c corrupted, m key/address mismatch
package main

import (
	"crypto/sha256"
	"encoding/json"
	"fmt"
	"path/filepath"
	"sort"
	"strconv"
	"strings"

	"github.com/xuperchain/xupercore/bcs/consensus/tdpos"
	"github.com/xuperchain/xupercore/bcs/consensus/xpoa"
	"github.com/xuperchain/xupercore/kernel/common/xcontext"
	"github.com/xuperchain/xupercore/kernel/consensus/base"
	ccommon "github.com/xuperchain/xupercore/kernel/consensus/base/common"
	bft "github.com/xuperchain/xupercore/kernel/consensus/base/driver/chained-bft"
	bftpb "github.com/xuperchain/xupercore/kernel/consensus/base/driver/chained-bft/pb"
	cctx "github.com/xuperchain/xupercore/kernel/consensus/context"
	"github.com/xuperchain/xupercore/kernel/consensus/def"
	"xv/xvlib"
)

// ------------------------------------------------------------------ accounts / signatures

var (
	accts    []*xvlib.Account
	sigCache = map[string][]byte{}
)

const outsider = 90

func acct(i int) *xvlib.Account {
	for len(accts) <= i {
		accts = append(accts, xvlib.NewAccount(len(accts)))
	}
	return accts[i]
}

func sign(i int, id []byte) []byte {
	k := fmt.Sprintf("%d/%x", i, id)
	if s, ok := sigCache[k]; ok {
		return s
	}
	s, err := xvlib.Crypto().SignECDSA(acct(i).Pri, id)
	if err != nil {
		panic(err)
	}
	if len(sigCache) > 200000 {
		sigCache = map[string][]byte{}
	}
	sigCache[k] = s
	return s
}

type entry struct {
	addr int
	kind byte
}

func parseEntry(tok string) (entry, bool) {
	if len(tok) < 2 {
		return entry{}, false
	}
	kind := tok[len(tok)-1]
	a, err := strconv.Atoi(tok[:len(tok)-1])
	if err != nil || a < 0 || a > 200 || !strings.ContainsRune("vrwcm", rune(kind)) {
		return entry{}, false
	}
	return entry{a, kind}, true
}

func (e entry) valid() bool { return e.kind == 'v' || e.kind == 'r' }

func mkSign(e entry, certID, otherID []byte) *bftpb.QuorumCertSign {
	q := &bftpb.QuorumCertSign{Address: acct(e.addr).Address, PublicKey: acct(e.addr).PubJSON}
	switch e.kind {
	case 'v':
		q.Sign = sign(e.addr, certID)
	case 'r':
		sg, err := xvlib.Crypto().SignECDSA(acct(e.addr).Pri, certID)
		if err != nil {
			panic(err)
		}
		q.Sign = sg
	case 'w':
		q.Sign = sign(e.addr, otherID)
	case 'c':
		s := append([]byte{}, sign(e.addr, certID)...)
		s[len(s)/2] ^= 0x20
		q.Sign = s
	case 'm':
		q.PublicKey = acct(outsider).PubJSON
		q.Sign = sign(outsider, certID)
	}
	return q
}

// ------------------------------------------------------------------ parsing

type edit struct {
	h   int64
	set []int
}

func parseSet(s string) ([]int, bool) {
	var r []int
	seen := map[int]bool{}
	for _, t := range strings.Split(s, ",") {
		v, err := strconv.Atoi(t)
		if err != nil || v < 0 || v > 200 || seen[v] {
			return nil, false
		}
		seen[v] = true
		r = append(r, v)
	}
	return r, len(r) > 0
}

func parseHist(s string) ([]edit, bool) {
	if s == "-" {
		return nil, true
	}
	var r []edit
	for _, t := range strings.Split(s, "/") {
		p := strings.SplitN(t, ":", 2)
		if len(p) != 2 {
			return nil, false
		}
		h, err := strconv.ParseInt(p[0], 10, 64)
		set, ok := parseSet(p[1])
		if err != nil || h < 0 || !ok {
			return nil, false
		}
		r = append(r, edit{h, set})
	}
	return r, true
}

func parseTerms(s string) ([]int64, bool) {
	var r []int64
	for _, t := range strings.Split(s, ",") {
		v, ok := nat(t)
		if !ok {
			return nil, false
		}
		r = append(r, v)
	}
	return r, len(r) > 0
}

func nat(s string) (int64, bool) {
	v, err := strconv.ParseInt(s, 10, 64)
	return v, err == nil && v >= 0 && v < 1<<30
}

func setStr(s []int) string {
	var t []string
	for _, v := range s {
		t = append(t, strconv.Itoa(v))
	}
	return strings.Join(t, ",")
}

func histStr(h []edit) string {
	if len(h) == 0 {
		return "-"
	}
	var t []string
	for _, e := range h {
		t = append(t, fmt.Sprintf("%d:%s", e.h, setStr(e.set)))
	}
	return strings.Join(t, "/")
}

func termsStr(ts []int64) string {
	var t []string
	for _, v := range ts {
		t = append(t, strconv.FormatInt(v, 10))
	}
	return strings.Join(t, ",")
}

// ------------------------------------------------------------------ the rule the property names (oracle side)
// "the validator set in force for view v", computed from the recorded history alone.

func recordedAt(hist []edit, b int64) ([]int, bool) {
	var r []int
	ok := false
	for _, e := range hist {
		if e.h <= b {
			r, ok = e.set, true
		}
	}
	return r, ok
}

// xpoa: an edit contained in block E governs the views from E+4 on (the block of view v is produced and voted under
// the snapshot of block v-4); a block re-done after a rollback records the tip height its miner computed the set from.
func xpInForce(start, tip int64, init []int, hist []edit, view, bits int64) ([]int, bool) {
	if view-1 <= 3 {
		return init, true
	}
	target := view - 1
	if bits != 0 {
		target = bits
	}
	if target < start+3 {
		return init, true
	}
	if target-3 > tip {
		return nil, false
	}
	if s, ok := recordedAt(hist, target-3); ok {
		return s, true
	}
	return init, true
}

func tdFirstOfTerm(terms []int64, start, h int64) int64 {
	for i := int64(0); i <= h; i++ {
		if i >= start && i < int64(len(terms)) && h < int64(len(terms)) && terms[i] == terms[h] {
			return i
		}
	}
	return h
}

func tdTopK(start int64, init []int, hist []edit, tip, t int64) ([]int, bool) {
	if t < start+3 {
		return init, true
	}
	if t-3 > tip {
		return nil, false
	}
	if s, ok := recordedAt(hist, t-3); ok {
		return s, true
	}
	return init, true
}

// tdpos: the proposers of a term are fixed when the term opens: its first block F is produced (CompeteMaster) and
// admitted (CalOldProposers for a block above the tip) under the top-K of the snapshot of block tip-3 = F-4, and that
// set stays in force for every view of the term.
func tdTermSet(start int64, init []int, hist []edit, terms []int64, h int64) ([]int, bool) {
	tip := int64(len(terms) - 1)
	return tdTopK(start, init, hist, tip, tdFirstOfTerm(terms, start, h)-1)
}

func tdInForce(start int64, init []int, hist []edit, terms []int64, height, inputTerm, bits int64) ([]int, bool) {
	tip := int64(len(terms) - 1)
	if height < start+3 {
		return init, true
	}
	if height < tip {
		return tdTermSet(start, init, hist, terms, height)
	}
	if terms[tip] == inputTerm {
		return tdTermSet(start, init, hist, terms, tip)
	}
	t := tip
	if bits != 0 {
		t = bits
	}
	return tdTopK(start, init, hist, tip, t)
}

func quorum(n int) int { return n - (n-1)/3 - 1 }

// ------------------------------------------------------------------ plugin instances on a stub chain

const (
	xpPeriod   = 3000 // ms
	xpBlockNum = 10
	tdPeriod   = 1000 // ms; alternate_interval = term_interval = period
	tdBlockNum = 8
	tdInitMs   = 1600000000000
)

type inst struct {
	impl     base.ConsensusImplInterface
	l        *stubLedger
	chainKey string
}

var (
	instCache = map[string]*inst{}
	instOrder []string
)

func blockID(chainKey string, h int64) []byte {
	s := sha256.Sum256([]byte(fmt.Sprintf("%s#%d", chainKey, h)))
	return s[:]
}

func newCtx(l cctx.LedgerRely, self int) cctx.ConsensusCtx {
	a := acct(self)
	return cctx.ConsensusCtx{
		BaseCtx:  xcontext.BaseCtx{XLog: xvlib.Logger("bftmatch")},
		BcName:   "xuper",
		Address:  &cctx.Address{Address: a.Address, PrivateKeyStr: a.PriJSON, PublicKeyStr: a.PubJSON, PrivateKey: a.Pri, PublicKey: a.Pub},
		Crypto:   xvlib.Crypto(),
		Contract: stubMgr{},
		Ledger:   l,
		Network:  &stubNet{account: a.Address},
	}
}

func addrs(set []int) []string {
	var r []string
	for _, i := range set {
		r = append(r, acct(i).Address)
	}
	return r
}

// storage builds the consensus storage of a block: justify certificate (nil: none), term fields, rollback marker
func storage(justify *bft.QuorumCert, term, blockNum, bits int64) []byte {
	st := ccommon.ConsensusStorage{CurTerm: term, CurBlockNum: blockNum, TargetBits: int32(bits)}
	if justify != nil {
		old, err := ccommon.NewToOldQC(justify)
		if err != nil {
			panic(err)
		}
		st.Justify = old
	}
	b, _ := json.Marshal(st)
	return b
}

func plainQC(chainKey string, h int64) *bft.QuorumCert {
	if h < 1 {
		return nil
	}
	vi := &bft.VoteInfo{ProposalId: blockID(chainKey, h-1), ProposalView: h - 1}
	if h >= 2 {
		vi.ParentId, vi.ParentView = blockID(chainKey, h-2), h-2
	}
	return &bft.QuorumCert{VoteInfo: vi}
}

func cached(key string, build func() *inst) *inst {
	if i, ok := instCache[key]; ok {
		return i
	}
	i := build()
	instCache[key] = i
	instOrder = append(instOrder, key)
	if len(instOrder) > 48 {
		old := instOrder[0]
		instOrder = instOrder[1:]
		if o := instCache[old]; o != nil && o.impl != nil {
			o.impl.Stop()
		}
		delete(instCache, old)
	}
	return i
}

func xpState(hist []edit) stateFn {
	return func(h int64, bucket, key string) ([]byte, bool) {
		if bucket != "$xpoa" || key != "0_validates" {
			return nil, false
		}
		s, ok := recordedAt(hist, h)
		if !ok {
			return nil, false
		}
		v, _ := json.Marshal(map[string][]string{"address": addrs(s)})
		return v, true
	}
}

func xpInst(start int64, init []int, hist []edit, tip int64) *inst {
	key := fmt.Sprintf("xp %d %s %s %d", start, setStr(init), histStr(hist), tip)
	return cached(key, func() *inst {
		ck := fmt.Sprintf("xp %d %s %s", start, setStr(init), histStr(hist))
		l := newStubLedger(xpState(hist))
		for h := int64(0); h <= tip; h++ {
			b := &blk{proposer: acct(init[0]).Address, height: h, id: blockID(ck, h), ts: h * xpPeriod * 1000000}
			if h > 0 {
				b.pre = blockID(ck, h-1)
			}
			if h >= start {
				b.storage = storage(plainQC(ck, h), 0, 0, 0)
			} else {
				b.storage = []byte("{}")
			}
			l.put(b)
		}
		cfg := map[string]interface{}{"period": xpPeriod, "block_num": xpBlockNum,
			"init_proposer": map[string][]string{"address": addrs(init)}, "bft_config": map[string]bool{}}
		js, _ := json.Marshal(cfg)
		impl := xpoa.NewXpoaConsensus(newCtx(l, init[0]), def.ConsensusConfig{ConsensusName: "xpoa", Config: string(js), StartHeight: start, Index: 0})
		if impl == nil {
			panic("NewXpoaConsensus returned nil for " + key)
		}
		return &inst{impl: impl, l: l, chainKey: ck}
	})
}

func tdState(hist []edit) stateFn {
	return func(h int64, bucket, key string) ([]byte, bool) {
		if bucket != "$xpos" {
			return nil, false
		}
		s, ok := recordedAt(hist, h)
		if !ok {
			return nil, false
		}
		if key == "xpos_0_nominate" {
			m := map[string]map[string]int64{}
			for _, a := range s {
				m[acct(a).Address] = map[string]int64{acct(a).Address: 1}
			}
			v, _ := json.Marshal(m)
			return v, true
		}
		for i, a := range s {
			if key == "xpos_0_vote_"+acct(a).Address {
				// ballots decrease with the position, so that the top-K order is the order of the recorded set
				v, _ := json.Marshal(map[string]int64{"voter": int64(1000 - i)})
				return v, true
			}
		}
		return nil, false
	}
}

// tdTs: a timestamp (ns) in slot (term, pos, blockPos) of the schedule with K proposers
func tdTs(K int, term, pos, bp int64) int64 {
	termTime := int64(K) * tdBlockNum * tdPeriod
	posTime := int64(tdBlockNum) * tdPeriod
	ms := tdInitMs + (term-1)*termTime + pos*posTime + bp*tdPeriod + tdPeriod/2
	return ms * 1000000
}

// tdWellFormed: stored terms are 0 below start, >= 1 and non-decreasing from start on, and no term holds more blocks than it has slots
func tdWellFormed(start int64, K int, terms []int64) bool {
	cnt := map[int64]int{}
	for h, t := range terms {
		if int64(h) < start {
			if t != 0 {
				return false
			}
			continue
		}
		if t < 1 || (int64(h) > start && t < terms[h-1]) {
			return false
		}
		cnt[t]++
		if cnt[t] > K*tdBlockNum {
			return false
		}
	}
	return true
}

// tdTieState: the election record of a recorded set s = [s0 .. sK-1] with as many TIES as the address order allows and
// the extras as further nominees.  Equal ballots are broken by the address string, larger first: s[i] ties with s[i+1]
// when its address is the larger one (otherwise it holds one ballot more), an extra ties with the LAST elected member
// when its address is the smaller one (otherwise it holds one ballot less).  The elected list is s, in that order.
func tdTieState(hist []edit, extras []int) stateFn {
	return func(h int64, bucket, key string) ([]byte, bool) {
		if bucket != "$xpos" {
			return nil, false
		}
		s, ok := recordedAt(hist, h)
		if !ok {
			return nil, false
		}
		ballots := map[string]int64{}
		b := int64(100)
		for i := len(s) - 1; i >= 0; i-- {
			if i < len(s)-1 && acct(s[i]).Address < acct(s[i+1]).Address {
				b++
			}
			ballots[acct(s[i]).Address] = b
		}
		last := acct(s[len(s)-1]).Address
		for _, x := range extras {
			if acct(x).Address < last {
				ballots[acct(x).Address] = 100
			} else {
				ballots[acct(x).Address] = 99
			}
		}
		if key == "xpos_0_nominate" {
			m := map[string]map[string]int64{}
			for a := range ballots {
				m[a] = map[string]int64{a: 1}
			}
			v, _ := json.Marshal(m)
			return v, true
		}
		for a, n := range ballots {
			if key == "xpos_0_vote_"+a {
				// two voters: the sum counts
				v, _ := json.Marshal(map[string]int64{"voter": n - 40, "voter2": 40})
				return v, true
			}
		}
		return nil, false
	}
}

// retire stops a fresh instance later (its constructor starts the Smr in a goroutine of its own: stopping right away
// would race with that start, which is not what is under test here)
var retired []*inst

func retire(i *inst) {
	retired = append(retired, i)
	if len(retired) > 64 {
		retired[0].impl.Stop()
		retired = retired[1:]
	}
}

func tdTieInst(start int64, init []int, hist []edit, terms []int64, extras []int, useCache bool) *inst {
	st := tdTieState(hist, extras)
	if useCache {
		return tdInst(start, init, hist, terms, &tieCfg{extras, st})
	}
	return tdBuild(start, init, hist, terms, &tieCfg{extras, st})
}

type tieCfg struct {
	extras []int
	state  stateFn
}

func tdInst(start int64, init []int, hist []edit, terms []int64, tie *tieCfg) *inst {
	key := fmt.Sprintf("td %d %s %s %s", start, setStr(init), histStr(hist), termsStr(terms))
	if tie != nil {
		key += " tie " + setStr(tie.extras)
	}
	return cached(key, func() *inst { return tdBuild(start, init, hist, terms, tie) })
}

func tdBuild(start int64, init []int, hist []edit, terms []int64, tie *tieCfg) *inst {
	key := fmt.Sprintf("td %d %s %s %s", start, setStr(init), histStr(hist), termsStr(terms))
	{
		ck := fmt.Sprintf("td %d %s %s", start, setStr(init), histStr(hist))
		K := len(init)
		state := tdState(hist)
		if tie != nil {
			state = tie.state
		}
		l := newStubLedger(state)
		idx := map[int64]int64{}
		for h := int64(0); h < int64(len(terms)); h++ {
			b := &blk{proposer: acct(init[0]).Address, height: h, id: blockID(ck, h)}
			if h > 0 {
				b.pre = blockID(ck, h-1)
			}
			if h >= start {
				t := terms[h]
				slot := idx[t]
				idx[t]++
				b.ts = tdTs(K, t, slot/tdBlockNum, slot%tdBlockNum)
				b.storage = storage(plainQC(ck, h), t, slot%tdBlockNum, 0)
			} else {
				b.ts = (tdInitMs - 1000000 + h*1000) * 1000000
				b.storage = []byte("{}")
			}
			l.put(b)
		}
		ks := strconv.Itoa
		cfg := map[string]interface{}{
			"timestamp": strconv.FormatInt(tdInitMs*1000000, 10), "proposer_num": ks(K), "period": ks(tdPeriod),
			"alternate_interval": ks(tdPeriod), "term_interval": ks(tdPeriod), "block_num": ks(tdBlockNum),
			"vote_unit_price": "1", "init_proposer": map[string][]string{"1": addrs(init)}, "bft_config": map[string]bool{},
		}
		js, _ := json.Marshal(cfg)
		impl := tdpos.NewTdposConsensus(newCtx(l, init[0]), def.ConsensusConfig{ConsensusName: "tdpos", Config: string(js), StartHeight: start, Index: 0})
		if impl == nil {
			panic("NewTdposConsensus returned nil for " + key)
		}
		return &inst{impl: impl, l: l, chainKey: ck}
	}
}

// ------------------------------------------------------------------ one candidate block

type cand struct {
	kind             string
	start            int64
	init             []int
	hist             []edit
	tip              int64
	terms            []int64
	h, ownBits, preB int64
	term, pos        int64
	noqc             bool
	view, cert       int64 // declared view; height of the certified ledger block (the TRUE view of the certificate)
	es               []entry
	// xpf / tdf: storage fault injected for the duration of the check (g<k>: the k-th snapshot Get fails, s<k>: the k-th CreateSnapshot)
	faultKind byte
	faultAt   int
	// tdt: the election record holds TIES (as many as the address order allows) and `extras` as further nominees;
	// the check is evaluated `reps` times
	tie    bool
	reps   int
	extras []int
	fired  bool // the injected fault was reached by the check
}

func parse(line string) (*cand, bool) {
	w := strings.Fields(line)
	c := &cand{}
	if len(w) == 0 {
		return nil, false
	}
	switch w[0] {
	case "xpf", "tdf":
		// <fault> then the xp / td line
		if len(w) < 3 || len(w[1]) < 2 || (w[1][0] != 'g' && w[1][0] != 's') {
			return nil, false
		}
		k, err := strconv.Atoi(w[1][1:])
		if err != nil || k < 1 || k > 1000 {
			return nil, false
		}
		c, ok := parse(strings.TrimSuffix(w[0], "f") + " " + strings.Join(w[2:], " "))
		if !ok || c.faultKind != 0 || c.tie {
			return nil, false
		}
		c.faultKind, c.faultAt = w[1][0], k
		return c, true
	case "tdt":
		// <reps> <extras> then the td line
		if len(w) < 4 {
			return nil, false
		}
		reps, err := strconv.Atoi(w[1])
		extras, ok := parseSet(w[2])
		if err != nil || reps < 1 || reps > 10000 || !ok {
			return nil, false
		}
		c, ok := parse("td " + strings.Join(w[3:], " "))
		if !ok {
			return nil, false
		}
		for _, e := range c.hist {
			for _, x := range extras {
				if contains(e.set, x) {
					return nil, false
				}
			}
		}
		c.tie, c.reps, c.extras = true, reps, extras
		return c, true
	}
	c.kind = w[0]
	var rest []string
	ok := true
	get := func(s string) int64 {
		v, k := nat(s)
		ok = ok && k
		return v
	}
	switch c.kind {
	case "xp":
		if len(w) < 10 {
			return nil, false
		}
		c.start = get(w[1])
		c.tip = get(w[4])
		c.h, c.ownBits, c.preB, c.pos = get(w[5]), get(w[6]), get(w[7]), get(w[8])
		rest = w[9:]
	case "td":
		if len(w) < 11 {
			return nil, false
		}
		c.start = get(w[1])
		var k bool
		c.terms, k = parseTerms(w[4])
		ok = ok && k
		c.tip = int64(len(c.terms) - 1)
		c.h, c.ownBits, c.preB, c.term, c.pos = get(w[5]), get(w[6]), get(w[7]), get(w[8]), get(w[9])
		rest = w[10:]
	default:
		return nil, false
	}
	var k bool
	c.init, k = parseSet(w[2])
	ok = ok && k
	c.hist, k = parseHist(w[3])
	ok = ok && k
	if rest[0] == "noqc" {
		c.noqc = true
		if len(rest) != 1 {
			return nil, false
		}
	} else {
		vt := strings.SplitN(rest[0], "@", 2)
		c.view = get(vt[0])
		c.cert = c.h - 1
		if len(vt) == 2 {
			c.cert = get(vt[1])
		}
		if c.cert > c.h-1 || c.cert+3 < c.h {
			return nil, false
		}
		for _, t := range rest[1:] {
			e, k := parseEntry(t)
			ok = ok && k
			c.es = append(c.es, e)
		}
	}
	if !ok || c.start < 1 || c.h < 1 || c.h > c.tip+1 || c.h+2 < c.tip || c.tip+1 < c.start || c.ownBits >= 1<<20 || c.preB >= 1<<20 {
		return nil, false
	}
	if c.h-1 < c.start {
		c.preB = 0 // blocks below StartHeight belong to another consensus: no rollback marker
	}
	if c.kind == "td" {
		K := len(c.init)
		for _, e := range c.hist {
			if len(e.set) != K {
				return nil, false
			}
		}
		if !tdWellFormed(c.start, K, c.terms) || c.pos >= int64(K) || c.term < 1 {
			return nil, false
		}
	}
	return c, true
}

// ownSet: the set the block's own proposer is taken from; viewSet: the set in force for the view of the certified block h-1
func (c *cand) ownSet() ([]int, bool) {
	if c.kind == "xp" {
		return xpInForce(c.start, c.tip, c.init, c.hist, c.h, c.ownBits)
	}
	return tdInForce(c.start, c.init, c.hist, c.terms, c.h, c.term, c.ownBits)
}

func (c *cand) viewSet() ([]int, bool) { return c.setOfView(c.cert) }

// setOfView: the set in force for the view of ledger block v (v <= h-1)
func (c *cand) setOfView(v int64) ([]int, bool) {
	bits := int64(0)
	if v == c.h-1 {
		bits = c.preB
	}
	if c.kind == "xp" {
		return xpInForce(c.start, c.tip, c.init, c.hist, v, bits)
	}
	return tdInForce(c.start, c.init, c.hist, c.terms, v, c.terms[v], bits)
}

func contains(s []int, a int) bool {
	for _, v := range s {
		if v == a {
			return true
		}
	}
	return false
}

var logCtx *xcontext.BaseCtx

func exec(line string, out *xvlib.Out) (res string) {
	c, ok := parse(line)
	if !ok {
		return "bad-op"
	}
	defer func() {
		if r := recover(); r != nil {
			res = "panic"
			if out != nil {
				out.Violate(xvlib.Violation{Key: "panic", What: fmt.Sprintf("CheckMinerMatch panicked: %v", r), Ops: []string{line}, Impl: []string{"panic"}})
			}
		}
	}()
	var in *inst
	switch {
	case c.kind == "xp":
		in = xpInst(c.start, c.init, c.hist, c.tip)
	case c.tie:
		in = tdTieInst(c.start, c.init, c.hist, c.terms, c.extras, true)
	default:
		in = tdInst(c.start, c.init, c.hist, c.terms, nil)
	}
	own, ownOK := c.ownSet()
	// proposer and timestamp for the slot
	colAcct := outsider
	if ownOK && c.pos < int64(len(own)) {
		colAcct = own[c.pos]
	} else if !ownOK && c.pos < int64(len(c.init)) {
		// no set can be computed for the block (its rollback marker points beyond the ledger): the proposer is the member the
		// slot selects in the INITIAL set, the block a lookup that falls back to some default set would let through
		colAcct = c.init[c.pos]
	}
	var ts int64
	if c.kind == "xp" {
		n := int64(len(own))
		if !ownOK {
			n = int64(len(c.init))
		}
		if n == 0 {
			n = 1
		}
		ts = (1000*xpPeriod*n*xpBlockNum + c.pos*xpPeriod*xpBlockNum + xpPeriod) * 1000000
	} else {
		ts = tdTs(len(c.init), c.term, c.pos, tdBlockNum-1)
	}
	once := func(in *inst) string {
		pre := in.l.chain[c.h-1]
		candID := blockID(in.chainKey+"/cand", c.h)
		var justify *bft.QuorumCert
		if !c.noqc {
			certID := in.l.chain[c.cert].id
			vi := &bft.VoteInfo{ProposalId: certID, ProposalView: c.view}
			if c.cert >= 1 {
				vi.ParentId, vi.ParentView = in.l.chain[c.cert-1].id, c.view-1
			}
			justify = &bft.QuorumCert{VoteInfo: vi}
			for _, e := range c.es {
				justify.SignInfos = append(justify.SignInfos, mkSign(e, certID, candID))
			}
		}
		b := &blk{proposer: acct(colAcct).Address, height: c.h, id: candID, pre: pre.id, ts: ts}
		if c.kind == "xp" {
			b.storage = storage(justify, 0, 0, c.ownBits)
		} else {
			b.storage = storage(justify, c.term, tdBlockNum-1, c.ownBits)
		}
		// the predecessor's rollback marker
		saved := pre.storage
		if c.preB != 0 && c.h-1 >= c.start {
			st, _ := ccommon.ParseOldQCStorage(pre.storage)
			st.TargetBits = int32(c.preB)
			pre.storage, _ = json.Marshal(st)
		}
		in.l.snapsAt = in.l.snapsAt[:0]
		in.l.gets, in.l.snaps, in.l.fired = 0, 0, false
		in.l.failGet, in.l.failSnap = 0, 0
		switch c.faultKind {
		case 'g':
			in.l.failGet = c.faultAt
		case 's':
			in.l.failSnap = c.faultAt
		}
		okm, err := in.impl.CheckMinerMatch(logCtx, b)
		in.l.failGet, in.l.failSnap = 0, 0
		pre.storage = saved
		if okm && err == nil {
			return "accept"
		}
		return "reject"
	}
	res = once(in)
	c.fired = in.l.fired
	if c.faultKind != 0 && !in.l.fired {
		// the check made fewer reads than the fault's ordinal: nothing was injected, the line says nothing new
		if out != nil {
			oracle(c, line, res, own, ownOK, colAcct, out)
		}
		return "-"
	}
	if out != nil {
		oracle(c, line, res, own, ownOK, colAcct, out)
	}
	if c.tie {
		// the set in force for a view is ONE set: the verdict on the same block over the same chain is the same at every
		// evaluation, on this instance and on fresh ones (another node, a restarted node)
		for i := 1; i < c.reps; i++ {
			use := in
			if i%8 == 0 {
				use = tdTieInst(c.start, c.init, c.hist, c.terms, c.extras, false)
			}
			r := once(use)
			if use != in {
				retire(use)
			}
			if out != nil {
				oracle(c, line, r, own, ownOK, colAcct, out)
			}
			if r != res {
				if out != nil {
					out.Violate(xvlib.Violation{Key: "verdict-varies-between-evaluations",
						What: fmt.Sprintf("%s CheckMinerMatch answered %s at evaluation 1 and %s at evaluation %d for the same block on the same chain: the validator set in force for view %d is not one set (tied ballots in the election record)", c.kind, res, r, i+1, c.cert),
						Ops:  []string{line}, Impl: []string{res, r}})
				}
				return "unstable"
			}
		}
	}
	return res
}

// oracle: the property evaluated on what the real code answered (no model involved).
func oracle(c *cand, line, res string, own []int, ownOK bool, col int, out *xvlib.Out) {
	viol := func(key, what string) {
		out.Violate(xvlib.Violation{Key: key, What: what, Ops: []string{line}, Impl: []string{res}})
	}
	accepted := res == "accept"
	if !ownOK || c.pos >= int64(len(own)) {
		if accepted {
			viol("no-proposer-accepted", "CheckMinerMatch accepted a block for which no proposer can be computed")
		}
		return
	}
	if c.h <= c.start {
		// the first block of the instance carries no certificate
		if !accepted && !c.fired {
			viol("start-block-rejected", fmt.Sprintf("%s CheckMinerMatch rejected the block of height %d <= StartHeight %d of the entitled proposer (no certificate is due there)", c.kind, c.h, c.start))
		}
		return
	}
	if c.noqc {
		if accepted {
			viol("missing-qc-accepted", fmt.Sprintf("%s CheckMinerMatch accepted a block of height %d > StartHeight %d that carries no justify certificate", c.kind, c.h, c.start))
		}
		return
	}
	S, ok := c.viewSet()
	if !ok {
		if accepted {
			key := "accepted-without-validator-set"
			if name := c.quorumOfOtherSet(own, nil, col); name != "" {
				key += ":" + name
			}
			viol(key, fmt.Sprintf("%s CheckMinerMatch accepted block %d although the validator set in force for the certified view %d cannot be computed (the rollback marker %d of block %d points beyond the ledger tip %d): the certificate was checked against some other set",
				c.kind, c.h, c.cert, c.preB, c.h-1, c.tip))
		}
		return
	}
	n := len(S)
	others := map[int]bool{}
	multi := map[int]int{}
	colValid, allValid, memberInvalid := false, true, false
	bad, nonMember := 0, 0
	for _, e := range c.es {
		if !e.valid() {
			allValid = false
			bad++
			if contains(S, e.addr) {
				memberInvalid = true
			}
			continue
		}
		if !contains(S, e.addr) {
			nonMember++
			continue
		}
		multi[e.addr]++
		if e.addr == col {
			colValid = true
		} else {
			others[e.addr] = true
		}
	}
	q := quorum(n)
	if accepted && len(others) < q {
		key := "quorum-not-reached"
		dup := false
		for _, k := range multi {
			if k > 1 {
				dup = true
			}
		}
		// does the certificate hold a quorum of ANOTHER set of this chain (the block's own view, the tip state, the initial set ...)?
		otherSet := c.quorumOfOtherSet(own, S, col)
		switch {
		case colValid && len(others)+1 >= q:
			key = "collector-counted"
		case otherSet != "":
			key = "wrong-set:" + otherSet
		case dup && bad == 0 && nonMember == 0:
			key = "repeated-member-counted"
		case nonMember > 0 && bad == 0:
			key = "non-member-counted"
		case bad > 0:
			key = "invalid-signature-counted"
		}
		viol(key, fmt.Sprintf("%s CheckMinerMatch accepted block %d whose certificate (for block %d, declared view %d) carries %d distinct valid members besides the collector of the set in force for view %d (%s); %d required (n=%d)",
			c.kind, c.h, c.cert, c.view, len(others), c.cert, setStr(S), q, n))
	}
	// (a check that could not read the validator record has no set to accept under: its refusal is not judged)
	if !accepted && !c.fired && allValid && !memberInvalid && len(others) >= q && c.view == c.h-1 && c.cert == c.h-1 {
		viol("genuine-quorum-rejected", fmt.Sprintf("%s CheckMinerMatch rejected block %d of the entitled proposer although its certificate carries %d >= %d distinct valid members besides the collector of the set in force for view %d (%s)",
			c.kind, c.h, len(others), q, c.cert, setStr(S)))
	}
}

// quorumOfOtherSet names the first set of this chain, other than S, of which the certificate holds a quorum besides the collector
func (c *cand) quorumOfOtherSet(own, S []int, col int) string {
	for _, alt := range c.altSets(own) {
		if alt.set == nil || (S != nil && sameSet(alt.set, S)) {
			continue
		}
		cnt := map[int]bool{}
		for _, e := range c.es {
			if e.valid() && contains(alt.set, e.addr) && e.addr != col {
				cnt[e.addr] = true
			}
		}
		if len(cnt) >= quorum(len(alt.set)) && (len(cnt) > 0 || len(alt.set) == 1) {
			return alt.name
		}
	}
	return ""
}

type namedSet struct {
	name string
	set  []int
}

func (c *cand) altSets(own []int) []namedSet {
	var r []namedSet
	if c.kind == "xp" && c.view != c.cert {
		if s, ok := xpInForce(c.start, c.tip, c.init, c.hist, c.view, c.preB); ok {
			r = append(r, namedSet{"declared-view", s})
		}
	}
	if c.cert != c.h-1 {
		if s, ok := c.setOfView(c.h - 1); ok {
			r = append(r, namedSet{"predecessor-view", s})
		}
	}
	r = append(r, namedSet{"block-view", own}, namedSet{"initial", c.init})
	if s, ok := recordedAt(c.hist, c.tip); ok {
		r = append(r, namedSet{"tip-state", s})
	}
	if c.kind == "xp" {
		if s, ok := xpInForce(c.start, c.tip, c.init, c.hist, c.h-1, 0); ok {
			r = append(r, namedSet{"ignoring-rollback-marker", s})
		}
	}
	for _, e := range c.hist {
		r = append(r, namedSet{"recorded", e.set})
	}
	return r
}

func sameSet(a, b []int) bool {
	if len(a) != len(b) {
		return false
	}
	for _, v := range a {
		if !contains(b, v) {
			return false
		}
	}
	return true
}

// ------------------------------------------------------------------ generator

type gen struct {
	rng *xvlib.Rng
	run func(class, line string)
	// tdposAround: the line's leading words (`td`, or `tdt <reps> <extras>`), the other set in play when given, and
	// how often a candidate is also presented with storage faults (1 in faultEvery; 0: never)
	tdLead     string
	tdOther    []int
	faultEvery int
}

// faulted presents the candidate described by prefix (an xp / td prefix up to <pos>) with a storage fault at each of the
// first reads of the check - the k-th Get of a snapshot reader, the k-th CreateSnapshot - and a quorum of every set a
// lookup that carries on after the failed read could land on (initial, tip state, block's own, recorded) and of the set
// in force itself: a check that cannot read the validator record has no set to check against.
func (g *gen) faulted(prefix string, view int64, S []int, col int, alts []namedSet, maxReads int) {
	w := strings.SplitN(prefix, " ", 2)
	lead := w[0] + "f"
	faults := []string{"g1", "g2", "s1", "s2"}
	for k := 3; k <= maxReads; k++ {
		if maxReads <= 3 || g.rng.Chance(1, 2) {
			faults = append(faults, fmt.Sprintf("g%d", k))
		}
	}
	sets := append([]namedSet{{"in-force", S}}, alts...)
	var done [][]int
	for _, alt := range sets {
		if alt.set == nil {
			continue
		}
		dup := false
		for _, d := range done {
			dup = dup || sameSet(d, alt.set)
		}
		if dup {
			continue
		}
		done = append(done, alt.set)
		es := toks(take(g.shuffled(but(alt.set, col)), quorum(len(alt.set))), "v")
		if len(es) == 0 {
			es = toks(alt.set, "v")
		}
		for _, f := range faults {
			g.run("h:fault/"+f[:1]+"/"+alt.name, strings.TrimSpace(fmt.Sprintf("%s %s %s %d %s", lead, f, w[1], view, strings.Join(es, " "))))
		}
	}
}

func (g *gen) shuffled(s []int) []int {
	p := append([]int{}, s...)
	for j := len(p) - 1; j > 0; j-- {
		k := g.rng.Intn(j + 1)
		p[j], p[k] = p[k], p[j]
	}
	return p
}

func but(s []int, a int) []int {
	var r []int
	for _, v := range s {
		if v != a {
			r = append(r, v)
		}
	}
	return r
}

func minus(s, t []int) []int {
	var r []int
	for _, v := range s {
		if !contains(t, v) {
			r = append(r, v)
		}
	}
	return r
}

func toks(s []int, kind string) []string {
	var r []string
	for _, v := range s {
		r = append(r, strconv.Itoa(v)+kind)
	}
	return r
}

func take(s []int, k int) []int {
	if k < 0 {
		k = 0
	}
	if k > len(s) {
		k = len(s)
	}
	return s[:k]
}

// certificates presents the candidate described by prefix (everything up to and including <pos>) with every class of
// certificate.  S = set in force for the certified view, O = the other set in play, col = the collector (block proposer).
func (g *gen) certificates(prefix string, view int64, S, O []int, col int) {
	emit := func(class string, es []string) {
		es = append([]string{}, es...)
		for j := len(es) - 1; j > 0; j-- {
			k := g.rng.Intn(j + 1)
			es[j], es[k] = es[k], es[j]
		}
		g.run(class, strings.TrimSpace(fmt.Sprintf("%s %d %s", prefix, view, strings.Join(es, " "))))
	}
	q := quorum(len(S))
	sb := g.shuffled(but(S, col))
	ob := g.shuffled(but(minus(O, S), col)) // members of the other set only
	oq := quorum(len(O))
	// (a) genuine quorum of the set in force for the certified view
	emit("a:exact-quorum", toks(take(sb, q), "v"))
	emit("a:all-members", toks(S, "v"))
	emit("a:quorum+other-set", append(toks(take(sb, q), "v"), toks(take(ob, 2), "v")...))
	// (b) quorum of the other set only
	emit("b:other-set-quorum", toks(take(g.shuffled(but(O, col)), oq), "v"))
	emit("b:other-set-all", toks(O, "v"))
	emit("b:other-only-members", toks(ob, "v"))
	// (c) mixed / below quorum / junk
	if q >= 1 {
		emit("c:below-quorum", toks(take(sb, q-1), "v"))
		emit("c:below+other-set", append(toks(take(sb, q-1), "v"), toks(take(ob, 3), "v")...))
		emit("c:below+collector", append(toks(take(sb, q-1), "v"), strconv.Itoa(col)+"v"))
		emit("c:below+outsider", append(toks(take(sb, q-1), "v"), "91v", "92v"))
		if q >= 2 {
			emit("c:below+repeat", append(toks(take(sb, q-1), "v"), strconv.Itoa(sb[0])+"v", strconv.Itoa(sb[0])+"r"))
		}
		if len(sb) >= q {
			kinds := []string{"w", "c", "m"}
			k := kinds[g.rng.Intn(3)]
			emit("c:below+invalid-"+k, append(toks(take(sb, q-1), "v"), strconv.Itoa(sb[q-1])+k))
			emit("c:quorum+invalid-nonmember", append(toks(take(sb, q), "v"), "91"+k))
		}
	}
	emit("d:empty", nil)
	g.run("d:noqc", prefix+" noqc")
}

// mislabelled presents certificates that lie about their view or certify an ancestor instead of the predecessor.
// setOf(v, declared) = the set the chain has in force for view v (declared: looked up the way the code does for a declared view).
func (g *gen) mislabelled(prefix string, h, tip int64, col int, setOf func(v int64) ([]int, bool)) {
	emit := func(class, view string, set []int) {
		es := toks(take(g.shuffled(but(set, col)), quorum(len(set))), "v")
		g.run(class, strings.TrimSpace(fmt.Sprintf("%s %s %s", prefix, view, strings.Join(es, " "))))
	}
	S, ok := setOf(h - 1)
	if !ok {
		return
	}
	for _, v := range []int64{1, h, h + 1, h + 2, h - 2} {
		if v < 0 || v == h-1 {
			continue
		}
		if sv, ok := setOf(v); ok {
			emit("e:view-lie", strconv.FormatInt(v, 10), sv) // a quorum of the set of the declared view
			if g.rng.Chance(1, 3) {
				emit("e:view-lie-true-set", strconv.FormatInt(v, 10), S) // a genuine quorum under a wrong view number
			}
		}
	}
	for _, cert := range []int64{h - 2, h - 3} {
		if cert < 0 {
			continue
		}
		sc, ok := setOf(cert)
		if !ok {
			continue
		}
		emit("e:ancestor-as-predecessor", fmt.Sprintf("%d@%d", h-1, cert), S) // an ancestor's id under the predecessor's view
		emit("e:ancestor-pre-set", fmt.Sprintf("%d@%d", cert, cert), S)       // an ancestor certified by the predecessor's set
		emit("e:ancestor-own-set", fmt.Sprintf("%d@%d", cert, cert), sc)      // a genuine certificate of an ancestor
	}
}

// variants of the new validator set relative to the initial one 0..n-1
func variants(n int) map[string][]int {
	seq := func(a, k int) []int {
		var r []int
		for i := 0; i < k; i++ {
			r = append(r, a+i)
		}
		return r
	}
	v := map[string][]int{
		"disjoint": seq(10, n),
		"shift":    seq((n+1)/2, n),
		"grow":     seq(0, n+1),
		"swap-one": append(seq(1, n-1), 10),
		"bigger":   seq(n-1, n+3),
	}
	if n > 1 {
		v["shrink"] = seq(0, n-1)
		v["rotate"] = append(seq(1, n-1), 0)
	}
	return v
}

// noSetCertificates presents the candidate described by prefix, whose certified block carries a rollback marker the
// ledger cannot resolve (no validator set is in force: nothing may be accepted), with a quorum / all members of every
// set a lookup could fall back to: the initial set, the set the node holds in memory (tip state), the set the view has
// without the marker, the block's own set, every recorded set.
func (g *gen) noSetCertificates(prefix string, view int64, col int, alts []namedSet) {
	var done [][]int
	for _, alt := range alts {
		if alt.set == nil {
			continue
		}
		dup := false
		for _, d := range done {
			dup = dup || sameSet(d, alt.set)
		}
		if dup {
			continue
		}
		done = append(done, alt.set)
		sb := g.shuffled(but(alt.set, col))
		g.run("f:no-set/"+alt.name+"-quorum", strings.TrimSpace(fmt.Sprintf("%s %d %s", prefix, view, strings.Join(toks(take(sb, quorum(len(alt.set))), "v"), " "))))
		g.run("f:no-set/"+alt.name+"-all", strings.TrimSpace(fmt.Sprintf("%s %d %s", prefix, view, strings.Join(toks(alt.set, "v"), " "))))
	}
	g.run("f:no-set/empty", fmt.Sprintf("%s %d", prefix, view))
}

// xpoaCandidate presents the candidate of height h on the ledger 0..tip with the rollback markers ownBits / preBits.
// light: only the quorum classes (used by the systematic marker pass).
func (g *gen) xpoaCandidate(start int64, init []int, hist []edit, tip, h, ownBits, preBits int64, light bool) {
	own, ok := xpInForce(start, tip, init, hist, h, ownBits)
	S, ok2 := xpInForce(start, tip, init, hist, h-1, preBits)
	if h-1 < start {
		S, ok2 = xpInForce(start, tip, init, hist, h-1, 0) // blocks below StartHeight carry no marker
	}
	if !ok {
		// the block's own marker points beyond the ledger: no proposer can be computed, whatever the certificate
		if ok2 {
			pos := int64(g.rng.Intn(len(init)))
			prefix := fmt.Sprintf("xp %d %s %s %d %d %d %d %d", start, setStr(init), histStr(hist), tip, h, ownBits, preBits, pos)
			g.run("g:own-marker-out-of-range", strings.TrimSpace(fmt.Sprintf("%s %d %s", prefix, h-1, strings.Join(toks(S, "v"), " "))))
		}
		return
	}
	pos := int64(g.rng.Intn(len(own)))
	prefix := fmt.Sprintf("xp %d %s %s %d %d %d %d %d", start, setStr(init), histStr(hist), tip, h, ownBits, preBits, pos)
	if !ok2 {
		if h > start {
			c := &cand{kind: "xp", start: start, init: init, hist: hist, tip: tip, h: h, ownBits: ownBits, preB: preBits, view: h - 1, cert: h - 1}
			g.noSetCertificates(prefix, h-1, own[pos], c.altSets(own))
		}
		return
	}
	O := own
	if sameSet(O, S) {
		if s, k := recordedAt(hist, tip); k && !sameSet(s, S) {
			O = s
		} else if !sameSet(init, S) {
			O = init
		} else if len(hist) > 0 {
			O = hist[len(hist)-1].set
		}
	}
	if light {
		col := own[pos]
		sb := g.shuffled(but(S, col))
		g.run("m:marker/exact-quorum", strings.TrimSpace(fmt.Sprintf("%s %d %s", prefix, h-1, strings.Join(toks(take(sb, quorum(len(S))), "v"), " "))))
		for _, alt := range []namedSet{{"other", O}, {"initial", init}} {
			if sameSet(alt.set, S) {
				continue
			}
			ob := g.shuffled(but(alt.set, col))
			g.run("m:marker/"+alt.name+"-set-quorum", strings.TrimSpace(fmt.Sprintf("%s %d %s", prefix, h-1, strings.Join(toks(take(ob, quorum(len(alt.set))), "v"), " "))))
		}
		return
	}
	g.certificates(prefix, h-1, S, O, own[pos])
	if h > start && g.faultEvery > 0 && g.rng.Intn(g.faultEvery) == 0 {
		c := &cand{kind: "xp", start: start, init: init, hist: hist, tip: tip, h: h, ownBits: ownBits, preB: preBits, view: h - 1, cert: h - 1}
		g.faulted(prefix, h-1, S, own[pos], c.altSets(own), 3)
	}
	if h > start {
		g.mislabelled(prefix, h, tip, own[pos], func(v int64) ([]int, bool) {
			b := int64(0)
			if v == h-1 || v > h-1 {
				b = preBits
			}
			return xpInForce(start, tip, init, hist, v, b)
		})
	}
}

// markerChoices: rollback markers for the storage of block b on a ledger with the given tip: the heights a miner that
// rolled back may have recorded (around b), the last marker whose snapshot block the ledger still holds (tip+3), the first
// one it does not (tip+4), one far beyond the ledger, and markers at or below StartHeight+2 (the initial set by the start rule)
func markerChoices(start, tip, b int64) []int64 {
	r := []int64{b, b + 1, b + 2, tip + 3, tip + 4, 1000 + b, 1, start + 2, start + 3}
	if b >= 2 {
		r = append(r, b-1)
	}
	return r
}

func (g *gen) xpoaAround(start int64, init []int, hist []edit, tips []int64, bitsToo bool) {
	for _, tip := range tips {
		if tip+1 < start {
			continue
		}
		hs := []int64{tip + 1}
		if g.rng.Chance(1, 3) && tip >= 2 {
			hs = append(hs, tip-int64(g.rng.Intn(2))) // a competing block for a height the ledger already has
		}
		for _, h := range hs {
			if h < 1 {
				continue
			}
			var ownBits, preBits int64
			if bitsToo {
				if g.rng.Chance(1, 2) {
					m := markerChoices(start, tip, h-1)
					preBits = m[g.rng.Intn(len(m))]
				}
				if g.rng.Chance(1, 3) {
					m := markerChoices(start, tip, h)
					ownBits = m[g.rng.Intn(len(m))]
				}
			}
			g.xpoaCandidate(start, init, hist, tip, h, ownBits, preBits, false)
		}
	}
}

// xpoaMarkers: for every tip, the candidate at tip+1 whose PREDECESSOR carries each of the marker choices (the certified
// view's set is the one the marker selects, or none), and the candidate whose OWN marker cannot be resolved.
func (g *gen) xpoaMarkers(start int64, init []int, hist []edit, tips []int64) {
	for _, tip := range tips {
		if tip+1 <= start {
			continue
		}
		h := tip + 1
		for _, m := range markerChoices(start, tip, h-1) {
			g.xpoaCandidate(start, init, hist, tip, h, 0, m, true)
		}
		g.xpoaCandidate(start, init, hist, tip, h, tip+4+int64(g.rng.Intn(3)), 0, true)
	}
}

// tdTerms: a ledger of tip+1 blocks whose term changes at the given heights (term 1 from start on)
func tdTerms(start, tip int64, changes []int64) []int64 {
	var r []int64
	t := int64(0)
	for h := int64(0); h <= tip; h++ {
		if h == start {
			t = 1
		}
		for _, c := range changes {
			if c == h && h > start {
				t++
			}
		}
		r = append(r, t)
	}
	return r
}

func (g *gen) tdposAround(start int64, init []int, hist []edit, changes []int64, tips []int64) {
	K := len(init)
	for _, tip := range tips {
		if tip+1 < start {
			continue
		}
		terms := tdTerms(start, tip, changes)
		if !tdWellFormed(start, K, terms) {
			continue
		}
		hs := []int64{tip + 1}
		if g.rng.Chance(1, 3) && tip >= 2 {
			hs = append(hs, tip-int64(g.rng.Intn(2)))
		}
		for _, h := range hs {
			if h < 1 {
				continue
			}
			// the candidate continues the tip's term or opens the next one
			var term int64
			switch {
			case h <= tip:
				term = terms[h]
			case contains64(changes, h) || terms[tip] == 0:
				term = terms[tip] + 1
			default:
				term = terms[tip]
			}
			if term < 1 {
				term = 1
			}
			own, ok := tdInForce(start, init, hist, terms, h, term, 0)
			S, ok2 := tdInForce(start, init, hist, terms, h-1, terms[h-1], 0)
			if !ok || !ok2 {
				continue
			}
			pos := int64(g.rng.Intn(K))
			O := own
			if sameSet(O, S) {
				if s, k := recordedAt(hist, tip); k && !sameSet(s, S) {
					O = s
				} else if !sameSet(init, S) {
					O = init
				} else if len(hist) > 0 {
					O = hist[len(hist)-1].set
				}
			}
			lead := g.tdLead
			if lead == "" {
				lead = "td"
			}
			if g.tdOther != nil && !sameSet(g.tdOther, S) {
				O = g.tdOther
			}
			prefix := fmt.Sprintf("%s %d %s %s %s %d 0 0 %d %d", lead, start, setStr(init), histStr(hist), termsStr(terms), h, term, pos)
			g.certificates(prefix, h-1, S, O, own[pos])
			if h > start && lead == "td" && g.faultEvery > 0 && g.rng.Intn(g.faultEvery) == 0 {
				c := &cand{kind: "td", start: start, init: init, hist: hist, tip: tip, terms: terms, h: h, term: term, view: h - 1, cert: h - 1}
				g.faulted(prefix, h-1, S, own[pos], c.altSets(own), 2*K+2)
			}
			if h > start {
				g.mislabelled(prefix, h, tip, own[pos], func(v int64) ([]int, bool) {
					if v > h-1 {
						return nil, false
					}
					return tdInForce(start, init, hist, terms, v, terms[v], 0)
				})
			}
		}
	}
}

func contains64(s []int64, a int64) bool {
	for _, v := range s {
		if v == a {
			return true
		}
	}
	return false
}

func seq(a, k int) []int {
	var r []int
	for i := 0; i < k; i++ {
		r = append(r, a+i)
	}
	return r
}

func span(a, b int64) []int64 {
	var r []int64
	for i := a; i <= b; i++ {
		r = append(r, i)
	}
	return r
}

func main() {
	args := xvlib.ParseArgs()
	logCtx = &xcontext.BaseCtx{XLog: xvlib.Logger("bftmatch")}
	out := xvlib.NewOut(args.Out)
	defer out.Close()
	run := func(class, line string) {
		out.Begin(line)
		r := exec(line, out)
		out.Emit(line, r)
		out.Case(line, true)
		w := strings.Fields(line)
		out.Count(w[0] + "/" + class + ":" + r)
		if len(out.Stats.Samples) < 6 && (out.Stats.Evaluations%997 == 1) {
			out.Sample(map[string]string{"op": line, "impl": r})
		}
	}
	if args.Replay != "" {
		for _, l := range xvlib.ReadLines(args.Replay) {
			run("replay", l)
		}
		return
	}
	// corpus first
	for _, f := range corpusFiles() {
		for _, l := range xvlib.ReadLines(f) {
			if strings.HasPrefix(l, "xp ") || strings.HasPrefix(l, "td ") || strings.HasPrefix(l, "xpf ") || strings.HasPrefix(l, "tdf ") || strings.HasPrefix(l, "tdt ") {
				run("corpus", l)
			}
		}
	}
	g := &gen{rng: xvlib.NewRng(args.Seed), run: run, faultEvery: 6}
	thorough := args.Tier == "thorough"
	if thorough {
		g.faultEvery = 2
	}
	// 1. xpoa: one edit at height E, every tip from before the edit until well after it became effective
	sizes := []int{1, 2, 3, 4, 5, 7}
	editAt := []int64{3, 5}
	if thorough {
		sizes = []int{1, 2, 3, 4, 5, 6, 7, 8, 10}
		editAt = []int64{1, 2, 3, 4, 5, 6, 8}
	}
	for _, n := range sizes {
		vs := variants(n)
		names := make([]string, 0, len(vs))
		for k := range vs {
			names = append(names, k)
		}
		sort.Strings(names)
		for _, name := range names {
			for _, E := range editAt {
				g.xpoaAround(1, seq(0, n), []edit{{E, vs[name]}}, span(maxi(E-2, 0), E+6), false)
				g.xpoaMarkers(1, seq(0, n), []edit{{E, vs[name]}}, span(maxi(E-1, 1), E+6))
			}
		}
	}
	// 2. xpoa: two edits close together, later StartHeight, rollback markers
	rounds := 40
	if thorough {
		rounds = 600
	}
	for i := 0; i < rounds; i++ {
		n := 1 + g.rng.Intn(7)
		vs := variants(n)
		names := make([]string, 0, len(vs))
		for k := range vs {
			names = append(names, k)
		}
		sort.Strings(names)
		start := int64(1)
		if g.rng.Chance(1, 3) {
			start = int64(2 + g.rng.Intn(6))
		}
		E := start + int64(g.rng.Intn(6))
		hist := []edit{{E, vs[names[g.rng.Intn(len(names))]]}}
		if g.rng.Chance(1, 2) {
			hist = append(hist, edit{E + 1 + int64(g.rng.Intn(3)), vs[names[g.rng.Intn(len(names))]]})
		}
		lo := maxi(E-2, start-1)
		g.xpoaAround(start, seq(0, n), hist, span(lo, lo+4+int64(g.rng.Intn(6))), true)
	}
	// 3. xpoa: the StartHeight exemption (the block of height StartHeight carries no certificate, the next one must)
	for _, start := range []int64{1, 2, 5, 9} {
		for _, n := range []int{1, 3, 4} {
			g.xpoaAround(start, seq(0, n), []edit{{start + 1, seq(10, n)}}, span(start-1, start+1), false)
			g.tdposAround(start, seq(0, n), []edit{{start + 1, seq(10, n)}}, nil, span(start-1, start+1))
		}
	}
	// 4. tdpos: the proposer set changes with the term; edits around the snapshot height of the new term
	tdSizes := []int{1, 2, 3, 4, 5}
	if thorough {
		tdSizes = []int{1, 2, 3, 4, 5, 6, 7}
	}
	for _, n := range tdSizes {
		vs := variants(n)
		for _, name := range []string{"disjoint", "shift", "swap-one", "rotate"} {
			set, ok := vs[name]
			if !ok || len(set) != n {
				continue
			}
			for _, F := range []int64{6, 9} { // first block of term 2
				for _, dE := range []int64{5, 4, 3, 2} {
					E := F - dE
					if E < 1 {
						continue
					}
					g.tdposAround(1, seq(0, n), []edit{{E, set}}, []int64{F, F + 3}, span(F-2, F+5))
				}
			}
		}
	}
	tdRounds := 25
	if thorough {
		tdRounds = 400
	}
	for i := 0; i < tdRounds; i++ {
		n := 1 + g.rng.Intn(6)
		start := int64(1)
		if g.rng.Chance(1, 4) {
			start = int64(2 + g.rng.Intn(4))
		}
		F := start + 2 + int64(g.rng.Intn(6))
		F2 := F + 1 + int64(g.rng.Intn(4))
		mk := func() []int {
			return take(g.shuffled(seq(g.rng.Intn(3)*5, n+g.rng.Intn(3))), n)
		}
		hist := []edit{{maxi(F-int64(g.rng.Intn(6)), 1), mk()}}
		if g.rng.Chance(1, 2) {
			hist = append(hist, edit{hist[0].h + 1 + int64(g.rng.Intn(4)), mk()})
		}
		g.tdposAround(start, seq(0, n), hist, []int64{F, F2}, span(maxi(F-2, start-1), F2+3))
	}
	// 5. tdpos: election records with TIED ballots (at the cut between the last elected and the first refused nominee,
	// and among the elected), every check evaluated many times on the cached and on fresh instances
	tieSizes, reps := []int{1, 2, 3, 4}, 40
	if thorough {
		tieSizes, reps = []int{1, 2, 3, 4, 5, 6}, 200
	}
	g.faultEvery = 0
	for _, n := range tieSizes {
		for variant := 0; variant < 3; variant++ {
			pool := seq(10, n+2)
			if variant == 1 {
				pool = seq(0, n+2) // overlaps the initial set
			}
			sort.Slice(pool, func(i, j int) bool { return acct(pool[i]).Address > acct(pool[j]).Address })
			set, extras := append([]int{}, pool[:n]...), append([]int{}, pool[n:]...) // every nominee holds the same ballots
			if variant == 2 {
				// elected in another order (ties only where the address order allows), one refused nominee tied, one not
				set = g.shuffled(append(append([]int{}, pool[1:n]...), pool[n]))
				extras = []int{pool[0], pool[n+1]}
			}
			F := int64(6 + g.rng.Intn(3))
			E := F - 4 - int64(g.rng.Intn(2))
			g.tdLead = fmt.Sprintf("tdt %d %s", reps, setStr(extras))
			// the set the election yields when the tie at the cut falls the other way
			g.tdOther = append(append([]int{}, set[:maxi(int64(n)-int64(len(extras)), 0)]...), extras...)
			if len(g.tdOther) > n {
				g.tdOther = g.tdOther[len(g.tdOther)-n:]
			}
			g.tdposAround(1, seq(0, n), []edit{{E, set}}, []int64{F}, span(F-1, F+2))
		}
	}
	g.tdLead, g.tdOther = "", nil
	out.Stats.Exhaustive = false
	out.Stats.Rule = fmt.Sprintf("chains with validator-set edits (7 variants of the new set: disjoint, shifted, grown, shrunk, one swapped, rotated, bigger) for n in %v; for every tip height from 2 blocks before the edit to 6 after it (tdpos: around the first block of the next two terms, edits 2..5 blocks before it) the candidate at tip+1 (1/3: also a competing block at tip or tip-1) is presented to the real CheckMinerMatch with 15 classes of justify certificate built from the set in force for the certified view and the other set in play; for every such tip also the candidate whose predecessor carries each of 10 rollback markers (around its height, earlier, tip+3 = the last the ledger resolves, tip+4 and far beyond = no set in force, at / below StartHeight+2 = initial set) with a quorum of the marker's set, of the other set in play and of the initial set, or, when the marker cannot be resolved, with a quorum / all members of every set a lookup could fall back to (initial, tip state, without the marker, the block's own, recorded), and the candidate whose own marker cannot be resolved (proposer = the slot's member of the initial set); plus %d+%d randomised chains (two edits, later StartHeight, the same marker choices on both blocks) and the StartHeight exemption; storage faults (xpf / tdf, 1 candidate in 6): the k-th snapshot Get / CreateSnapshot of the check fails, with a quorum of the set in force and of every set a lookup that carries on could land on (initial, tip state, block's own, recorded): nothing may be accepted; tied ballots (tdt): election records in which all nominees / the last elected and a refused nominee hold equal ballots (n = %v, three variants), each check evaluated %d times on the cached and on fresh instances: same verdict every time, judged against the address-ordered tie-break; every op line is a case", sizes, rounds, tdRounds, tieSizes, reps)
}

func maxi(a, b int64) int64 {
	if a > b {
		return a
	}
	return b
}

// corpusFiles: the bftmatch replays of the property's corpus (files named bftmatch-*.ops)
func corpusFiles() []string {
	files, _ := filepath.Glob(filepath.Join("corpus", "C14", "bftmatch-*.ops"))
	sort.Strings(files)
	return files
}
