package main

// Stub ledger / block / network used to instantiate the real xpoa and tdpos plugins WITH
// chained-bft through their public constructors.  Differences from go/cmd/sched/stubs.go:
// the snapshot a reader is created at matters (CreateSnapshot(block) answers with the state
// recorded at or before that block), so that the validator set changes at a chosen height.

import (
	"errors"
	"fmt"

	xctx "github.com/xuperchain/xupercore/kernel/common/xcontext"
	"github.com/xuperchain/xupercore/kernel/contract"
	"github.com/xuperchain/xupercore/kernel/ledger"
	nctx "github.com/xuperchain/xupercore/kernel/network/context"
	"github.com/xuperchain/xupercore/kernel/network/p2p"
	pb "github.com/xuperchain/xupercore/protos"
)

var errNotFound = errors.New("block not found")

type blk struct {
	proposer string
	height   int64
	id       []byte
	storage  []byte
	ts       int64
	pre      []byte
}

func (b *blk) GetProposer() []byte                  { return []byte(b.proposer) }
func (b *blk) GetHeight() int64                     { return b.height }
func (b *blk) GetBlockid() []byte                   { return b.id }
func (b *blk) GetConsensusStorage() ([]byte, error) { return b.storage, nil }
func (b *blk) GetTimestamp() int64                  { return b.ts }
func (b *blk) SetItem(string, interface{}) error    { return errors.New("immutable") }
func (b *blk) GetPreHash() []byte                   { return b.pre }
func (b *blk) GetNextHash() []byte                  { return nil }
func (b *blk) GetPublicKey() string                 { return "" }
func (b *blk) GetSign() []byte                      { return nil }
func (b *blk) GetTxIDs() []string                   { return nil }
func (b *blk) GetInTrunk() bool                     { return true }
func (b *blk) MakeBlockId() ([]byte, error)         { return b.id, nil }

// stateFn: the contract state (bucket/key -> value) as of the block of height h
type stateFn func(h int64, bucket, key string) ([]byte, bool)

type stubLedger struct {
	chain []*blk // by height
	byID  map[string]*blk
	state stateFn
	// observation: the block heights snapshots were created at while a check ran
	snapsAt []int64
	// fault injection for the duration of one check: the failGet-th Get of a snapshot reader / the failSnap-th
	// CreateSnapshot answers with an error (0: none); gets / snaps count, fired tells whether the fault was reached
	failGet, failSnap int
	gets, snaps       int
	fired             bool
}

var errInjected = errors.New("injected: query tx fail")

func newStubLedger(st stateFn) *stubLedger {
	return &stubLedger{byID: map[string]*blk{}, state: st}
}

func (l *stubLedger) put(b *blk) {
	l.chain = append(l.chain, b)
	l.byID[string(b.id)] = b
}

func (l *stubLedger) GetConsensusConf() ([]byte, error) { return nil, nil }
func (l *stubLedger) QueryBlock(id []byte) (ledger.BlockHandle, error) {
	if b, ok := l.byID[string(id)]; ok {
		return b, nil
	}
	return nil, errNotFound
}
func (l *stubLedger) QueryBlockByHeight(h int64) (ledger.BlockHandle, error) {
	if h < 0 || h >= int64(len(l.chain)) {
		return nil, errNotFound
	}
	return l.chain[h], nil
}
func (l *stubLedger) GetTipBlock() ledger.BlockHandle { return l.chain[len(l.chain)-1] }
func (l *stubLedger) GetTipXMSnapshotReader() (ledger.XMSnapshotReader, error) {
	return tipReader{l}, nil
}
func (l *stubLedger) CreateSnapshot(id []byte) (ledger.XMReader, error) {
	b, ok := l.byID[string(id)]
	if !ok {
		return nil, errNotFound
	}
	l.snaps++
	if l.snaps == l.failSnap {
		l.fired = true
		return nil, errInjected
	}
	l.snapsAt = append(l.snapsAt, b.height)
	return snapReader{l, b.height}, nil
}
func (l *stubLedger) GetTipSnapshot() (ledger.XMReader, error) {
	return snapReader{l, int64(len(l.chain) - 1)}, nil
}

type tipReader struct{ l *stubLedger }

func (r tipReader) Get(bucket string, key []byte) ([]byte, error) {
	v, _ := r.l.state(int64(len(r.l.chain)-1), bucket, string(key))
	return v, nil
}

type snapReader struct {
	l *stubLedger
	h int64
}

func (r snapReader) Get(bucket string, key []byte) (*ledger.VersionedData, error) {
	r.l.gets++
	if r.l.gets == r.l.failGet {
		r.l.fired = true
		return nil, errInjected
	}
	v, ok := r.l.state(r.h, bucket, string(key))
	if !ok {
		return nil, nil
	}
	return &ledger.VersionedData{PureData: &ledger.PureData{Bucket: bucket, Key: key, Value: v}}, nil
}
func (r snapReader) Select(string, []byte, []byte) (ledger.XMIterator, error) {
	return nil, fmt.Errorf("not supported")
}

// ---- network stub (chained-bft registers three subscribers and never receives anything)

type stubNet struct{ account string }

func (n *stubNet) Start() {}
func (n *stubNet) Stop()  {}
func (n *stubNet) SendMessage(xctx.XContext, *pb.XuperMessage, ...p2p.OptionFunc) error {
	return nil
}
func (n *stubNet) SendMessageWithResponse(xctx.XContext, *pb.XuperMessage, ...p2p.OptionFunc) ([]*pb.XuperMessage, error) {
	return nil, nil
}
func (n *stubNet) NewSubscriber(pb.XuperMessage_MessageType, interface{}, ...p2p.SubscriberOption) p2p.Subscriber {
	return nil
}
func (n *stubNet) Register(p2p.Subscriber) error   { return nil }
func (n *stubNet) UnRegister(p2p.Subscriber) error { return nil }
func (n *stubNet) Context() *nctx.NetCtx           { return nil }
func (n *stubNet) PeerInfo() pb.PeerInfo           { return pb.PeerInfo{Account: n.account} }

// ---- contract manager stub (kernel method registration is a no-op)

type stubMgr struct{}

func (stubMgr) NewContext(*contract.ContextConfig) (contract.Context, error) { return nil, nil }
func (stubMgr) NewStateSandbox(*contract.SandboxConfig) (contract.StateSandbox, error) {
	return nil, nil
}
func (stubMgr) GetKernRegistry() contract.KernRegistry { return stubReg{} }

type stubReg struct{}

func (stubReg) RegisterKernMethod(string, string, contract.KernMethod) {}
func (stubReg) RegisterShortcut(string, string, string)                {}
func (stubReg) GetKernMethod(string, string) (contract.KernMethod, error) {
	return nil, errors.New("none")
}
