// Engine `contract` (C09): what was pre-executed is what is verified and committed.
//
// Drives the REAL Chain.PreExec -> client-side assembly + signature -> Chain.SubmitTx (State.VerifyTx + State.DoTx)
// and the block path (ConfirmBlock + Play on a replica) of xupercore in-process with programs of the test kernel
// contracts `$xvc` / `$xvd` (xvc.go), then single mutations of the assembled transaction, each re-signed with the
// initiator's key and with the txid recomputed, so that only the semantic checks can refuse it.
//
// op lines (also the input of the Lean driver `xvdriver contract`):
//
//	reset fee=0|1 [bank=<u>x<n>]  new chain (no-fee genesis / fee genesis: 1 gas per burnt unit), empty contract state; the account the
//	                              contracts pay from (user 3, "the bank") owns <n> unspent outputs worth <u> each (default 1000000x40)
//	pre <slot> <prog>             Chain.PreExec of `$xvc.run(prog)` by user 0 over the live state; the response is assembled
//	                              into a signed transaction kept in <slot>. The outputs of the bank the call selects stay
//	                              locked whatever becomes of the call.
//	                              -> ok|failed B <body> R <b>:<k>@<id>.<off>|- ... W <b>:<k>=<val> ... I <amt> ... X <user>:<amt> ... E <e> ... U <used>
//	                              |  error           (failed = contract status >= 400; error = PreExec returned an error)
//	                              I = worth of the token inputs selected for the transfers, X = the token outputs created
//	                              (payment, then change to user 3 iff the inputs are worth more), both in the order of the calls
//	commit <slot> <id>            Chain.SubmitTx of the slot's transaction; on success it is transaction number <id>
//	                              (versions are printed as <id>.<offset in TxOutputsExt>)     -> accept | reject | n/a
//	mut <slot> <class> [args]     one mutation of the slot's transaction, VerifyTx on the node, DoTx on a copy, and
//	                              (sampled) a block holding it played by a replica
//	                              -> accept | reject-v (refused by VerifyTx) | reject-d (by DoTx only) | n/a
//	mine                          the pending transactions are packed into a block, confirmed and played   -> ok
//	replica                       a fresh node confirms + plays every block of the node and must reach the same state -> same
//
// mutation classes: rver b:k nil|bump|root, rdrop b:k, radd b:k, wval b:k v, wdrop b:k, wadd b:k v, wperm, args <prog>,
// method, contract, limit, fee, nofee, evt, evdrop, noreq, same; token side: xroute [j], xamt [j], xdecl, xboth [j], xswap,
// idrop [j], iswap, iadd, isub [j], inreal [j], ishort [j]; multiset mutations by position (0-based; for the write set the
// positions of the list TxOutputsExt, transient entries included): wdup i j, wswap i j, wdd i j, wcopy j, rdup i j, rswap i j,
// rdd i j, rcopy j, xdup i j, xdupb i j, idup i j, evdup i j, evswap i j (see mutate in exec.go).
//
// impl-side oracle (exec.go): (a) the transaction assembled from a successful pre-execution is accepted against the same
// state, and by the block path; (b) after acceptance exactly the keys of the write set changed, to exactly the declared
// values with version (txid, offset), every other key / raw ZU,ZD row unchanged, nothing of the transient bucket stored;
// (c) contract transfers reach their receivers, the paying account loses exactly the selected inputs minus its change, the
// initiator pays the gas, the outputs created for the paying account can be spent; (d) the token effects a pre-execution
// returns are the ones declared in its write set, conserve value, spend distinct unspent outputs of the paying account and
// hold every payment of the program as often as it makes it (checkTokenSide); every mutant whose verdict the
// property fixes is refused (accepted for the harmless ones), by submission and by the block path alike; a transaction
// whose read set went stale is refused; failed calls and refused transactions change nothing.
package main

import (
	"encoding/json"
	"fmt"
	"io/ioutil"
	"os"
	"os/exec"
	"path/filepath"
	"sort"
	"strings"

	"xv/kvmem"
	"xv/xvlib"
)

type Gen struct {
	r    *xvlib.Rng
	e    *Exec
	out  *xvlib.Out
	ops  []string
	txid int
	fee  bool
	unit int      // worth of each unspent output of the paying account in this case
	xfs  []string // the xfer steps of the program being generated (for repeats)
}

func (g *Gen) do(line string) string {
	a := g.e.exec(line)
	g.out.Emit(line, a)
	g.ops = append(g.ops, line)
	return a
}

func (g *Gen) key() string { return fmt.Sprintf("k%d", g.r.Intn(6)) }

func (g *Gen) hi() string {
	if g.r.Chance(1, 3) {
		return "k:"
	}
	return fmt.Sprintf("k%d", g.r.Intn(8))
}

func (g *Gen) subStep() string {
	switch g.r.Intn(12) {
	case 0, 1, 2:
		return "get " + g.key()
	case 3, 4, 5:
		return fmt.Sprintf("put %s %d", g.key(), 2+g.r.Intn(8))
	case 6:
		return "del " + g.key()
	case 7:
		return fmt.Sprintf("scan %s %s %d", g.key(), g.hi(), g.r.Intn(4))
	case 8:
		return fmt.Sprintf("copy %s %s", g.key(), g.key())
	case 9:
		return fmt.Sprintf("burn %d", 1+g.r.Intn(5))
	case 10:
		if g.r.Chance(1, 3) {
			return "fail"
		}
		return "get " + g.key()
	default:
		if g.r.Chance(1, 4) {
			return "err"
		}
		return fmt.Sprintf("cnt %s %s %d %s", g.key(), g.hi(), g.r.Intn(4), g.key())
	}
}

func (g *Gen) step(nx *int) string {
	switch g.r.Intn(25) {
	case 0, 1, 2, 3:
		return "get " + g.key()
	case 4, 5, 6, 7, 8:
		return fmt.Sprintf("put %s %d", g.key(), 2+g.r.Intn(8))
	case 9, 10:
		return "del " + g.key()
	case 11, 12:
		return fmt.Sprintf("scan %s %s %d", g.key(), g.hi(), g.r.Intn(5))
	case 13, 14:
		return fmt.Sprintf("copy %s %s", g.key(), g.key())
	case 15:
		return fmt.Sprintf("cnt %s %s %d %s", g.key(), g.hi(), g.r.Intn(5), g.key())
	case 16, 22:
		if *nx >= 4 {
			return "get " + g.key()
		}
		*nx++
		return g.xfer()
	case 17:
		return fmt.Sprintf("ev %d", g.r.Intn(5))
	case 18, 19:
		return fmt.Sprintf("burn %d", 1+g.r.Intn(6))
	case 20:
		if g.r.Chance(1, 2) {
			return "fail"
		}
		return "put " + g.key() + " 3"
	case 21:
		if g.r.Chance(1, 3) {
			return "err"
		}
		return "del " + g.key()
	default:
		n := 1 + g.r.Intn(3)
		var ss []string
		for i := 0; i < n; i++ {
			ss = append(ss, g.subStep())
		}
		return "call " + strings.Join(ss, ",")
	}
}

// xfer: a payment step. Amounts are chosen around the worth of the paying account's outputs, so that transfers are
// covered exactly by one or several inputs, or leave change, in every mixture; a step often repeats an earlier payment
// of the same program (identical outputs) or pays the paying account itself (an output that looks like change).
func (g *Gen) xfer() string {
	if len(g.xfs) > 0 && g.r.Chance(1, 3) {
		st := g.xfs[g.r.Intn(len(g.xfs))]
		g.xfs = append(g.xfs, st)
		return st
	}
	u := g.unit
	var amt int
	if u >= 1000 {
		amt = 1 + g.r.Intn(50)
		if g.r.Chance(1, 6) {
			amt = u * (1 + g.r.Intn(2))
		}
	} else {
		switch g.r.Intn(6) {
		case 0, 1:
			amt = u * (1 + g.r.Intn(3)) // covered exactly
		case 2:
			amt = u*(1+g.r.Intn(2)) + 1
		case 3:
			amt = u*(1+g.r.Intn(3)) - 1
		default:
			amt = 1 + g.r.Intn(3*u)
		}
	}
	if g.r.Chance(1, 14) {
		amt = 0
	}
	to := 1 + g.r.Intn(2)
	switch g.r.Intn(10) {
	case 0:
		to = 0
	case 1:
		to = 3
	}
	if to == 0 && amt >= 1000 {
		// the change of the initiator's fee inputs may be worth exactly that: an output identical to this payment
		// (see unlessStillPaid in exec.go)
		to = 1
	}
	st := fmt.Sprintf("xfer %d %d", to, amt)
	g.xfs = append(g.xfs, st)
	return st
}

// progMulti: a call that writes at least two keys (puts, deletes, data-flow writes, in the caller's and the callee's
// bucket), often with two payments and two events: the write set, the declared contract outputs and the declared events
// are then lists of several entries (what the multiset mutations wdup / wswap / wdd / xdup / evdup ... need).
func (g *Gen) progMulti() string {
	g.xfs = nil
	perm := []int{0, 1, 2, 3, 4, 5}
	for i := len(perm) - 1; i > 0; i-- {
		j := g.r.Intn(i + 1)
		perm[i], perm[j] = perm[j], perm[i]
	}
	nw := 2 + g.r.Intn(3)
	var ss, sub []string
	for i := 0; i < nw; i++ {
		k := fmt.Sprintf("k%d", perm[i])
		var st string
		switch g.r.Intn(6) {
		case 0:
			st = "del " + k
		case 1:
			st = fmt.Sprintf("copy %s %s", g.key(), k)
		default:
			st = fmt.Sprintf("put %s %d", k, 2+g.r.Intn(8))
		}
		if g.r.Chance(1, 3) {
			sub = append(sub, st)
		} else {
			ss = append(ss, st)
		}
	}
	if len(sub) > 0 {
		ss = append(ss, "call "+strings.Join(sub, ","))
	}
	if g.r.Chance(1, 2) {
		ss = append(ss, g.xfer())
		if g.r.Chance(2, 3) {
			ss = append(ss, g.xfer())
		}
	}
	if g.r.Chance(1, 3) {
		e := g.r.Intn(5)
		ss = append(ss, fmt.Sprintf("ev %d", e), fmt.Sprintf("ev %d", (e+1+g.r.Intn(4))%5))
	}
	if g.r.Chance(1, 4) {
		ss = append(ss, "get "+g.key())
	}
	// the steps in a random order (a callee's writes land in its own bucket wherever the call stands)
	for i := len(ss) - 1; i > 0; i-- {
		j := g.r.Intn(i + 1)
		ss[i], ss[j] = ss[j], ss[i]
	}
	return strings.Join(ss, ";")
}

func (g *Gen) prog() string {
	if g.r.Chance(1, 4) {
		return g.progMulti()
	}
	n := 1 + g.r.Intn(6)
	nx := 0
	g.xfs = nil
	var ss []string
	for i := 0; i < n; i++ {
		ss = append(ss, g.step(&nx))
	}
	return strings.Join(ss, ";")
}

func (g *Gen) mutants(slot string) {
	p := g.e.w.slots[slot]
	if p == nil || p.Tx == nil {
		return
	}
	r := g.r
	var ms []string
	add := func(f string, a ...interface{}) { ms = append(ms, fmt.Sprintf(f, a...)) }
	bk := func(x RW) string { return fmt.Sprintf("%d:%d", x.B, x.K) }
	if len(p.R) > 0 {
		x := p.R[r.Intn(len(p.R))]
		if x.Ver == "-" {
			add("rver %s root", bk(x))
		} else if r.Bool() {
			add("rver %s nil", bk(x))
		} else {
			add("rver %s bump", bk(x))
		}
		add("rdrop %s", bk(p.R[r.Intn(len(p.R))]))
		if r.Bool() {
			add("rdrop %s", bk(p.R[r.Intn(len(p.R))]))
		}
	}
	add("radd %d:%d", 1+r.Intn(2), r.Intn(8))
	if len(p.W) > 0 {
		x := p.W[r.Intn(len(p.W))]
		add("wval %s %d", bk(x), r.Intn(10))
		add("wdrop %s", bk(p.W[r.Intn(len(p.W))]))
		add("wperm")
	}
	add("wadd %d:%d %d", 1+r.Intn(2), r.Intn(8), []int{0, 2, 3, 7}[r.Intn(4)])
	if len(p.R) > 0 && r.Bool() {
		add("wadd %s %d", bk(p.R[r.Intn(len(p.R))]), 2+r.Intn(6))
	}
	// request tampering
	steps := strings.Split(p.Prog, ";")
	switch r.Intn(5) {
	case 0:
		add("args %s;err", p.Prog)
	case 1:
		add("args %s;fail", p.Prog)
	case 2:
		nx := 2
		add("args %s;%s", p.Prog, g.step(&nx))
	case 3:
		if len(steps) > 1 {
			i := r.Intn(len(steps))
			add("args %s", strings.Join(append(append([]string{}, steps[:i]...), steps[i+1:]...), ";"))
		} else {
			add("args get k0")
		}
	default:
		nx := 2
		i := r.Intn(len(steps))
		c := append([]string{}, steps...)
		c[i] = g.step(&nx)
		add("args %s", strings.Join(c, ";"))
	}
	if r.Chance(1, 3) {
		add("method")
	}
	if r.Chance(1, 3) {
		add("contract")
	}
	if p.Used > 0 {
		add("limit")
		if g.fee {
			add("fee")
			if r.Bool() {
				add("nofee")
			}
		}
	}
	if len(p.X) > 0 {
		// token side: real outputs, declared outputs, declared inputs, real inputs
		add("xroute %d", r.Intn(len(p.X)))
		if len(p.X) > 1 && r.Bool() {
			add("xroute %d", r.Intn(len(p.X)))
		}
		add("xamt %d", r.Intn(len(p.X)))
		add("xdecl")
		add("xboth %d", r.Intn(len(p.X)))
		if len(p.X) > 1 {
			add("xswap")
		}
		add("idrop %d", r.Intn(len(p.I)))
		if len(p.I) > 1 {
			add("iswap")
		}
		if r.Chance(1, 2) {
			add("inreal %d", r.Intn(len(p.I)))
		}
		if r.Chance(1, 3) {
			add("isub %d", r.Intn(len(p.I)))
		}
		if r.Chance(1, 2) {
			add("ishort %d", r.Intn(len(p.I)))
		}
	}
	if r.Chance(1, 4) {
		add("iadd")
	}
	if len(p.E) > 0 {
		add("evt")
		add("evdrop")
	}
	if len(p.X) > 0 || len(p.E) > 0 {
		add("noreq")
	}
	if r.Chance(1, 4) {
		add("same")
	}
	// multiset mutations that keep the length: of the declared write set (the list TxOutputsExt: the transient entries
	// of the token side and of the events first, then the stored writes of the buckets), of the declared read set, and of
	// the lists inside the transient entries (declared contract outputs / inputs / events)
	two := func(lo, hi int) (int, int) { // two different positions in [lo, hi)
		i := lo + r.Intn(hi-lo)
		j := lo + r.Intn(hi-lo-1)
		if j >= i {
			j++
		}
		return i, j
	}
	n := len(p.Tx.TxOutputsExt)
	nT := n - len(p.W)
	if len(p.W) >= 2 {
		// among the stored writes
		i, j := two(nT, n)
		add("wdup %d %d", i, j)
		i, j = two(nT, n)
		add([]string{"wdd %d %d", "wswap %d %d", "wdup %d %d"}[r.Intn(3)], i, j)
	}
	if n >= 2 && nT >= 1 {
		// a transient entry involved: copied over a stored write or over another transient entry, replaced by a copy of
		// a stored write, swapped with one
		i, j := r.Intn(nT), 0
		if nT < n && r.Chance(2, 3) {
			j = nT + r.Intn(n-nT)
		} else {
			_, j = two(0, n)
			if j == i {
				j = (i + 1) % n
			}
		}
		if r.Bool() {
			i, j = j, i
		}
		add([]string{"wdup %d %d", "wdup %d %d", "wdd %d %d", "wswap %d %d"}[r.Intn(4)], i, j)
	}
	if n >= 1 && r.Chance(1, 2) {
		add("wcopy %d", r.Intn(n))
	}
	if len(p.R) >= 2 {
		i, j := two(0, len(p.R))
		add("rdup %d %d", i, j)
		i, j = two(0, len(p.R))
		add([]string{"rswap %d %d", "rdd %d %d", "rdup %d %d"}[r.Intn(3)], i, j)
		if r.Chance(1, 3) {
			add("rcopy %d", r.Intn(len(p.R)))
		}
	}
	if len(p.X) >= 2 {
		i, j := two(0, len(p.X))
		if p.X[i] == p.X[j] {
			i, j = two(0, len(p.X))
		}
		add([]string{"xdup %d %d", "xdupb %d %d"}[r.Intn(2)], i, j)
	}
	if len(p.I) >= 2 && r.Chance(1, 2) {
		i, j := two(0, len(p.I))
		add("idup %d %d", i, j)
	}
	if len(p.E) >= 2 {
		i, j := two(0, len(p.E))
		add([]string{"evdup %d %d", "evswap %d %d"}[r.Intn(2)], i, j)
	}
	for _, m := range ms {
		g.do("mut " + slot + " " + m)
	}
}

func (g *Gen) scenario(steps int) {
	g.ops = nil
	g.txid = 0
	g.fee = g.r.Chance(2, 5)
	f := 0
	if g.fee {
		f = 1
	}
	// the paying account: outputs of a small worth (transfers covered exactly / by several inputs / with change; the
	// account may run dry) or of a large one (one input and change per transfer)
	g.unit = []int{1, 2, 3, 5, 5, 8, 1000000, 1000000}[g.r.Intn(8)]
	nOut := 40
	if g.unit < 1000 {
		nOut = 12 + g.r.Intn(50)*(1+3/g.unit)
	}
	if a := g.do(fmt.Sprintf("reset fee=%d bank=%dx%d", f, g.unit, nOut)); a != "ok" {
		g.out.Stats.Notes = append(g.out.Stats.Notes, "reset failed: "+a)
		return
	}
	accepted, writes := 0, 0
	for i := 0; i < steps; i++ {
		switch x := g.r.Intn(10); {
		case x < 6:
			a := g.do("pre a " + g.prog())
			if g.r.Chance(3, 4) {
				g.mutants("a")
			}
			g.txid++
			if g.do(fmt.Sprintf("commit a %d", g.txid)) == "accept" {
				accepted++
				if strings.Contains(a, " W ") && !strings.Contains(a, " W I") {
					writes++
				}
			}
			if g.r.Chance(1, 7) {
				// a client meets a node on which the row of one key cannot be read (race.go): a key the last program
				// touched or any key; its program reads / overwrites that key or is a random one
				b, k := 1, g.r.Intn(6)
				if g.r.Chance(1, 4) {
					b = 2
				}
				var pr string
				switch g.r.Intn(4) {
				case 0:
					pr = g.prog()
				case 1:
					pr = fmt.Sprintf("put k%d %d", k, 2+g.r.Intn(8))
				case 2:
					pr = fmt.Sprintf("get k%d;put k%d %d;", k, k, 2+g.r.Intn(8)) + g.prog()
				default:
					pr = fmt.Sprintf("del k%d;", k) + g.prog()
				}
				if b == 2 {
					pr = fmt.Sprintf("call put k%d %d;", k, 2+g.r.Intn(8)) + pr
				}
				g.do(fmt.Sprintf("fault %d:%d pre %s", b, k, pr))
			}
		case x < 8:
			// two pre-executions over the same state, committed one after the other: the second one may be stale
			pa, pb := g.prog(), g.prog()
			forced := g.r.Chance(2, 5)
			if forced {
				// both read and overwrite one key (top-level bucket), whatever else they do
				k := g.key()
				pa = fmt.Sprintf("get %s;put %s %d;", k, k, 2+g.r.Intn(8)) + pa
				pb = fmt.Sprintf("put %s %d;", k, 2+g.r.Intn(8)) + pb
			}
			g.do("pre a " + pa)
			g.do("pre b " + pb)
			// the two submitted at the same time, on a copy of the node (race.go)
			if forced || g.r.Chance(1, 4) {
				g.do("race a b")
			} else if g.r.Chance(1, 4) {
				g.do("race b a")
			}
			if g.r.Chance(1, 8) {
				g.do(fmt.Sprintf("fault %d:%d commit a", 1+g.r.Intn(2), g.r.Intn(6)))
			}
			g.txid++
			if g.do(fmt.Sprintf("commit b %d", g.txid)) == "accept" {
				accepted++
			}
			if g.r.Chance(1, 3) {
				g.mutants("a")
			}
			g.txid++
			if g.do(fmt.Sprintf("commit a %d", g.txid)) == "accept" {
				accepted++
			}
		default:
			g.do("mine")
		}
	}
	g.do("replica")
	g.out.Case(strings.Join(g.ops, "\n"), accepted >= 2 && writes >= 1)
}

func splitCases(lines []string) [][]string {
	var cs [][]string
	for _, l := range lines {
		if strings.HasPrefix(l, "reset") || len(cs) == 0 {
			cs = append(cs, nil)
		}
		cs[len(cs)-1] = append(cs[len(cs)-1], l)
	}
	return cs
}

// supervise runs the harness proper in a child process: a fatal error of the real code (stack overflow, concurrent
// map access ...) cannot be recovered in-process and would lose the run. The child checkpoints its statistics at every
// violation and the op lines of the case it is executing; if it dies, the parent reports the case as a violation.
func supervise(outDir string) {
	self, err := os.Executable()
	if err != nil {
		return
	}
	cmd := exec.Command(self, os.Args[1:]...)
	cmd.Env = append(os.Environ(), "XV_CONTRACT_WORKER=1")
	cmd.Stdout, cmd.Stderr = os.Stdout, os.Stderr
	err = cmd.Run()
	if err == nil {
		os.Exit(0)
	}
	var st xvlib.Stats
	if b, e := ioutil.ReadFile(filepath.Join(outDir, "stats.json")); e == nil {
		json.Unmarshal(b, &st)
	}
	if st.Distribution == nil {
		st.Distribution = map[string]int{}
	}
	var ops []string
	if _, e := os.Stat(filepath.Join(outDir, "case.ops")); e == nil {
		ops = xvlib.ReadLines(filepath.Join(outDir, "case.ops"))
	}
	st.Violations = append(st.Violations, xvlib.Violation{Key: "crash", Ops: ops, Impl: []string{"<process died>"},
		What: fmt.Sprintf("the process died (%v) while the real code executed the last op line of this case", err)})
	st.Distribution["violation:crash"]++
	if st.Samples == nil {
		st.Samples = []interface{}{}
	}
	b, _ := json.MarshalIndent(st, "", " ")
	ioutil.WriteFile(filepath.Join(outDir, "stats.json"), b, 0644)
	for _, f := range []string{"ops.txt", "impl.out"} {
		if _, e := os.Stat(filepath.Join(outDir, f)); e != nil {
			ioutil.WriteFile(filepath.Join(outDir, f), nil, 0644)
		}
	}
	os.Exit(0)
}

func main() {
	args := xvlib.ParseArgs()
	if os.Getenv("XV_CONTRACT_WORKER") == "" {
		supervise(args.Out)
	}
	out := xvlib.NewOut(args.Out)
	defer out.Close()
	ex := &Exec{scratch: args.Scratch, out: out, blockEvery: 3}
	if args.Tier == "thorough" {
		ex.blockEvery = 1
	}
	if v := xvlib.EnvInt("XV_BLOCK_EVERY", -1); v >= 0 {
		ex.blockEvery = v
	}
	if args.Replay != "" {
		ex.blockEvery = 1
		for _, l := range xvlib.ReadLines(args.Replay) {
			out.Emit(l, ex.exec(l))
		}
		out.Case(args.Replay, true)
		return
	}
	// 0. corpus (minimal replays of findings / repaired defects and hand-written corner cases) first
	files, _ := filepath.Glob(filepath.Join("corpus", "C09", "*.ops"))
	sort.Strings(files)
	for _, f := range files {
		save := ex.blockEvery
		ex.blockEvery = 1
		for _, c := range splitCases(xvlib.ReadLines(f)) {
			for _, l := range c {
				out.Emit(l, ex.exec(l))
			}
			out.Case(strings.Join(c, "\n"), true)
			out.Count("corpus-case")
		}
		ex.blockEvery = save
	}
	if len(files) == 0 {
		out.Stats.Notes = append(out.Stats.Notes, "corpus/C09 not found (run from the framework root)")
	}
	n := xvlib.EnvInt("XV_CASES", 0)
	if n == 0 {
		n = 500
		if args.Tier == "thorough" {
			n = 5500 // ~36 mutants per pre-execution since the multiset mutations were added: keeps the tier below 20 min
		}
	}
	g := &Gen{r: xvlib.NewRng(args.Seed*1000003 + 909), e: ex, out: out}
	for i := 0; i < n; i++ {
		g.scenario(5 + g.r.Intn(5))
		if i < 2 {
			s := g.ops
			if len(s) > 14 {
				s = append(append([]string{}, s[:14]...), "...")
			}
			out.Sample(map[string]interface{}{"ops": s})
		}
		kvmem.Drop(args.Scratch)
	}
	out.Stats.Rule = fmt.Sprintf("%d generated histories of 5-9 steps on a no-fee or fee chain; a step pre-executes a random program of 1-6 calls "+
		"(get/put/del/scan with bounds and early stop/copy/cnt/transfer/event/burn/fail/err/nested call) of the test kernel contract over 6 keys in 2 buckets "+
		"through the real Chain.PreExec (every fourth program writes 2-4 keys in both buckets, often with two payments and two events), tries 8-30 mutations of the assembled transaction (read set, write set, request, limits, fee, contract transfers, events: single-entry mutations, and multiset mutations that keep the length of the declared write set - the list TxOutputsExt, transient entries included -, of the read set, of the declared contract outputs / inputs / events: an entry replaced by a copy of another, two swapped, one dropped + a copy appended) "+
		"through VerifyTx+DoTx and (every %d-th and every accepted one) through a block played by a replica, then commits it through Chain.SubmitTx; "+
		"pairs of pre-executions over the same state are committed one after the other (stale reads); blocks are mined in between; a fresh replica replays all blocks at the end. "+
		"Non-trivial = at least 2 accepted transactions, one with key writes; distinct by full op list", n, ex.blockEvery)
}
