package main

// Two kinds of input the sequential, healthy-storage histories never produce.  Both run on a COPY of the node's storage
// image (the main history and the model's state are untouched), both answer `-` (judged by the oracle below only).
//
//	race <slotA> <slotB>      the two slots' transactions are submitted (State.VerifyTx + State.DoTx, what Chain.SubmitTx
//	                          does) by two goroutines in ONE fixed interleaving: A is held right before its first write to the
//	                          state database (kvmem.SetBeforeWrite: its checks are done, its batch is filled), B runs to
//	                          completion, A is released.  Oracle ("a transaction is rejected if any declared read is not
//	                          current"): if both are admitted there must be an order of the two in which the second one's
//	                          declared reads are still current after the first one's writes - i.e. not (A overwrites a key B
//	                          declares as read AND B overwrites a key A declares as read) - and they spend no common output;
//	                          afterwards every key holds the version the admitted writers left, in one of the two orders.
//	fault <b>:<k> pre <prog>  the row of key k of bucket b in the state database cannot be read (an error that is not "not
//	fault <b>:<k> commit <s>  found") from now on.  `pre`: the program is pre-executed, assembled and submitted under the
//	                          fault, and once more after the fault has gone; `commit`: the slot's transaction (pre-executed
//	                          on the healthy node) is submitted under the fault.  Oracle: an ADMITTED transaction declares,
//	                          for every key it read, the version that is current on the healthy image (a read that failed
//	                          must not be answered, let alone as "never written"); the reader handed out by
//	                          State.CreateXMReader answers the unreadable key with an error or with its current version.

import (
	"bytes"
	"errors"
	"fmt"
	"sort"
	"strings"
	"time"

	"github.com/xuperchain/xupercore/bcs/ledger/xledger/state/xmodel"
	pb "github.com/xuperchain/xupercore/bcs/ledger/xledger/xldgpb"
	xctx "github.com/xuperchain/xupercore/kernel/common/xcontext"
	"github.com/xuperchain/xupercore/kernel/engines/xuperos"

	"xv/chainlib"
	"xv/kvmem"
)

func extKey(bucket string, key []byte) string { return bucket + "/" + string(key) }

func readsOf(tx *pb.Transaction) map[string]bool {
	m := map[string]bool{}
	for _, in := range tx.TxInputsExt {
		m[extKey(in.Bucket, in.Key)] = true
	}
	return m
}

func writesOf(tx *pb.Transaction) map[string]bool {
	m := map[string]bool{}
	for _, o := range tx.TxOutputsExt {
		if o.Bucket != xmodel.TransientBucket {
			m[extKey(o.Bucket, o.Key)] = true
		}
	}
	return m
}

func meet(a, b map[string]bool) []string {
	var r []string
	for k := range a {
		if b[k] {
			r = append(r, k)
		}
	}
	sort.Strings(r)
	return r
}

func guarded(f func() (bool, string)) (ok bool, stage string) {
	defer func() {
		if r := recover(); r != nil {
			ok, stage = false, fmt.Sprintf("panic: %v", r)
		}
	}()
	return f()
}

func (e *Exec) race(pa, pbn *Pending) string {
	if pa.Tx == nil || pbn.Tx == nil || pa == pbn {
		return "-"
	}
	c, err := e.copyNode()
	if err != nil {
		return "error:" + err.Error()
	}
	defer kvmem.Drop(c.Root)
	defer kvmem.SetBeforeWrite(nil)
	ta, tb := cloneTx(pa.Tx), cloneTx(pbn.Tx)
	statePath := c.StatePath()
	held, release := make(chan struct{}), make(chan struct{})
	var hook func(store string)
	hook = func(store string) {
		if store != statePath {
			kvmem.SetBeforeWrite(hook) // one-shot hook: arm it again until the state database is written
			return
		}
		close(held)
		<-release
	}
	kvmem.SetBeforeWrite(hook)
	type res struct {
		ok    bool
		stage string
	}
	doneA, doneB := make(chan res, 1), make(chan res, 1)
	go func() {
		ok, st := guarded(func() (bool, string) { return submitOn(c, ta) })
		doneA <- res{ok, st}
	}()
	var ra, rb res
	select {
	case <-held:
	case ra = <-doneA:
		// A never reached a write (refused by its own checks): nothing to interleave
		kvmem.SetBeforeWrite(nil)
		e.count("race:first-refused-alone")
		return "-"
	case <-time.After(20 * time.Second):
		e.violate("race-blocked", "a single submission neither finished nor reached its write")
		close(release)
		return "-"
	}
	go func() {
		ok, st := guarded(func() (bool, string) { return submitOn(c, tb) })
		doneB <- res{ok, st}
	}()
	waited := false
	select {
	case rb = <-doneB:
	case <-time.After(2 * time.Second):
		waited = true // B waits for something A holds: let A go on, B follows
	}
	close(release)
	ra = <-doneA
	if waited {
		rb = <-doneB
	}
	for _, r := range []res{ra, rb} {
		if strings.HasPrefix(r.stage, "panic") {
			e.violate("panic", "a submission panicked during the race: "+r.stage)
		}
	}
	e.count(fmt.Sprintf("race:%v-%v", ra.ok, rb.ok))
	if waited {
		e.count("race:second-waited")
	}
	aOverB := meet(writesOf(ta), readsOf(tb)) // keys A overwrites that B declares as read
	bOverA := meet(writesOf(tb), readsOf(ta))
	var common []string
	for _, x := range ta.TxInputs {
		for _, y := range tb.TxInputs {
			if bytes.Equal(x.RefTxid, y.RefTxid) && x.RefOffset == y.RefOffset {
				common = append(common, fmt.Sprintf("%x/%d", x.RefTxid[:4], x.RefOffset))
			}
		}
	}
	if len(aOverB) > 0 && len(bOverA) > 0 {
		e.count("race:mutually-conflicting")
	}
	if ra.ok && rb.ok {
		if len(aOverB) > 0 && len(bOverA) > 0 {
			e.violate("conflicting-submissions-both-admitted:key-version", fmt.Sprintf("two transactions pre-executed over the same state, %q and %q, submitted at the same time (the first held before its write to the state database, the second run meanwhile) are BOTH admitted although the first overwrites %v, which the second declares as read, and the second overwrites %v, which the first declares as read: whichever is taken as the later one, a declared read of it was not current", pa.Prog, pbn.Prog, aOverB, bOverA))
		}
		if len(common) > 0 {
			e.violate("conflicting-submissions-both-admitted:token-input", fmt.Sprintf("two transactions submitted at the same time are both admitted although both spend the output(s) %v", common))
		}
	}
	// the state after the race: every written key holds the version of an admitted writer, of the LATER one in an order
	// that explains the admissions (A;B unless B overwrote a read of A)
	rd := c.S.CreateXMReader()
	type wr struct {
		tx  *pb.Transaction
		off int
	}
	last := map[string]wr{}
	order := []*pb.Transaction{ta, tb}
	if len(aOverB) > 0 {
		order = []*pb.Transaction{tb, ta}
	}
	for _, t := range order {
		if (t == ta && !ra.ok) || (t == tb && !rb.ok) {
			continue
		}
		for i, o := range t.TxOutputsExt {
			if o.Bucket != xmodel.TransientBucket {
				last[extKey(o.Bucket, o.Key)] = wr{t, i}
			}
		}
	}
	if !(ra.ok && rb.ok && len(aOverB) > 0 && len(bOverA) > 0) {
		var keys []string
		for k := range last {
			keys = append(keys, k)
		}
		sort.Strings(keys)
		for _, k := range keys {
			w := last[k]
			o := w.tx.TxOutputsExt[w.off]
			vd, err := rd.Get(o.Bucket, o.Key)
			if err != nil || !bytes.Equal(vd.RefTxid, w.tx.Txid) || int(vd.RefOffset) != w.off {
				e.violate("race-state-differs", fmt.Sprintf("after two submissions at the same time (admitted: %v, %v) the key %s does not hold the version the admitted transactions leave in any order (read error: %v)", ra.ok, rb.ok, k, err))
				break
			}
		}
	}
	return "-"
}

var errInjected = errors.New("verifmem: injected read error (input/output error)")

func (e *Exec) fault(bk string, mode string, rest string) string {
	b, k, ok := parseBK(bk)
	if !ok || (mode != "pre" && mode != "commit") {
		return "bad-op"
	}
	w := e.w
	var slot *Pending
	if mode == "commit" {
		slot = w.slots[strings.TrimSpace(rest)]
		if slot == nil {
			return "bad-op"
		}
		if slot.Tx == nil {
			return "-"
		}
	}
	c, err := e.copyNode()
	if err != nil {
		return "error:" + err.Error()
	}
	defer kvmem.Drop(c.Root)
	defer kvmem.SetReadFault(nil)
	bucket, key := bucketName[b], []byte(fmt.Sprintf("k%d", k))
	// what is current on the healthy image
	type ver struct {
		txid []byte
		off  int32
	}
	cur := func(bucket string, key []byte) (ver, error) {
		vd, err := c.S.CreateXMReader().Get(bucket, key)
		if err != nil {
			return ver{}, err
		}
		return ver{vd.RefTxid, vd.RefOffset}, nil
	}
	healthy := map[string]ver{}
	for bn := range bucketNo {
		for i := 0; i < nKeys; i++ {
			kk := []byte(fmt.Sprintf("k%d", i))
			v, err := cur(bn, kk)
			if err != nil {
				return "error:" + err.Error()
			}
			healthy[extKey(bn, kk)] = v
		}
	}
	written := len(healthy[extKey(bucket, key)].txid) > 0
	raw := pb.ExtUtxoTablePrefix + bucket + "/" + string(key)
	statePath := c.StatePath()
	hits := 0
	arm := func() {
		kvmem.SetReadFault(func(store, kk string) error {
			if store == statePath && kk == raw {
				hits++
				return errInjected
			}
			return nil
		})
	}
	arm()
	tag := "never-written-key"
	if written {
		tag = "written-key"
	}
	e.count("fault:" + mode + ":" + tag)
	// observation point: the reader
	if v, err := cur(bucket, key); err == nil {
		h := healthy[extKey(bucket, key)]
		if !bytes.Equal(v.txid, h.txid) || v.off != h.off {
			what := "another version"
			if len(v.txid) == 0 {
				what = "never written"
			}
			e.violate("unreadable-key-answered", fmt.Sprintf("the row of key %s of the state database cannot be read (injected I/O error); State.CreateXMReader().Get answers without an error: %s, while the key stands at %s", extKey(bucket, key), what, e.verStr(h.txid, h.off)))
		}
	}
	staleReads := func(tx *pb.Transaction) []string {
		var s []string
		for _, in := range tx.TxInputsExt {
			h, known := healthy[extKey(in.Bucket, in.Key)]
			if known && (!bytes.Equal(h.txid, in.RefTxid) || h.off != in.RefOffset) {
				s = append(s, fmt.Sprintf("%s declared @%s current @%s", extKey(in.Bucket, in.Key), e.verStr(in.RefTxid, in.RefOffset), e.verStr(h.txid, h.off)))
			}
		}
		return s
	}
	ch := xuperos.VerifNewChain(c.Ctx)
	submit := func(tx *pb.Transaction) bool {
		ok, _ := guarded(func() (bool, string) {
			return ch.SubmitTx(&xctx.BaseCtx{XLog: c.Ctx.XLog}, cloneTx(tx)) == nil, ""
		})
		if !ok {
			if has, _ := c.S.HasTx(tx.Txid); has {
				ok = true
			}
		}
		return ok
	}
	var tx *pb.Transaction
	prog := ""
	if mode == "commit" {
		tx, prog = slot.Tx, slot.Prog
	} else {
		// the client's side against the faulty node: pre-execution, assembly, signature
		prog = strings.TrimSpace(rest)
		saveN, saveCh, saveTrial := w.n, w.ch, e.trial
		var sink []string
		e.trial = &sink // the token-side checks of preexec speak of the healthy node
		w.n, w.ch = c, ch
		p := func() (p *Pending) {
			defer func() {
				if recover() != nil {
					p = nil
				}
			}()
			return e.preexec(prog)
		}()
		w.n, w.ch, e.trial = saveN, saveCh, saveTrial
		if p == nil || p.Tx == nil || p.Outcome != "ok" {
			e.count("fault:pre:refused")
			return "-"
		}
		tx = p.Tx
	}
	stale := staleReads(tx)
	admitted := submit(tx)
	when := "while the row is unreadable"
	if !admitted && mode == "pre" {
		// the fault has gone (the client sends its transaction again)
		kvmem.SetReadFault(nil)
		admitted = submit(tx)
		when = "after the row became readable again"
	}
	kvmem.SetReadFault(nil)
	e.count(fmt.Sprintf("fault:%s:admitted=%v:stale=%v", mode, admitted, len(stale) > 0))
	if hits == 0 {
		e.count("fault:never-consulted")
	}
	if admitted && len(stale) > 0 {
		e.violate("stale-read-accepted:read-fault", fmt.Sprintf("the row of key %s of the state database could not be read (injected I/O error); the transaction of %q (%s under the fault) was admitted %s although it declares reads that are not current: %v", extKey(bucket, key), prog, map[string]string{"pre": "pre-executed and submitted", "commit": "submitted"}[mode], when, stale))
	}
	return "-"
}

var _ = chainlib.BCName
