package main

// The test kernel contracts of the `contract` engine: `$xvc` (bucket "xvc") and `$xvd` (bucket "xvd"),
// registered from this harness through the public KernRegistry. Method `run` executes the little
// program passed in args["prog"] (';'-separated steps) through the real sandbox / bridge context:
//
//	get K            ctx.Get                                   observes <n> | - (never written) | x (deleted)
//	put K V          ctx.Put(K, "v<V>")   (V >= 2)
//	del K            ctx.Del
//	scan LO HI N     ctx.Select(LO, HI), at most N calls of Next, Close          observes the items
//	copy S D         v := Get(S); found -> Put(D, v); deleted -> Put(D, "v1"); never written -> Del(D)   (data flow read -> write)
//	cnt LO HI N D    c := number of items of scan LO HI N; Put(D, "v<2+c>")       (data flow scan -> write)
//	xfer T A         ctx.Transfer(address of user 3 = the paying account ("bank"), address of user T, A)
//	ev E             ctx.AddEvent(event named "e<E>")
//	burn N           ctx.AddResourceUsed(XFee: N)            (1 gas per unit on a fee chain)
//	fail             return Status 500
//	err              return a Go error
//	call s1,s2,...   ctx.Call("xkernel", "$xvd", "run", prog = s1;s2;...)   ($xvd only: one level);
//	                 a Go error of the callee is returned as error, a status >= 400 as Status 500
//
// K, S, D, LO, HI are keys "k0".."k9" (one digit: byte order = numeric order); HI may be "k:" (just above k9).
// The response body lists what every observing step saw (canonical, compared with the model).

import (
	"fmt"
	"math/big"
	"strconv"
	"strings"

	"github.com/xuperchain/xupercore/kernel/contract"
	"github.com/xuperchain/xupercore/kernel/contract/sandbox"
	"github.com/xuperchain/xupercore/protos"
)

const (
	topContract = "$xvc"
	subContract = "$xvd"
)

var bucketOf = map[string]string{topContract: "xvc", subContract: "xvd"}
var bucketNo = map[string]int{"xvc": 1, "xvd": 2}
var bucketName = map[int]string{1: "xvc", 2: "xvd"}

type xvc struct {
	name   string
	addrOf func(string) string // user number -> address
}

func registerXvc(cm contract.Manager, addrOf func(string) string) {
	defer func() { recover() }()
	for _, name := range []string{topContract, subContract} {
		c := &xvc{name: name, addrOf: addrOf}
		cm.GetKernRegistry().RegisterKernMethod(name, "run", c.run)
	}
}

func valBytes(n string) []byte { return []byte("v" + n) }

// valNo: "v<n>" -> n ; delete mark -> 0 ; anything else -> -1
func valNo(v []byte) int {
	if string(v) == "\x00" {
		return 0
	}
	if len(v) >= 2 && v[0] == 'v' {
		if n, err := strconv.Atoi(string(v[1:])); err == nil {
			return n
		}
	}
	return -1
}

func keyNo(k []byte) int {
	if len(k) == 2 && k[0] == 'k' {
		return int(k[1] - '0')
	}
	return -1
}

func (c *xvc) scan(ctx contract.KContext, lo, hi string, max int) ([]string, error) {
	it, err := ctx.Select(bucketOf[c.name], []byte(lo), []byte(hi))
	if err != nil {
		return nil, err
	}
	var items []string
	for len(items) < max && it.Next() {
		items = append(items, fmt.Sprintf("%d=%d", keyNo(it.Key()), valNo(it.Value())))
	}
	it.Close()
	return items, nil
}

func (c *xvc) run(ctx contract.KContext) (*contract.Response, error) {
	prog := string(ctx.Args()["prog"])
	bucket := bucketOf[c.name]
	var out []string
	for _, st := range strings.Split(prog, ";") {
		w := strings.Fields(st)
		if len(w) == 0 {
			continue
		}
		switch w[0] {
		case "get":
			v, err := ctx.Get(bucket, []byte(w[1]))
			if err == sandbox.ErrHasDel {
				out = append(out, "x")
			} else if err != nil {
				out = append(out, "-")
			} else {
				out = append(out, strconv.Itoa(valNo(v)))
			}
		case "put":
			if err := ctx.Put(bucket, []byte(w[1]), valBytes(w[2])); err != nil {
				return nil, err
			}
		case "del":
			if err := ctx.Del(bucket, []byte(w[1])); err != nil {
				return nil, err
			}
		case "scan":
			n, _ := strconv.Atoi(w[3])
			items, err := c.scan(ctx, w[1], w[2], n)
			if err != nil {
				return nil, err
			}
			out = append(out, "["+strings.Join(items, ",")+"]")
		case "copy":
			v, err := ctx.Get(bucket, []byte(w[1]))
			if err == sandbox.ErrHasDel {
				out = append(out, "x")
				if err := ctx.Put(bucket, []byte(w[2]), valBytes("1")); err != nil {
					return nil, err
				}
			} else if err != nil {
				out = append(out, "-")
				if err := ctx.Del(bucket, []byte(w[2])); err != nil {
					return nil, err
				}
			} else {
				out = append(out, strconv.Itoa(valNo(v)))
				if err := ctx.Put(bucket, []byte(w[2]), v); err != nil {
					return nil, err
				}
			}
		case "cnt":
			n, _ := strconv.Atoi(w[3])
			items, err := c.scan(ctx, w[1], w[2], n)
			if err != nil {
				return nil, err
			}
			out = append(out, "["+strings.Join(items, ",")+"]")
			if err := ctx.Put(bucket, []byte(w[4]), valBytes(strconv.Itoa(2+len(items)))); err != nil {
				return nil, err
			}
		case "xfer":
			amt, _ := new(big.Int).SetString(w[2], 10)
			if err := ctx.Transfer(c.addrOf("3"), c.addrOf(w[1]), amt); err != nil {
				return nil, err
			}
		case "ev":
			ctx.AddEvent(&protos.ContractEvent{Contract: c.name, Name: "e" + w[1], Body: []byte("b" + w[1])})
		case "burn":
			n, _ := strconv.ParseInt(w[1], 10, 64)
			ctx.AddResourceUsed(contract.Limits{XFee: n})
		case "fail":
			return &contract.Response{Status: 500, Message: "xvc fail", Body: []byte(strings.Join(out, "|"))}, nil
		case "err":
			return nil, fmt.Errorf("xvc error")
		case "call":
			sub := strings.ReplaceAll(strings.TrimSpace(strings.TrimPrefix(strings.TrimSpace(st), "call")), ",", ";")
			resp, err := ctx.Call("xkernel", subContract, "run", map[string][]byte{"prog": []byte(sub)})
			if err != nil {
				return nil, err
			}
			if len(resp.Body) > 0 {
				out = append(out, string(resp.Body))
			}
			if resp.Status >= 400 {
				return &contract.Response{Status: 500, Message: "callee failed", Body: []byte(strings.Join(out, "|"))}, nil
			}
		default:
			return nil, fmt.Errorf("xvc: unknown step %q", w[0])
		}
	}
	return &contract.Response{Status: 200, Body: []byte(strings.Join(out, "|"))}, nil
}
