package main

// Executor of the `contract` engine: op lines are run against the REAL Chain.PreExec, State.VerifyTx,
// State.DoTx / Chain.SubmitTx and the block path (ConfirmBlock + Play on a replica); the impl-side
// oracle of C09 is evaluated on what they return (independent of the Lean model).

import (
	"bytes"
	"encoding/hex"
	"encoding/json"
	"fmt"
	"io/ioutil"
	"math/big"
	"os"
	"path/filepath"
	"sort"
	"strconv"
	"strings"

	"github.com/golang/protobuf/proto"
	"github.com/xuperchain/xupercore/bcs/ledger/xledger/state/utxo"
	"github.com/xuperchain/xupercore/bcs/ledger/xledger/state/xmodel"
	pb "github.com/xuperchain/xupercore/bcs/ledger/xledger/xldgpb"
	xctx "github.com/xuperchain/xupercore/kernel/common/xcontext"
	"github.com/xuperchain/xupercore/kernel/contract"
	"github.com/xuperchain/xupercore/kernel/engines/xuperos"
	"github.com/xuperchain/xupercore/protos"

	"xv/chainlib"
	"xv/kvmem"
	"xv/xvlib"
)

const nKeys = 10

type RW struct {
	B, K int
	Ver  string // "<id>.<off>" | "-"   (reads)
	Val  int    // writes: 0 = delete mark
}

// Pending is a pre-executed request waiting in a slot.
type Pending struct {
	Prog    string
	Outcome string // ok | failed | error
	Resp    *protos.InvokeResponse
	Tx      *pb.Transaction // assembled + signed (nil if Outcome == error)
	R, W    []RW
	I       []int    // amounts of the token inputs the contract's transfers selected, in order
	X       [][2]int // token outputs of the contract (user no, amount): payments and change, in order
	E       []int
	Used    int64
	Gas     int64
	Body    string
	FeeIdx  int // index of the `$` output in Tx.TxOutputs (-1 = none)
	ChgIdx  int // index of the fee change output (-1 = none)
	NConOut int // number of outputs created by the contract (prefix of Tx.TxOutputs)
	NConIn  int // number of inputs selected by the contract (prefix of Tx.TxInputs)
}

type World struct {
	fee     bool
	n       *chainlib.Node
	ch      *xuperos.Chain
	users   []*xvlib.Account // 0 = initiator, 1 2 = receivers, 3 = the account the contracts pay from ("bank"), 4 = a bystander
	bank    *xvlib.Account
	sink    string // where the harness sweeps the bank's change outputs to (see sweep)
	bankU   int64
	miner   *xvlib.Account
	txno    map[string]int
	blocks  []*pb.InternalBlock
	slots   map[string]*Pending
	seq     int
	copySeq int
	height  int64
}

type Exec struct {
	w          *World
	scratch    string
	out        *xvlib.Out
	caseOps    []string
	caseOut    []string
	blockEvery int // block path for every n-th mutant (1 = all)
	mutCount   int
	trial      *[]string // a trial run of a shortened case (see shorten): violation keys are collected, nothing is reported
}

func (e *Exec) count(kind string) {
	if e.trial == nil {
		e.out.Count(kind)
	}
}

func (e *Exec) violate(key, what string) {
	if e.trial != nil {
		*e.trial = append(*e.trial, key)
		return
	}
	ops := append([]string{}, e.caseOps...)
	impl := append([]string{}, e.caseOut...)
	n := 0
	for _, v := range e.out.Stats.Violations {
		if v.Key == key {
			n++
		}
	}
	if n < 3 {
		if o, i := e.shorten(key, ops); o != nil {
			ops, impl = o, i
		}
	}
	if len(impl) > 12 {
		impl = impl[len(impl)-12:]
	}
	e.out.Violate(xvlib.Violation{Key: key, What: what, Ops: ops, Impl: impl})
	e.checkpoint()
}

// shorten: the replay of a violation is the case executed so far; most violations of a commit / mut line need only
// the reset line, the pre-execution of the slot and the line itself. That shortened case is run on a fresh chain of
// its own; if it shows the same key it is the replay.
func (e *Exec) shorten(key string, ops []string) ([]string, []string) {
	if len(ops) < 4 || !strings.HasPrefix(ops[0], "reset") {
		return nil, nil
	}
	last := ops[len(ops)-1]
	f := strings.Fields(last)
	if len(f) < 3 || (f[0] != "commit" && f[0] != "mut" && f[0] != "race" && !(f[0] == "fault" && len(f) == 4 && f[2] == "commit")) {
		return nil, nil
	}
	slots := map[string]bool{f[1]: true}
	if f[0] == "race" {
		slots[f[2]] = true
	} else if f[0] == "fault" {
		slots = map[string]bool{f[3]: true}
	}
	var pres []string
	for i := len(ops) - 2; i > 0; i-- {
		if w := strings.Fields(ops[i]); len(w) > 2 && w[0] == "pre" && slots[w[1]] {
			pres = append([]string{ops[i]}, pres...)
			delete(slots, w[1])
		}
	}
	if len(slots) > 0 {
		return nil, nil
	}
	if f[0] == "commit" {
		last = "commit " + f[1] + " 1"
	}
	short := append(append([]string{ops[0]}, pres...), last)
	var keys []string
	t := &Exec{scratch: e.scratch + "-shorten", out: e.out, blockEvery: e.blockEvery, trial: &keys}
	var impl []string
	for _, l := range short {
		impl = append(impl, t.exec(l))
	}
	kvmem.Drop(t.scratch)
	for _, k := range keys {
		if k == key {
			return short, impl
		}
	}
	return nil, nil
}

// checkpoint writes the statistics gathered so far (see supervise in main.go).
func (e *Exec) checkpoint() {
	if e.trial != nil {
		return
	}
	st := e.out.Stats
	if st.Samples == nil {
		st.Samples = []interface{}{}
	}
	if b, err := json.MarshalIndent(st, "", " "); err == nil {
		ioutil.WriteFile(filepath.Join(e.out.Dir, "stats.json"), b, 0644)
	}
}

// noteOp appends the op line about to be executed to the checkpoint of the current case.
func (e *Exec) noteOp(line string, first bool) {
	if e.trial != nil {
		return
	}
	flag := os.O_CREATE | os.O_WRONLY | os.O_APPEND
	if first {
		flag = os.O_CREATE | os.O_WRONLY | os.O_TRUNC
	}
	if f, err := os.OpenFile(filepath.Join(e.out.Dir, "case.ops"), flag, 0644); err == nil {
		f.WriteString(line + "\n")
		f.Close()
	}
}

func (w *World) addrOf(u string) string {
	i, _ := strconv.Atoi(u)
	if i < 0 || i >= len(w.users) {
		return "nobody"
	}
	return w.users[i].Address
}

func (w *World) userNo(addr []byte) int {
	for i, u := range w.users {
		if u.Address == string(addr) {
			return i
		}
	}
	return -1
}

// bankNo is the user number of the account the test contracts pay from.
const bankNo = 3

// newWorld: a fresh chain. The bank owns bankN unspent outputs worth bankU each (all of the same worth: which of them a
// selection takes then does not matter, so the amounts of the selected inputs and of the change are determined although
// UtxoVM.SelectUtxos iterates a Go map; the harness sweeps away every other output the bank receives, see sweep).
func (e *Exec) newWorld(fee bool, bankU int64, bankN int) error {
	kvmem.Drop(e.scratch)
	w := &World{fee: fee, txno: map[string]int{}, slots: map[string]*Pending{}, bankU: bankU}
	for i := 0; i < 5; i++ {
		w.users = append(w.users, xvlib.NewAccount(10+i))
	}
	w.bank = w.users[bankNo]
	w.sink = xvlib.NewAccount(30).Address
	w.miner = xvlib.NewAccount(20)
	g := &chainlib.Genesis{Alloc: map[string]string{}, NoFee: !fee, Award: "0"}
	if fee {
		g.Award = "50"
	}
	// the initiator owns many separate outputs: a pre-execution locks the outputs it selects for 60 s
	u0 := w.users[0].Address
	g.Alloc[u0] = "100000000"
	g.AllocOrder = []string{u0}
	n, err := chainlib.NewNode(e.scratch, "main", g.JSON(), w.miner)
	if err != nil {
		return err
	}
	w.n = n
	registerXvc(n.CM, w.addrOf)
	w.ch = xuperos.VerifNewChain(n.Ctx)
	rb, _ := n.L.QueryBlock(n.L.GetMeta().RootBlockid)
	w.blocks = []*pb.InternalBlock{rb}
	e.w = w
	// split the genesis output into 40 outputs of 1 000 000 for the initiator and the bank's outputs, and mine them
	root := rb.Transactions[0]
	var ins []chainlib.Utxo
	for i, o := range root.TxOutputs {
		if string(o.ToAddr) == u0 {
			ins = append(ins, chainlib.Utxo{Addr: u0, RefTx: root.Txid, Offset: int32(i), Amount: new(big.Int).SetBytes(o.Amount)})
		}
	}
	var outs []chainlib.Out
	total := big.NewInt(0)
	for i := 0; i < 40; i++ {
		outs = append(outs, chainlib.Out{To: u0, Amount: big.NewInt(1000000)})
		total.Add(total, big.NewInt(1000000))
	}
	for i := 0; i < bankN; i++ {
		outs = append(outs, chainlib.Out{To: w.bank.Address, Amount: big.NewInt(bankU)})
		total.Add(total, big.NewInt(bankU))
	}
	// a bystander (user 4, never paid by a contract) owns 6 outputs of the same worth (mutation isub)
	for i := 0; i < 6 && bankN > 0; i++ {
		outs = append(outs, chainlib.Out{To: w.users[4].Address, Amount: big.NewInt(bankU)})
		total.Add(total, big.NewInt(bankU))
	}
	sum := big.NewInt(0)
	for _, u := range ins {
		sum.Add(sum, u.Amount)
	}
	outs = append(outs, chainlib.Out{To: u0, Amount: new(big.Int).Sub(sum, total)})
	tx, err := chainlib.TransferTx(w.users[0], ins, outs, "split")
	if err != nil {
		return err
	}
	if _, err := n.S.VerifyTx(tx); err != nil {
		return fmt.Errorf("split verify: %v", err)
	}
	if err := n.S.DoTx(tx); err != nil {
		return fmt.Errorf("split dotx: %v", err)
	}
	return e.mine()
}

// mine packs the pending transactions into a block of the miner, confirms and plays it on the main node.
func (e *Exec) mine() error {
	w := e.w
	txs, err := w.n.S.GetUnconfirmedTx(false)
	if err != nil {
		return err
	}
	var list []*pb.Transaction
	for _, t := range txs {
		tc := *t
		tc.ReceivedTimestamp = 0
		list = append(list, &tc)
	}
	tip := w.blocks[len(w.blocks)-1]
	blk, err := w.n.MakeBlock(w.miner, tip.Blockid, tip.Height+1, list, int64(1e9)*(tip.Height+2))
	if err != nil {
		return err
	}
	st := w.n.L.ConfirmBlock(chainlib.CloneBlock(blk), false)
	if !st.Succ {
		return fmt.Errorf("confirm: %v", st.Error)
	}
	if err := w.n.S.PlayForMiner(blk.Blockid); err != nil {
		return fmt.Errorf("play for miner: %v", err)
	}
	w.blocks = append(w.blocks, blk)
	return nil
}

// ---------------------------------------------------------------- observation

type KVObs struct {
	Val int    // -1 = never written, 0 = deleted
	Ver string // hex txid + "." + offset, "" = none
}

type Obs struct {
	KV   map[string]KVObs // "b:k"
	Rows []string         // raw ZU / ZD rows
	Bal  []string
}

func observe(n *chainlib.Node, w *World) *Obs {
	o := &Obs{KV: map[string]KVObs{}}
	rd := n.S.CreateXMReader()
	for b := 1; b <= 2; b++ {
		for k := 0; k < nKeys; k++ {
			vd, err := rd.Get(bucketName[b], []byte(fmt.Sprintf("k%d", k)))
			ob := KVObs{Val: -1}
			if err == nil && vd != nil && vd.RefTxid != nil {
				ob.Val = valNo(vd.PureData.Value)
				ob.Ver = fmt.Sprintf("%x.%d", vd.RefTxid, vd.RefOffset)
			} else if err != nil {
				ob.Ver = "error:" + err.Error()
			}
			o.KV[fmt.Sprintf("%d:%d", b, k)] = ob
		}
	}
	for _, p := range []string{pb.ExtUtxoTablePrefix, pb.ExtUtxoDelTablePrefix} {
		for _, r := range n.ScanTable(p) {
			if strings.Contains(r[0], "/") && !strings.HasPrefix(r[0][len(p):], "xv") && !strings.HasPrefix(r[0][len(p):], "$transient") {
				continue // rows of the system contracts (acl, governance ...) written at genesis
			}
			o.Rows = append(o.Rows, r[0]+"="+hex.EncodeToString([]byte(r[1])))
		}
	}
	for _, u := range w.users {
		bal, _ := n.S.GetBalance(u.Address)
		o.Bal = append(o.Bal, bal.String())
	}
	return o
}

func (o *Obs) String() string {
	var ks []string
	for k, v := range o.KV {
		ks = append(ks, fmt.Sprintf("%s=%d@%s", k, v.Val, v.Ver))
	}
	sort.Strings(ks)
	return strings.Join(ks, " ") + " rows[" + strings.Join(o.Rows, " ") + "] bal[" + strings.Join(o.Bal, " ") + "]"
}

// ---------------------------------------------------------------- pre-execution and assembly

func (e *Exec) request(contractName, method, prog string) *protos.InvokeRequest {
	return &protos.InvokeRequest{ModuleName: "xkernel", ContractName: contractName, MethodName: method,
		Args: map[string][]byte{"prog": []byte(prog)}}
}

func (e *Exec) verStr(txid []byte, off int32) string {
	if txid == nil {
		return "-"
	}
	id, ok := e.w.txno[string(txid)]
	if !ok {
		return fmt.Sprintf("?%x.%d", txid[:4], off)
	}
	return fmt.Sprintf("%d.%d", id, off)
}

func (e *Exec) preexec(prog string) *Pending {
	w := e.w
	p := &Pending{Prog: prog, FeeIdx: -1, ChgIdx: -1}
	u0 := w.users[0]
	resp, err := w.ch.PreExec(&xctx.BaseCtx{XLog: w.n.Ctx.XLog}, []*protos.InvokeRequest{e.request(topContract, "run", prog)},
		u0.Address, []string{u0.Address})
	if err != nil || resp == nil || len(resp.Responses) != 1 {
		p.Outcome = "error"
		return p
	}
	p.Resp = resp
	p.Outcome = "ok"
	if resp.Responses[0].Status >= 400 {
		p.Outcome = "failed"
	}
	p.Body = string(resp.Responses[0].Body)
	p.Gas = resp.GasUsed
	p.Used = contract.FromPbLimits(resp.Requests[0].ResourceLimits).XFee
	for _, in := range resp.Inputs {
		p.R = append(p.R, RW{B: bucketNo[in.Bucket], K: keyNo(in.Key), Ver: e.verStr(in.RefTxid, in.RefOffset)})
	}
	for _, o := range resp.Outputs {
		if o.Bucket == xmodel.TransientBucket {
			continue
		}
		p.W = append(p.W, RW{B: bucketNo[o.Bucket], K: keyNo(o.Key), Val: valNo(o.Value)})
	}
	// the token side of the execution: the inputs its transfers selected, the outputs they created (payments and change)
	for _, in := range resp.UtxoInputs {
		p.I = append(p.I, int(new(big.Int).SetBytes(in.Amount).Int64()))
	}
	for _, o := range resp.UtxoOutputs {
		p.X = append(p.X, [2]int{w.userNo(o.ToAddr), int(new(big.Int).SetBytes(o.Amount).Int64())})
	}
	e.checkTokenSide(p)
	for _, o := range resp.Outputs {
		if o.Bucket == xmodel.TransientBucket && string(o.Key) == "contractEvent" {
			var evs []*protos.ContractEvent
			if err := xmodel.UnmsarshalMessages(o.Value, &evs); err == nil {
				for _, ev := range evs {
					n, _ := strconv.Atoi(strings.TrimPrefix(ev.Name, "e"))
					p.E = append(p.E, n)
				}
			}
		}
	}
	p.Tx, err = e.assemble(p)
	if err != nil {
		p.Outcome = "error"
		p.Tx = nil
	}
	return p
}

// requestedTransfers: the (receiver, amount) pairs of the xfer steps of a program, top level and nested, in order.
func requestedTransfers(prog string) [][2]int {
	var out [][2]int
	for _, st := range strings.FieldsFunc(prog, func(r rune) bool { return r == ';' || r == ',' }) {
		f := strings.Fields(st)
		if len(f) > 0 && f[0] == "call" {
			f = f[1:]
		}
		if len(f) == 3 && f[0] == "xfer" {
			t, _ := strconv.Atoi(f[1])
			a, _ := strconv.Atoi(f[2])
			out = append(out, [2]int{t, a})
		}
	}
	return out
}

// checkTokenSide: the impl-side oracle for the token effects a pre-execution returns (independent of the model):
// what is declared in the write set (transient ContractUtxo.Inputs / Outputs) is what is returned as UtxoInputs /
// UtxoOutputs; the inputs are distinct unspent outputs of the paying account and are worth exactly what the outputs are
// worth; a call that ran to its end made every payment its program asks for, as often as it asks for it, and every
// other output is change back to the paying account.
func (e *Exec) checkTokenSide(p *Pending) {
	w := e.w
	resp := p.Resp
	tmp := &pb.Transaction{TxOutputsExt: resp.Outputs}
	dIn, err1 := xmodel.ParseContractUtxoInputs(tmp)
	dOut, err2 := xmodel.ParseContractUtxoOutputs(tmp)
	same := err1 == nil && err2 == nil && len(dIn) == len(resp.UtxoInputs) && len(dOut) == len(resp.UtxoOutputs)
	for i := 0; same && i < len(dIn); i++ {
		same = proto.Equal(dIn[i], resp.UtxoInputs[i])
	}
	for i := 0; same && i < len(dOut); i++ {
		same = proto.Equal(dOut[i], resp.UtxoOutputs[i])
	}
	if !same {
		e.violate("preexec-token-declaration-differs", fmt.Sprintf("PreExec(%q): the contract inputs / outputs declared in the write set (%d / %d) are not the returned UtxoInputs / UtxoOutputs (%d / %d)",
			p.Prog, len(dIn), len(dOut), len(resp.UtxoInputs), len(resp.UtxoOutputs)))
	}
	if len(resp.UtxoInputs) == 0 && len(resp.UtxoOutputs) == 0 {
		return
	}
	unspent := map[string]string{}
	for _, r := range w.n.ScanTable(pb.UTXOTablePrefix + w.bank.Address + "_") {
		it := &utxo.UtxoItem{}
		if it.Loads([]byte(r[1])) == nil {
			unspent[r[0]] = it.Amount.String()
		}
	}
	sumIn, sumOut := big.NewInt(0), big.NewInt(0)
	seen := map[string]bool{}
	for _, in := range resp.UtxoInputs {
		k := utxo.GenUtxoKeyWithPrefix(in.FromAddr, in.RefTxid, in.RefOffset)
		amt := new(big.Int).SetBytes(in.Amount)
		sumIn.Add(sumIn, amt)
		if seen[k] {
			e.violate("contract-input-duplicated", fmt.Sprintf("PreExec(%q) returns the token input %s twice", p.Prog, k))
		}
		seen[k] = true
		if string(in.FromAddr) != w.bank.Address || unspent[k] != amt.String() {
			e.violate("contract-input-not-spendable", fmt.Sprintf("PreExec(%q) returns the token input %s worth %s, which is not an unspent output of the paying account worth that (%q)", p.Prog, k, amt, unspent[k]))
		}
	}
	for _, o := range resp.UtxoOutputs {
		sumOut.Add(sumOut, new(big.Int).SetBytes(o.Amount))
	}
	if sumIn.Cmp(sumOut) != 0 {
		e.violate("contract-transfer-not-conserved", fmt.Sprintf("PreExec(%q): token inputs worth %s, token outputs worth %s", p.Prog, sumIn, sumOut))
	}
	if p.Outcome == "ok" {
		rest := append([][2]int{}, p.X...)
		for _, rq := range requestedTransfers(p.Prog) {
			found := -1
			for i, x := range rest {
				if x == rq {
					found = i
					break
				}
			}
			if found < 0 {
				e.violate("contract-transfer-missing", fmt.Sprintf("PreExec(%q) ran to its end but its token outputs %v lack the payment %v (or hold it less often than the program makes it)", p.Prog, p.X, rq))
				return
			}
			rest = append(rest[:found:found], rest[found+1:]...)
		}
		for _, x := range rest {
			if x[0] != bankNo {
				e.violate("contract-output-unrequested", fmt.Sprintf("PreExec(%q): token output %v is neither a payment of the program nor change to the paying account (outputs %v)", p.Prog, x, p.X))
			}
		}
	}
}

// assemble builds the transaction a client builds from a pre-execution response: requests with the
// returned resource limits, read set, write set, the contract's token inputs / outputs, and on a
// fee chain the `$` output paying the returned gas (inputs selected from the initiator, change back).
func (e *Exec) assemble(p *Pending) (*pb.Transaction, error) {
	w := e.w
	u0 := w.users[0]
	w.seq++
	resp := p.Resp
	tx := &pb.Transaction{Version: 3, Nonce: fmt.Sprintf("c%d", w.seq), Timestamp: int64(w.seq), Desc: []byte("xvc"),
		Initiator: u0.Address, AuthRequire: []string{u0.Address},
		ContractRequests: cloneReqs(resp.Requests), TxInputsExt: resp.Inputs, TxOutputsExt: resp.Outputs}
	tx.TxInputs = append(tx.TxInputs, resp.UtxoInputs...)
	tx.TxOutputs = append(tx.TxOutputs, resp.UtxoOutputs...)
	p.NConOut = len(resp.UtxoOutputs)
	p.NConIn = len(resp.UtxoInputs)
	if w.fee {
		need := big.NewInt(p.Gas)
		if p.Gas == 0 {
			need = big.NewInt(1)
		}
		ins, _, total, err := w.n.S.SelectUtxos(u0.Address, need, true, false)
		if err != nil {
			return nil, fmt.Errorf("select fee inputs: %v", err)
		}
		tx.TxInputs = append(tx.TxInputs, ins...)
		if p.Gas > 0 {
			p.FeeIdx = len(tx.TxOutputs)
			tx.TxOutputs = append(tx.TxOutputs, &protos.TxOutput{ToAddr: []byte("$"), Amount: big.NewInt(p.Gas).Bytes()})
		}
		chg := new(big.Int).Sub(total, big.NewInt(p.Gas))
		if chg.Sign() > 0 {
			p.ChgIdx = len(tx.TxOutputs)
			tx.TxOutputs = append(tx.TxOutputs, &protos.TxOutput{ToAddr: []byte(u0.Address), Amount: chg.Bytes()})
		}
	}
	return chainlib.Sign(tx, u0)
}

func cloneReqs(rs []*protos.InvokeRequest) []*protos.InvokeRequest {
	var out []*protos.InvokeRequest
	for _, r := range rs {
		out = append(out, proto.Clone(r).(*protos.InvokeRequest))
	}
	return out
}

func cloneTx(t *pb.Transaction) *pb.Transaction { return proto.Clone(t).(*pb.Transaction) }

func rwLine(p *Pending) string {
	var sb strings.Builder
	sb.WriteString(p.Outcome)
	sb.WriteString(" B " + p.Body + " R")
	for _, r := range p.R {
		fmt.Fprintf(&sb, " %d:%d@%s", r.B, r.K, r.Ver)
	}
	sb.WriteString(" W")
	for _, x := range p.W {
		fmt.Fprintf(&sb, " %d:%d=%d", x.B, x.K, x.Val)
	}
	sb.WriteString(" I")
	for _, x := range p.I {
		fmt.Fprintf(&sb, " %d", x)
	}
	sb.WriteString(" X")
	for _, x := range p.X {
		fmt.Fprintf(&sb, " %d:%d", x[0], x[1])
	}
	sb.WriteString(" E")
	for _, x := range p.E {
		fmt.Fprintf(&sb, " %d", x)
	}
	fmt.Fprintf(&sb, " U %d", p.Used)
	return sb.String()
}

// ---------------------------------------------------------------- verdicts

// submitOn: the verdict of VerifyTx followed by DoTx on the given node.
func submitOn(n *chainlib.Node, tx *pb.Transaction) (bool, string) {
	ok, err := n.S.VerifyTx(tx)
	if err != nil || !ok {
		return false, "verify"
	}
	if err := n.S.DoTx(tx); err != nil {
		return false, "dotx"
	}
	return true, ""
}

func (e *Exec) copyNode() (*chainlib.Node, error) {
	e.w.copySeq++
	c, err := e.w.n.OpenCopy(e.scratch, fmt.Sprintf("copy%d", e.w.copySeq))
	if err != nil {
		return nil, err
	}
	registerXvc(c.CM, e.w.addrOf)
	return c, nil
}

// blockVerdict: a replica at the same state receives a block holding the transaction; true = it plays.
func (e *Exec) blockVerdict(tx *pb.Transaction) (bool, error) {
	w := e.w
	c, err := e.copyNode()
	if err != nil {
		return false, err
	}
	defer kvmem.Drop(c.Root)
	before := observe(c, w).String()
	// the pending transactions of the main node come first (the mutant may depend on them)
	pend, _ := c.S.GetUnconfirmedTx(false)
	var list []*pb.Transaction
	for _, t := range pend {
		tc := *t
		tc.ReceivedTimestamp = 0
		list = append(list, &tc)
	}
	list = append(list, cloneTx(tx))
	tip := w.blocks[len(w.blocks)-1]
	other := xvlib.NewAccount(21)
	blk, err := c.MakeBlock(other, tip.Blockid, tip.Height+1, list, int64(1e9)*(tip.Height+2)+7)
	if err != nil {
		return false, err
	}
	st := c.L.ConfirmBlock(chainlib.CloneBlock(blk), false)
	if !st.Succ {
		return false, fmt.Errorf("replica refuses to store the block: %v", st.Error)
	}
	if err := c.S.Play(blk.Blockid); err != nil {
		if after := observe(c, w).String(); after != before {
			e.violate("rejected-block-left-trace", fmt.Sprintf("a block refused by Play changed the state: before {%s} after {%s}", before, after))
		}
		return false, nil
	}
	return true, nil
}

// ---------------------------------------------------------------- mutants

func findRW(l []RW, b, k int) int {
	for i, r := range l {
		if r.B == b && r.K == k {
			return i
		}
	}
	return -1
}

func parseBK(s string) (int, int, bool) {
	f := strings.Split(s, ":")
	if len(f) != 2 {
		return 0, 0, false
	}
	b, e1 := strconv.Atoi(f[0])
	k, e2 := strconv.Atoi(f[1])
	return b, k, e1 == nil && e2 == nil && (b == 1 || b == 2) && k >= 0 && k < nKeys
}

func extIn(tx *pb.Transaction, b, k int) int {
	for i, in := range tx.TxInputsExt {
		if in.Bucket == bucketName[b] && keyNo(in.Key) == k {
			return i
		}
	}
	return -1
}

func extOut(tx *pb.Transaction, b, k int) int {
	for i, o := range tx.TxOutputsExt {
		if o.Bucket == bucketName[b] && keyNo(o.Key) == k {
			return i
		}
	}
	return -1
}

func valOf(n int) []byte {
	if n == 0 {
		return []byte("\x00")
	}
	return []byte("v" + strconv.Itoa(n))
}

// idxArg: the optional index argument of a token mutation.
func idxArg(args []string, dflt int) (int, bool) {
	if len(args) == 0 {
		return dflt, true
	}
	if len(args) != 1 {
		return 0, false
	}
	j, err := strconv.Atoi(args[0])
	return j, err == nil && j >= 0
}

// otherTo: the receiver a re-routed output goes to: the initiator, or user 1 if it is the initiator's already.
func (e *Exec) otherTo(to []byte) string {
	if string(to) == e.w.users[0].Address {
		return e.w.users[1].Address
	}
	return e.w.users[0].Address
}

// unlessStillPaid: the verdict the property fixes for a transaction whose real outputs were tampered with: it must be
// refused, unless its outputs still hold every token output of the contract as often as the contract made it (an
// identical output of the initiator's own - the change of the fee inputs - can stand in for the one that was taken
// away: the initiator then gives away his own change, which he is free to do). The generator avoids that coincidence.
func (e *Exec) unlessStillPaid(p *Pending, tx *pb.Transaction) string {
	have := map[[2]int]int{}
	for _, o := range tx.TxOutputs {
		have[[2]int{e.w.userNo(o.ToAddr), int(new(big.Int).SetBytes(o.Amount).Int64())}]++
	}
	for _, x := range p.X {
		if have[x] < 1 {
			return "reject"
		}
		have[x]--
	}
	return ""
}

// setTransient replaces the value of the transient write-set entry `key` by the marshalled messages (the entry is
// created in front if the write set has none; an empty list removes it).
func setTransient(tx *pb.Transaction, key string, msgs interface{}) bool {
	var buf []byte
	var err error
	n := 0
	switch m := msgs.(type) {
	case []*protos.TxInput:
		n = len(m)
		buf, err = xmodel.MarshalMessages(m)
	case []*protos.TxOutput:
		n = len(m)
		buf, err = xmodel.MarshalMessages(m)
	default:
		return false
	}
	if err != nil {
		return false
	}
	for i, o := range tx.TxOutputsExt {
		if o.Bucket == xmodel.TransientBucket && string(o.Key) == key {
			if n == 0 {
				tx.TxOutputsExt = append(tx.TxOutputsExt[:i:i], tx.TxOutputsExt[i+1:]...)
			} else {
				o.Value = buf
			}
			return true
		}
	}
	if n == 0 {
		return true
	}
	tx.TxOutputsExt = append([]*protos.TxOutputExt{{Bucket: xmodel.TransientBucket, Key: []byte(key), Value: buf}}, tx.TxOutputsExt...)
	return true
}

// listEdit: the multiset mutations of a list that keep its length (or add one copy); positions are 0-based.
//
//	dup i j   entry i replaced by a copy of entry j
//	swap i j  entries i and j change places
//	dd i j    entry i dropped, a copy of entry j appended
//	copy j    a copy of entry j appended
//
// n = length of the list; the edit itself is done by the callbacks (set(i, copy of j), swap(i, j), drop(i), app(copy of j)).
// Returns false when the edit does not apply (position out of range, i == j).
func listEdit(how string, args []string, n int, set func(i, j int), swap func(i, j int), drop func(i int), app func(j int)) bool {
	var a []int
	for _, x := range args {
		v, err := strconv.Atoi(x)
		if err != nil || v < 0 || v >= n {
			return false
		}
		a = append(a, v)
	}
	switch how {
	case "dup":
		if len(a) != 2 || a[0] == a[1] {
			return false
		}
		set(a[0], a[1])
	case "swap":
		if len(a) != 2 || a[0] == a[1] {
			return false
		}
		swap(a[0], a[1])
	case "dd":
		if len(a) != 2 || a[0] == a[1] {
			return false
		}
		// the copy is taken before the drop moves the positions
		app(a[1])
		drop(a[0])
	case "copy":
		if len(a) != 1 {
			return false
		}
		app(a[0])
	default:
		return false
	}
	return true
}

// twoIdx: the two position arguments i j of a token-side / event mutation (both below n, different).
func twoIdx(args []string, n int) (int, int, bool) {
	if len(args) != 2 {
		return 0, 0, false
	}
	i, e1 := strconv.Atoi(args[0])
	j, e2 := strconv.Atoi(args[1])
	return i, j, e1 == nil && e2 == nil && i >= 0 && j >= 0 && i < n && j < n && i != j
}

// transientIdx: position of the transient write-set entry `key` (-1 = none).
func transientIdx(tx *pb.Transaction, key string) int {
	for j, o := range tx.TxOutputsExt {
		if o.Bucket == xmodel.TransientBucket && string(o.Key) == key {
			return j
		}
	}
	return -1
}

// mutate applies one mutation class to a copy of the pending transaction. Returns (nil, "n/a") when the
// class does not apply. `expect`: "reject" | "accept" | "" (the property does not fix the verdict by itself:
// it depends on what re-executing over the declared reads produces; decided by the model).
func (e *Exec) mutate(p *Pending, class string, args []string) (tx *pb.Transaction, expect string) {
	w := e.w
	if p.Tx == nil {
		return nil, "n/a"
	}
	tx = cloneTx(p.Tx)
	switch class {
	case "rver": // a declared read cites a version that is not the current one
		if len(args) != 2 {
			return nil, "n/a"
		}
		b, k, ok := parseBK(args[0])
		i := extIn(tx, b, k)
		if !ok || i < 0 {
			return nil, "n/a"
		}
		in := tx.TxInputsExt[i]
		switch args[1] {
		case "nil":
			if in.RefTxid == nil {
				return nil, "n/a"
			}
			in.RefTxid, in.RefOffset = nil, 0
		case "bump":
			if in.RefTxid == nil {
				return nil, "n/a"
			}
			in.RefOffset++
		case "root":
			if in.RefTxid != nil {
				return nil, "n/a"
			}
			in.RefTxid, in.RefOffset = w.blocks[1].Transactions[1].Txid, 0
		default:
			return nil, "n/a"
		}
		expect = "reject"
	case "rdrop":
		b, k, ok := parseBK(args[0])
		i := extIn(tx, b, k)
		if !ok || i < 0 {
			return nil, "n/a"
		}
		tx.TxInputsExt = append(tx.TxInputsExt[:i:i], tx.TxInputsExt[i+1:]...)
		if findRW(p.W, b, k) >= 0 {
			expect = "reject"
		}
	case "radd": // an extra declared read with the current version
		b, k, ok := parseBK(args[0])
		if !ok || extIn(tx, b, k) >= 0 {
			return nil, "n/a"
		}
		vd, err := w.n.S.CreateXMReader().Get(bucketName[b], []byte(fmt.Sprintf("k%d", k)))
		if err != nil {
			return nil, "n/a"
		}
		tx.TxInputsExt = append(tx.TxInputsExt, &protos.TxInputExt{Bucket: bucketName[b], Key: []byte(fmt.Sprintf("k%d", k)),
			RefTxid: vd.RefTxid, RefOffset: vd.RefOffset})
	case "wval":
		b, k, ok := parseBK(args[0])
		i := extOut(tx, b, k)
		if !ok || i < 0 || len(args) != 2 {
			return nil, "n/a"
		}
		v, _ := strconv.Atoi(args[1])
		if bytes.Equal(tx.TxOutputsExt[i].Value, valOf(v)) {
			return nil, "n/a"
		}
		tx.TxOutputsExt[i].Value = valOf(v)
		expect = "reject"
	case "wdrop":
		b, k, ok := parseBK(args[0])
		i := extOut(tx, b, k)
		if !ok || i < 0 {
			return nil, "n/a"
		}
		tx.TxOutputsExt = append(tx.TxOutputsExt[:i:i], tx.TxOutputsExt[i+1:]...)
		expect = "reject"
	case "wadd":
		b, k, ok := parseBK(args[0])
		if !ok || extOut(tx, b, k) >= 0 || len(args) != 2 {
			return nil, "n/a"
		}
		v, _ := strconv.Atoi(args[1])
		tx.TxOutputsExt = append(tx.TxOutputsExt, &protos.TxOutputExt{Bucket: bucketName[b], Key: []byte(fmt.Sprintf("k%d", k)), Value: valOf(v)})
		expect = "reject"
	case "wperm": // the same write set declared in another order
		var idx []int
		for i, o := range tx.TxOutputsExt {
			if o.Bucket != xmodel.TransientBucket {
				idx = append(idx, i)
			}
		}
		if len(idx) < 2 {
			return nil, "n/a"
		}
		a, z := idx[0], idx[len(idx)-1]
		tx.TxOutputsExt[a], tx.TxOutputsExt[z] = tx.TxOutputsExt[z], tx.TxOutputsExt[a]
		expect = "accept"
	case "args": // the request carries another program
		np := strings.Join(args, " ")
		if np == p.Prog {
			return nil, "n/a"
		}
		tx.ContractRequests[0].Args["prog"] = []byte(np)
	case "method":
		tx.ContractRequests[0].MethodName = "nope"
		expect = "reject"
	case "contract":
		tx.ContractRequests[0].ContractName = subContract
	case "limit": // declared resource limit below what the execution uses
		if p.Used == 0 {
			return nil, "n/a"
		}
		for _, l := range tx.ContractRequests[0].ResourceLimits {
			if l.Type == protos.ResourceType_XFEE {
				l.Limit = p.Used - 1
			}
		}
		expect = "reject"
	case "fee": // the `$` output pays less than the gas of the declared limits; the initiator's change grows (or, if the fee
		// inputs left no change, a new output to the initiator takes the difference) so that sums still match
		if p.FeeIdx < 0 {
			return nil, "n/a"
		}
		tx.TxOutputs[p.FeeIdx].Amount = big.NewInt(p.Gas - 1).Bytes()
		if p.ChgIdx >= 0 {
			chg := new(big.Int).SetBytes(tx.TxOutputs[p.ChgIdx].Amount)
			tx.TxOutputs[p.ChgIdx].Amount = chg.Add(chg, big.NewInt(1)).Bytes()
		} else {
			tx.TxOutputs = append(tx.TxOutputs, &protos.TxOutput{ToAddr: []byte(w.users[0].Address), Amount: big.NewInt(1).Bytes()})
		}
		expect = "reject"
	case "nofee": // no `$` output at all: what it paid goes back to the initiator
		if p.FeeIdx < 0 {
			return nil, "n/a"
		}
		if p.ChgIdx >= 0 {
			chg := new(big.Int).SetBytes(tx.TxOutputs[p.ChgIdx].Amount)
			tx.TxOutputs[p.ChgIdx].Amount = chg.Add(chg, big.NewInt(p.Gas)).Bytes()
			tx.TxOutputs = append(tx.TxOutputs[:p.FeeIdx:p.FeeIdx], tx.TxOutputs[p.FeeIdx+1:]...)
		} else {
			tx.TxOutputs[p.FeeIdx].ToAddr = []byte(w.users[0].Address)
		}
		expect = "reject"
	case "xroute": // the contract's real output number j goes to another address, same amount
		j, ok := idxArg(args, 0)
		if !ok || j >= p.NConOut {
			return nil, "n/a"
		}
		tx.TxOutputs[j].ToAddr = []byte(e.otherTo(tx.TxOutputs[j].ToAddr))
		expect = e.unlessStillPaid(p, tx)
	case "xamt": // the contract's real output number j (default: the first worth more than 1) is lowered by 1, the difference goes to the initiator
		dflt := p.NConOut
		for j := 0; j < p.NConOut; j++ {
			if new(big.Int).SetBytes(tx.TxOutputs[j].Amount).Int64() > 1 {
				dflt = j
				break
			}
		}
		j, ok := idxArg(args, dflt)
		if !ok || j >= p.NConOut || new(big.Int).SetBytes(tx.TxOutputs[j].Amount).Int64() <= 1 {
			return nil, "n/a"
		}
		a := new(big.Int).SetBytes(tx.TxOutputs[j].Amount)
		tx.TxOutputs[j].Amount = a.Sub(a, big.NewInt(1)).Bytes()
		tx.TxOutputs = append(tx.TxOutputs, &protos.TxOutput{ToAddr: []byte(w.users[0].Address), Amount: big.NewInt(1).Bytes()})
		expect = e.unlessStillPaid(p, tx)
	case "xboth": // output number j goes to another address in the declaration (transient ContractUtxo.Outputs) and in the real outputs alike
		j, ok := idxArg(args, 0)
		dOut, err := xmodel.ParseContractUtxoOutputs(tx)
		if !ok || err != nil || j >= p.NConOut || j >= len(dOut) {
			return nil, "n/a"
		}
		to := e.otherTo(dOut[j].ToAddr)
		dOut[j].ToAddr = []byte(to)
		tx.TxOutputs[j].ToAddr = []byte(to)
		if !setTransient(tx, "ContractUtxo.Outputs", dOut) {
			return nil, "n/a"
		}
		expect = "reject"
	case "xswap": // the first two declared contract outputs change places (declaration only)
		dOut, err := xmodel.ParseContractUtxoOutputs(tx)
		if err != nil || len(dOut) < 2 || proto.Equal(dOut[0], dOut[1]) {
			return nil, "n/a"
		}
		dOut[0], dOut[1] = dOut[1], dOut[0]
		if !setTransient(tx, "ContractUtxo.Outputs", dOut) {
			return nil, "n/a"
		}
	case "idrop": // declared contract input number j is dropped from the declaration (the real input stays)
		j, ok := idxArg(args, 0)
		dIn, err := xmodel.ParseContractUtxoInputs(tx)
		if !ok || err != nil || j >= len(dIn) {
			return nil, "n/a"
		}
		dIn = append(dIn[:j:j], dIn[j+1:]...)
		if !setTransient(tx, "ContractUtxo.Inputs", dIn) {
			return nil, "n/a"
		}
		expect = "reject"
	case "iswap": // the first two declared contract inputs change places
		dIn, err := xmodel.ParseContractUtxoInputs(tx)
		if err != nil || len(dIn) < 2 {
			return nil, "n/a"
		}
		dIn[0], dIn[1] = dIn[1], dIn[0]
		if !setTransient(tx, "ContractUtxo.Inputs", dIn) {
			return nil, "n/a"
		}
	case "iadd": // a further unspent output of the paying account is declared as a contract input (no signature of its owner
		// is asked for a declared contract input), spent as a real input and paid out to the initiator
		ins, _, total, err := w.n.S.SelectUtxos(w.bank.Address, big.NewInt(1), true, false)
		if err != nil || len(ins) != 1 {
			return nil, "n/a"
		}
		dIn, err := xmodel.ParseContractUtxoInputs(tx)
		if err != nil {
			return nil, "n/a"
		}
		dIn = append(dIn, ins[0])
		if !setTransient(tx, "ContractUtxo.Inputs", dIn) {
			return nil, "n/a"
		}
		tx.TxInputs = append(tx.TxInputs, ins[0])
		tx.TxOutputs = append(tx.TxOutputs, &protos.TxOutput{ToAddr: []byte(w.users[0].Address), Amount: total.Bytes()})
		expect = "reject"
	case "isub": // declared contract input number j and the real input spending it are replaced by an output of the same
		// worth that belongs to a bystander (no signature of the owner is asked for a declared contract input)
		j, ok := idxArg(args, 0)
		dIn, err := xmodel.ParseContractUtxoInputs(tx)
		if !ok || err != nil || j >= len(dIn) || j >= p.NConIn {
			return nil, "n/a"
		}
		need := new(big.Int).SetBytes(dIn[j].Amount)
		if need.Int64() != w.bankU {
			return nil, "n/a"
		}
		ins, _, _, err := w.n.S.SelectUtxos(w.users[4].Address, need, true, false)
		if err != nil || len(ins) != 1 {
			return nil, "n/a"
		}
		dIn[j] = ins[0]
		tx.TxInputs[j] = ins[0]
		if !setTransient(tx, "ContractUtxo.Inputs", dIn) {
			return nil, "n/a"
		}
		expect = "reject"
	case "inreal", "ishort":
		// inreal: the real input spending declared contract input number j is replaced by outputs of the initiator;
		// ishort: that declared contract input is dropped from the declaration as well, so the transaction balances
		// but the declared contract inputs no longer cover the contract's transfers
		j, ok := idxArg(args, 0)
		dIn, perr := xmodel.ParseContractUtxoInputs(tx)
		if !ok || perr != nil || j >= p.NConIn || j >= len(dIn) {
			return nil, "n/a"
		}
		need := new(big.Int).SetBytes(tx.TxInputs[j].Amount)
		ins, _, total, err := w.n.S.SelectUtxos(w.users[0].Address, need, true, false)
		if err != nil {
			return nil, "n/a"
		}
		tx.TxInputs = append(append(tx.TxInputs[:j:j], tx.TxInputs[j+1:]...), ins...)
		if chg := new(big.Int).Sub(total, need); chg.Sign() > 0 {
			tx.TxOutputs = append(tx.TxOutputs, &protos.TxOutput{ToAddr: []byte(w.users[0].Address), Amount: chg.Bytes()})
		}
		if class == "ishort" {
			dIn = append(dIn[:j:j], dIn[j+1:]...)
			if !setTransient(tx, "ContractUtxo.Inputs", dIn) {
				return nil, "n/a"
			}
		}
		expect = "reject"
	case "xdecl": // the declared transfer (transient ContractUtxo.Outputs) is dropped from the write set
		i := -1
		for j, o := range tx.TxOutputsExt {
			if o.Bucket == xmodel.TransientBucket && string(o.Key) == "ContractUtxo.Outputs" {
				i = j
			}
		}
		if i < 0 {
			return nil, "n/a"
		}
		tx.TxOutputsExt = append(tx.TxOutputsExt[:i:i], tx.TxOutputsExt[i+1:]...)
		expect = "reject"
	case "evt": // a declared event is changed
		i := -1
		for j, o := range tx.TxOutputsExt {
			if o.Bucket == xmodel.TransientBucket && string(o.Key) == "contractEvent" {
				i = j
			}
		}
		if i < 0 {
			return nil, "n/a"
		}
		buf, _ := xmodel.MarshalMessages([]*protos.ContractEvent{{Contract: topContract, Name: "forged", Body: []byte("x")}})
		tx.TxOutputsExt[i].Value = buf
		expect = "reject"
	case "evdrop":
		i := -1
		for j, o := range tx.TxOutputsExt {
			if o.Bucket == xmodel.TransientBucket && string(o.Key) == "contractEvent" {
				i = j
			}
		}
		if i < 0 {
			return nil, "n/a"
		}
		tx.TxOutputsExt = append(tx.TxOutputsExt[:i:i], tx.TxOutputsExt[i+1:]...)
		expect = "reject"
	case "noreq": // the requests, the read set and the stored writes are dropped: only the transient declarations
		// (contract transfer, events) remain, with nothing that could have produced them
		var keep []*protos.TxOutputExt
		for _, o := range tx.TxOutputsExt {
			if o.Bucket == xmodel.TransientBucket {
				keep = append(keep, o)
			}
		}
		if len(keep) == 0 {
			return nil, "n/a"
		}
		tx.ContractRequests = nil
		tx.TxInputsExt = nil
		tx.TxOutputsExt = keep
		expect = "reject"
	case "wdup", "wswap", "wdd", "wcopy":
		// multiset mutations of the declared write set: the list TxOutputsExt itself, positions counting the transient
		// entries (ContractUtxo.Inputs / ContractUtxo.Outputs / contractEvent) too. A list in which an entry stands twice
		// is the write set of no execution; the same entries in another order are the same write set.
		ext := tx.TxOutputsExt
		cp := func(j int) *protos.TxOutputExt { return proto.Clone(ext[j]).(*protos.TxOutputExt) }
		var extra []*protos.TxOutputExt
		dropped := -1
		ok := listEdit(class[1:], args, len(ext),
			func(i, j int) { ext[i] = cp(j) },
			func(i, j int) { ext[i], ext[j] = ext[j], ext[i] },
			func(i int) { dropped = i },
			func(j int) { extra = append(extra, cp(j)) })
		if !ok {
			return nil, "n/a"
		}
		if dropped >= 0 {
			ext = append(ext[:dropped:dropped], ext[dropped+1:]...)
		}
		tx.TxOutputsExt = append(ext, extra...)
		if class == "wswap" {
			expect = "accept"
		} else {
			expect = "reject"
		}
	case "rdup", "rswap", "rdd", "rcopy":
		// the same edits of the declared read set (positions in TxInputsExt): every declared version stays current; a
		// written key whose read is gone must be refused, otherwise the re-execution over the remaining reads decides
		ext := tx.TxInputsExt
		cp := func(j int) *protos.TxInputExt { return proto.Clone(ext[j]).(*protos.TxInputExt) }
		var extra []*protos.TxInputExt
		dropped := -1
		gone := -1 // position of the read that is no longer declared
		ok := listEdit(class[1:], args, len(ext),
			func(i, j int) { gone = i; ext[i] = cp(j) },
			func(i, j int) { ext[i], ext[j] = ext[j], ext[i] },
			func(i int) { dropped, gone = i, i },
			func(j int) { extra = append(extra, cp(j)) })
		if !ok {
			return nil, "n/a"
		}
		if gone >= 0 {
			g := p.Tx.TxInputsExt[gone]
			if findRW(p.W, bucketNo[g.Bucket], keyNo(g.Key)) >= 0 {
				expect = "reject"
			}
		}
		if dropped >= 0 {
			ext = append(ext[:dropped:dropped], ext[dropped+1:]...)
		}
		tx.TxInputsExt = append(ext, extra...)
	case "xdup", "xdupb":
		// declared contract output i replaced by a copy of declared contract output j (xdupb: the real output alike):
		// not what re-executing the request produces
		dOut, err := xmodel.ParseContractUtxoOutputs(tx)
		if err != nil {
			return nil, "n/a"
		}
		n := len(dOut)
		if p.NConOut < n {
			n = p.NConOut
		}
		i, j, ok := twoIdx(args, n)
		if !ok || proto.Equal(dOut[i], dOut[j]) {
			return nil, "n/a"
		}
		dOut[i] = proto.Clone(dOut[j]).(*protos.TxOutput)
		if class == "xdupb" {
			tx.TxOutputs[i] = proto.Clone(tx.TxOutputs[j]).(*protos.TxOutput)
		}
		if !setTransient(tx, "ContractUtxo.Outputs", dOut) {
			return nil, "n/a"
		}
		expect = "reject"
	case "idup":
		// declared contract input i replaced by a copy of declared contract input j; the real input that spent it is
		// replaced by outputs of the initiator (so that no signature is missing): decided by the re-execution over the
		// declared inputs
		dIn, perr := xmodel.ParseContractUtxoInputs(tx)
		if perr != nil {
			return nil, "n/a"
		}
		n := len(dIn)
		if p.NConIn < n {
			n = p.NConIn
		}
		i, j, ok := twoIdx(args, n)
		if !ok {
			return nil, "n/a"
		}
		need := new(big.Int).SetBytes(tx.TxInputs[i].Amount)
		ins, _, total, err := w.n.S.SelectUtxos(w.users[0].Address, need, true, false)
		if err != nil {
			return nil, "n/a"
		}
		dIn[i] = proto.Clone(dIn[j]).(*protos.TxInput)
		tx.TxInputs = append(append(tx.TxInputs[:i:i], tx.TxInputs[i+1:]...), ins...)
		if chg := new(big.Int).Sub(total, need); chg.Sign() > 0 {
			tx.TxOutputs = append(tx.TxOutputs, &protos.TxOutput{ToAddr: []byte(w.users[0].Address), Amount: chg.Bytes()})
		}
		if !setTransient(tx, "ContractUtxo.Inputs", dIn) {
			return nil, "n/a"
		}
	case "evdup", "evswap":
		// declared events: one replaced by a copy of another / two swapped (the order of events is part of what the
		// re-execution produces)
		ti := transientIdx(tx, "contractEvent")
		if ti < 0 {
			return nil, "n/a"
		}
		var evs []*protos.ContractEvent
		if err := xmodel.UnmsarshalMessages(tx.TxOutputsExt[ti].Value, &evs); err != nil {
			return nil, "n/a"
		}
		i, j, ok := twoIdx(args, len(evs))
		if !ok || proto.Equal(evs[i], evs[j]) {
			return nil, "n/a"
		}
		if class == "evdup" {
			evs[i] = proto.Clone(evs[j]).(*protos.ContractEvent)
		} else {
			evs[i], evs[j] = evs[j], evs[i]
		}
		buf, err := xmodel.MarshalMessages(evs)
		if err != nil {
			return nil, "n/a"
		}
		tx.TxOutputsExt[ti].Value = buf
		expect = "reject"
	case "same": // the unmodified transaction (control)
		if p.Outcome == "ok" {
			expect = "accept"
		}
	default:
		return nil, "n/a"
	}
	// a transaction that is not acceptable to begin with (failed call; nested-call resources, see nestedExceeds)
	// stays unacceptable under every mutation that keeps its request
	if (p.Outcome != "ok" || nestedExceeds(p.Prog)) && class != "args" && class != "contract" {
		expect = "reject"
	}
	tx, err := chainlib.Sign(tx, w.users[0])
	if err != nil {
		return nil, "n/a"
	}
	return tx, expect
}

// nestedExceeds: (for a program that ran to its end) some nested call uses more resources than the caller's own
// total leaves at that point. A kernel contract's reported use leaves out what its callees used
// (bridge.Context.ResourceUsed), so the limits PreExec returns do not cover such a callee: known finding
// nested-call-resources.
func nestedExceeds(prog string) bool {
	own, peak := int64(0), int64(0)
	for _, st := range strings.Split(prog, ";") {
		w := strings.Fields(st)
		if len(w) == 0 {
			continue
		}
		switch w[0] {
		case "burn":
			n, _ := strconv.ParseInt(w[1], 10, 64)
			own += n
		case "call":
			sub := int64(0)
			for _, cs := range strings.Split(strings.TrimSpace(strings.TrimPrefix(strings.TrimSpace(st), "call")), ",") {
				cw := strings.Fields(cs)
				if len(cw) == 2 && cw[0] == "burn" {
					n, _ := strconv.ParseInt(cw[1], 10, 64)
					sub += n
				}
			}
			if own+sub > peak {
				peak = own + sub
			}
		}
	}
	return peak > own
}

// ---------------------------------------------------------------- exec

func (e *Exec) exec(line string) (ans string) {
	defer func() {
		if r := recover(); r != nil {
			ans = "panic"
			e.caseOps = append(e.caseOps, line)
			e.violate("panic", fmt.Sprintf("panic in %q: %v", line, r))
		}
	}()
	f := strings.Fields(line)
	if len(f) == 0 {
		return "bad-op"
	}
	if f[0] == "reset" {
		e.caseOps, e.caseOut = nil, nil
	}
	e.noteOp(line, f[0] == "reset")
	e.caseOps = append(e.caseOps, line)
	ans = e.exec1(f, line)
	e.caseOut = append(e.caseOut, ans)
	return ans
}

func (e *Exec) exec1(f []string, line string) string {
	switch f[0] {
	case "reset":
		if len(f) < 2 || len(f) > 3 || (f[1] != "fee=0" && f[1] != "fee=1") {
			return "bad-op"
		}
		bankU, bankN := int64(1000000), 40
		if len(f) == 3 {
			var u, n int
			if c, err := fmt.Sscanf(f[2], "bank=%dx%d", &u, &n); c != 2 || err != nil || u <= 0 || n < 0 || n > 1000 || int64(u)*int64(n+6) > 50000000 {
				return "bad-op"
			}
			bankU, bankN = int64(u), n
		}
		if err := e.newWorld(f[1] == "fee=1", bankU, bankN); err != nil {
			return "error:" + err.Error()
		}
		return "ok"
	case "pre":
		if len(f) < 3 || e.w == nil {
			return "bad-op"
		}
		prog := strings.TrimSpace(strings.SplitN(line, " ", 3)[2])
		before := observe(e.w.n, e.w).String()
		p := e.preexec(prog)
		e.w.slots[f[1]] = p
		if after := observe(e.w.n, e.w).String(); after != before {
			e.violate("preexec-changed-state", fmt.Sprintf("PreExec of %q changed the state: before {%s} after {%s}", prog, before, after))
		}
		e.count("pre:" + p.Outcome)
		if p.Outcome == "error" {
			return "error"
		}
		return rwLine(p)
	case "commit":
		if len(f) != 3 || e.w == nil || e.w.slots[f[1]] == nil {
			return "bad-op"
		}
		id, _ := strconv.Atoi(f[2])
		return e.commit(e.w.slots[f[1]], id)
	case "mut":
		if len(f) < 3 || e.w == nil || e.w.slots[f[1]] == nil {
			return "bad-op"
		}
		return e.mut(e.w.slots[f[1]], f[2], f[3:])
	case "race":
		if len(f) != 3 || e.w == nil || e.w.slots[f[1]] == nil || e.w.slots[f[2]] == nil {
			return "bad-op"
		}
		return e.race(e.w.slots[f[1]], e.w.slots[f[2]])
	case "fault":
		if len(f) < 4 || e.w == nil {
			return "bad-op"
		}
		return e.fault(f[1], f[2], strings.TrimSpace(strings.SplitN(line, " ", 4)[3]))
	case "mine":
		if e.w == nil {
			return "bad-op"
		}
		if err := e.mine(); err != nil {
			e.violate("mine-failed", "a block holding the accepted transactions cannot be produced / played: "+err.Error())
			return "fail"
		}
		return "ok"
	case "replica":
		if e.w == nil {
			return "bad-op"
		}
		return e.replica()
	}
	return "bad-op"
}

// commit submits the assembled transaction of a pending pre-execution through Chain.SubmitTx and evaluates
// oracle (a) accepted, (b) state delta == write set exactly, (c) contract transfers arrive.
func (e *Exec) commit(p *Pending, id int) string {
	w := e.w
	if p.Tx == nil {
		return "n/a"
	}
	before := observe(w.n, w)
	stale := e.isStale(p)
	err := w.ch.SubmitTx(&xctx.BaseCtx{XLog: w.n.Ctx.XLog}, cloneTx(p.Tx))
	after := observe(w.n, w)
	if err != nil {
		if after.String() != before.String() {
			e.violate("rejected-tx-left-trace", fmt.Sprintf("refused transaction changed the state: before {%s} after {%s}", before, after))
		}
		if p.Outcome == "ok" && !stale {
			key := "preexec-not-accepted"
			if nestedExceeds(p.Prog) {
				key = "preexec-not-accepted:nested-call-resources"
			} else if len(p.I) > 0 {
				// the call made token transfers: say how they were covered (the token side of the re-execution
				// runs over sandbox.UTXOReader of the declared inputs)
				key = "preexec-not-accepted:transfer" + e.coverShape(p)
			}
			e.violate(key, fmt.Sprintf("the transaction assembled from PreExec(%q) was refused against the same state: %v", p.Prog, err))
		}
		e.count("commit:reject")
		return "reject"
	}
	e.count("commit:accept")
	if stale {
		e.violate("stale-read-accepted", fmt.Sprintf("transaction of %q accepted although a key of its read set was overwritten after its pre-execution", p.Prog))
	}
	if p.Outcome != "ok" {
		e.violate("failed-call-committed", fmt.Sprintf("the call %q failed (status >= 400) and its transaction was accepted; effects: W=%v X=%v", p.Prog, p.W, p.X))
	}
	w.txno[string(p.Tx.Txid)] = id
	e.checkDelta(p, p.Tx, before, after, "commit")
	e.sweep(p)
	return "accept"
}

// coverShape classifies how the transfers of a pre-execution were covered by the inputs selected for them:
// ":exact" if some transfer left no change (fewer outputs than two per payment), else "".
func (e *Exec) coverShape(p *Pending) string {
	if rq := requestedTransfers(p.Prog); len(p.X) < 2*len(rq) {
		return ":exact"
	}
	return ""
}

// sweep: every output of an accepted transaction that went to the paying account (change of a contract transfer, a
// payment to the account itself) is spent at once by a plain transfer of that account to a sink address, so that the
// account's unspent outputs stay all of the same worth (see newWorld); likewise every payment of the contract to the
// initiator, so that the inputs selected for the fee stay large and their change cannot be worth what a small contract
// output is worth (see unlessStillPaid). That the outputs the commit created can be spent is part of "committing it
// changes exactly the outputs of that write set".
func (e *Exec) sweep(p *Pending) {
	w := e.w
	tx := p.Tx
	for _, owner := range []*xvlib.Account{w.bank, w.users[0]} {
		var ins []chainlib.Utxo
		total := big.NewInt(0)
		for i, o := range tx.TxOutputs {
			if string(o.ToAddr) == owner.Address && (owner == w.bank || i < p.NConOut) {
				a := new(big.Int).SetBytes(o.Amount)
				ins = append(ins, chainlib.Utxo{Addr: owner.Address, RefTx: tx.Txid, Offset: int32(i), Amount: a})
				total.Add(total, a)
			}
		}
		if len(ins) == 0 {
			continue
		}
		st, err := chainlib.TransferTx(owner, ins, []chainlib.Out{{To: w.sink, Amount: total}}, "sweep")
		if err == nil {
			if ok, verr := w.n.S.VerifyTx(st); verr != nil || !ok {
				err = fmt.Errorf("verify: %v", verr)
			} else if derr := w.n.S.DoTx(st); derr != nil {
				err = fmt.Errorf("dotx: %v", derr)
			}
		}
		if err != nil {
			e.violate("contract-output-not-spendable", fmt.Sprintf("the outputs the accepted transaction created for %s cannot be spent by their owner: %v", owner.Address, err))
		}
	}
}

// isStale: some declared read of the pending transaction is no longer the current version.
func (e *Exec) isStale(p *Pending) bool { return e.isStaleTx(p.Tx) }

func (e *Exec) isStaleTx(tx *pb.Transaction) bool {
	rd := e.w.n.S.CreateXMReader()
	for _, in := range tx.TxInputsExt {
		vd, err := rd.Get(in.Bucket, in.Key)
		if err != nil {
			return true
		}
		if !bytes.Equal(vd.RefTxid, in.RefTxid) || vd.RefOffset != in.RefOffset {
			return true
		}
	}
	return false
}

// checkDelta: oracle (b)+(c) — after accepting tx, exactly the keys of its write set (transient bucket aside)
// changed, to exactly the declared values with version (txid, offset); every other key and raw row is as before;
// the transient bucket is not stored; every contract transfer reached its receiver and the initiator paid them + the fee.
func (e *Exec) checkDelta(p *Pending, tx *pb.Transaction, before, after *Obs, tag string) {
	want := map[string]KVObs{}
	for k, v := range before.KV {
		want[k] = v
	}
	for off, o := range tx.TxOutputsExt {
		if o.Bucket == xmodel.TransientBucket {
			continue
		}
		want[fmt.Sprintf("%d:%d", bucketNo[o.Bucket], keyNo(o.Key))] = KVObs{Val: valNo(o.Value), Ver: fmt.Sprintf("%x.%d", tx.Txid, off)}
	}
	var diffs []string
	for k, v := range want {
		if after.KV[k] != v {
			diffs = append(diffs, fmt.Sprintf("%s: have %v want %v", k, after.KV[k], v))
		}
	}
	sort.Strings(diffs)
	if len(diffs) > 0 {
		e.violate("commit-delta-differs", fmt.Sprintf("%s of %q: state after differs from state before + write set: %s", tag, p.Prog, strings.Join(diffs, "; ")))
	}
	// raw rows
	wantRows := map[string]string{}
	for _, r := range before.Rows {
		i := strings.Index(r, "=")
		wantRows[r[:i]] = r[i+1:]
	}
	for off, o := range tx.TxOutputsExt {
		if o.Bucket == xmodel.TransientBucket {
			continue
		}
		raw := o.Bucket + "/" + string(o.Key)
		ver := hex.EncodeToString([]byte(xmodel.MakeVersion(tx.Txid, int32(off))))
		if valNo(o.Value) == 0 {
			delete(wantRows, pb.ExtUtxoTablePrefix+raw)
			wantRows[pb.ExtUtxoDelTablePrefix+raw] = ver
		} else {
			wantRows[pb.ExtUtxoTablePrefix+raw] = ver
		}
	}
	haveRows := map[string]string{}
	for _, r := range after.Rows {
		i := strings.Index(r, "=")
		haveRows[r[:i]] = r[i+1:]
		if strings.Contains(r[:i], "$transient") {
			e.violate("transient-stored", "a row of the transient bucket was stored: "+r[:i])
		}
	}
	var rd []string
	for k, v := range wantRows {
		if haveRows[k] != v {
			rd = append(rd, k)
		}
	}
	for k := range haveRows {
		if _, ok := wantRows[k]; !ok {
			rd = append(rd, k)
		}
	}
	sort.Strings(rd)
	if len(rd) > 0 {
		e.violate("commit-rows-differ", fmt.Sprintf("%s of %q: raw ZU/ZD rows differ from rows before + write set at %s", tag, p.Prog, strings.Join(rd, ",")))
	}
	// transfers: every receiver gains what the contract's outputs give it, the paying account loses the inputs the
	// contract selected (and gains its change), the initiator pays the fee
	gain := map[int]int64{}
	for _, x := range p.X {
		gain[x[0]] += int64(x[1])
	}
	for _, a := range p.I {
		gain[bankNo] -= int64(a)
	}
	gain[0] -= p.Gas
	for i := range e.w.users {
		b0, _ := new(big.Int).SetString(before.Bal[i], 10)
		b1, _ := new(big.Int).SetString(after.Bal[i], 10)
		d := new(big.Int).Sub(b1, b0).Int64()
		if d != gain[i] {
			e.violate("transfer-not-effective", fmt.Sprintf("%s of %q: balance of u%d changed by %d, the contract's token inputs %v and outputs %v (+ fee %d) require %d", tag, p.Prog, i, d, p.I, p.X, p.Gas, gain[i]))
		}
	}
}

func (e *Exec) mut(p *Pending, class string, args []string) string {
	w := e.w
	tx, expect := e.mutate(p, class, args)
	if tx == nil {
		return "n/a"
	}
	if e.isStaleTx(tx) {
		// the (mutated) transaction declares a read that is not the current version
		expect = "reject"
	}
	e.mutCount++
	before := observe(w.n, w)
	verdict := "reject"
	ok, verr := w.n.S.VerifyTx(cloneTx(tx))
	if after := observe(w.n, w); after.String() != before.String() {
		e.violate("verify-changed-state", fmt.Sprintf("VerifyTx of a %s mutant changed the state", class))
	}
	var blockOK, blockRun bool
	if ok && verr == nil {
		// accepted by verification: apply on a copy of the node
		c, err := e.copyNode()
		if err != nil {
			return "error:" + err.Error()
		}
		cb := observe(c, w)
		if derr := c.S.DoTx(cloneTx(tx)); derr == nil {
			verdict = "accept"
			if class == "same" || class == "wperm" || class == "radd" || class == "iswap" || class == "wswap" || class == "rswap" ||
				class == "rcopy" || class == "rdup" || class == "rdd" {
				e.checkDelta(p, tx, cb, observe(c, w), "mutant "+class)
			}
		} else if ca := observe(c, w); ca.String() != cb.String() {
			e.violate("rejected-tx-left-trace", fmt.Sprintf("DoTx refused a %s mutant and changed the state: before {%s} after {%s}", class, cb, ca))
		}
		kvmem.Drop(c.Root)
	}
	if e.blockEvery > 0 && (e.mutCount%e.blockEvery == 0 || verdict == "accept") {
		b, err := e.blockVerdict(tx)
		if err == nil {
			blockRun, blockOK = true, b
		}
	}
	stage := ""
	if verdict == "reject" {
		stage = "-d" // refused by DoTx only
		if !(ok && verr == nil) {
			stage = "-v" // refused by VerifyTx
		} else if e.isStaleTx(tx) {
			e.violate("verifytx-accepts-stale-read", fmt.Sprintf("VerifyTx accepted the %s mutant %v of %q although a declared read is not the current version (only DoTx refused it)", class, args, p.Prog))
		}
	}
	e.count("mut:" + class + ":" + verdict + stage)
	if blockRun && blockOK != (verdict == "accept") {
		e.violate("block-path-differs:"+class, fmt.Sprintf("mutant %s %v of %q: submission says %s, a replica playing a block with it says accept=%v", class, args, p.Prog, verdict, blockOK))
	}
	if p.Outcome != "ok" && verdict == "accept" && class != "args" && class != "contract" {
		e.violate("failed-call-committed", fmt.Sprintf("the call %q failed and its transaction (%s) was accepted", p.Prog, class))
		return verdict
	}
	if expect != "" && expect != verdict {
		if verdict == "accept" {
			key := "tampered-accepted:" + class
			if j, ok := idxArg(args, 0); (class == "xroute" || class == "xamt") && len(args) == 1 && ok && j < len(p.X) {
				// another root cause than a missing comparison: the re-routed output has an identical twin among the
				// contract's outputs, which still stands for it
				n := 0
				for _, x := range p.X {
					if x == p.X[j] {
						n++
					}
				}
				if n > 1 {
					key += ":twin"
				}
			}
			e.violate(key, fmt.Sprintf("mutant %s %v of the transaction of %q was accepted (VerifyTx + DoTx)", class, args, p.Prog))
		} else {
			e.violate("valid-rejected:"+class, fmt.Sprintf("variant %s %v of the transaction of %q was refused", class, args, p.Prog))
		}
	}
	return verdict + stage
}

// replica: a fresh node that receives the blocks of the main node must play them and reach the same state.
func (e *Exec) replica() string {
	w := e.w
	if pend, _ := w.n.S.GetUnconfirmedTx(false); len(pend) > 0 {
		if err := e.mine(); err != nil {
			e.violate("mine-failed", "a block holding the accepted transactions cannot be produced / played: "+err.Error())
			return "fail"
		}
	}
	r, err := chainlib.NewNode(e.scratch, "replica", w.n.Genesis, xvlib.NewAccount(21))
	if err != nil {
		return "error:" + err.Error()
	}
	defer kvmem.Drop(r.Root)
	registerXvc(r.CM, w.addrOf)
	for i, b := range w.blocks[1:] {
		st := r.L.ConfirmBlock(chainlib.CloneBlock(b), false)
		if !st.Succ {
			e.violate("replica-refuses-block", fmt.Sprintf("a fresh node cannot store block %d", i+1))
			return "fail"
		}
		if err := r.S.Play(b.Blockid); err != nil {
			e.violate("replica-refuses-block", fmt.Sprintf("a fresh node cannot play block %d holding accepted contract transactions: %v", i+1, err))
			return "fail"
		}
	}
	a, b := observe(w.n, w).String(), observe(r, w).String()
	if a != b {
		e.violate("replica-state-differs", fmt.Sprintf("node {%s} vs fresh node that played its blocks {%s}", a, b))
		return "differ"
	}
	return "same"
}
