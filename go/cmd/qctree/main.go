// Engine `qctree` (C15): drives the real QCPendingTree (chained-bft/context.go) and the real
// DefaultPaceMaker, one tree per case: through the public Smr entry points used by tdpos/xpoa where
// they exist (Smr.UpdateQcStatus, Smr.UpdateJustifyQcStatus, Smr.EnforceUpdateHighQC, GetHighQC,
// GetGenericQC) and through the `verif` export shim for the package-private mutators.
//
// op lines (also the input of the Lean driver `xvdriver qctree`); ids are small naturals, the
// initial root is proposal 0 (view 0, no parent); `-` is the nil parent id:
//
//	reset                                  = reset 1 0: the tree common.InitQCTree builds on a fresh chain (ledger = genesis block only):
//	                                       Genesis = Root = HighQC = CommitQC = proposal 0; pacemaker view 0       -> ok <dump>
//	reset <start> <tip>                    the tree the REAL common.InitQCTree(start, ledger, log) builds from a ledger whose main chain
//	                                       is the blocks of heights 0..tip (block of height h = proposal h, view h, parent h-1; block 0
//	                                       has no parent): fresh start (tip <= start), restart at tip 0, 1, 2, >= 3, unusable start
//	                                       heights (block start-1 not on the ledger: InitQCTree answers nil) -> ok <dump> | nil
//	                                       after `nil` every op of the case answers `no-tree`
//	ins <id> <view> <parent|-> <pview>     Smr.UpdateQcStatus(node) = updateQcStatus(node)   -> ok|err <dump>
//	high <id>                              updateHighQC(id) (odd ids: via Smr.UpdateJustifyQcStatus) -> ok <dump>
//	enforce <id>                           Smr.EnforceUpdateHighQC(id)     -> ok|err <dump>
//	commit <id>                            updateCommit(id)                -> ok <dump>
//	prop <id> <view> <parent> <pview> <c>  tree part of handleReceivedProposal: pacemaker.AdvanceView(justify);
//	                                       c=1: updateCommit(parent); updateQcStatus(node)   -> ok|err <dump>
//	vote <id>                              tree part of handleReceivedVoteMsg at quorum: AdvanceView(id's view); updateHighQC(id)
//	pm <view>                              DefaultPaceMaker.AdvanceView(qc of that view) -> view <current>
//	dump                                                                    -> ok <dump>
//	conc <k> <seed> [free]                 the case so far re-run as k independent trees driven at the same time (conc.go)
//
// Views are int64 on both sides (any int64 is accepted in ins / prop / pm: MaxInt64, MinInt64 and negative views are
// generated on purpose; a view outside int64 is a bad-op). The model gives the arithmetic of the translated guards
// two's-complement semantics (XV.Gen.wrap64).
//
// dump = R=<root> H=<high> G=<generic|-> L=<locked|-> C=<commit|-> P=<pacemaker view>
//
//	T=<parent:son,son;...> (main tree, every node object with sons, sorted)
//	O=<orphan roots, sorted> F=<edges of the orphan forest> M=<ids in OrphanMap, sorted>
//
// The impl-side oracle (check) walks the dumped pointer structure after EVERY op and evaluates
// property C15 directly; it does not use the model.
package main

import (
	"encoding/hex"
	"errors"
	"fmt"
	"math"
	"path/filepath"
	"sort"
	"strconv"
	"strings"
	"sync"

	common "github.com/xuperchain/xupercore/kernel/consensus/base/common"
	bft "github.com/xuperchain/xupercore/kernel/consensus/base/driver/chained-bft"
	bftpb "github.com/xuperchain/xupercore/kernel/consensus/base/driver/chained-bft/pb"
	"github.com/xuperchain/xupercore/kernel/ledger"
	"github.com/xuperchain/xupercore/lib/logs"
	"xv/xvlib"
)

// ---------------------------------------------------------------- ids

func idBytes(n int) []byte { return []byte("p" + strconv.Itoa(n)) }

func idNum(b []byte) int {
	if b == nil {
		return -1
	}
	s := string(b)
	if len(s) < 2 || s[0] != 'p' {
		return -2
	}
	n, err := strconv.Atoi(s[1:])
	if err != nil {
		return -2
	}
	return n
}

func nodeID(n *bft.ProposalNode) int {
	if n == nil {
		return -1
	}
	return idNum(n.In.GetProposalId())
}

func optStr(n int) string {
	if n < 0 {
		return "-"
	}
	return strconv.Itoa(n)
}

// ---------------------------------------------------------------- case state

type world struct {
	tree *bft.QCPendingTree
	pm   *bft.DefaultPaceMaker
	smr  *bft.Smr // the public entry points used by tdpos/xpoa (UpdateQcStatus, UpdateJustifyQcStatus, EnforceUpdateHighQC) go through it
	// oracle bookkeeping (per case)
	start, tip int        // the ledger the tree was initialised from: consensus start height, tip height (blocks 0..tip)
	gone     map[int]bool // ids that were stored and legitimately dropped (pruned by commit / expired orphan)
	accepted map[int]bool // ids whose ins returned ok
	ops      []string
	impl     []string
	th       *thread // set for a tree driven by a thread of a `conc` op (conc.go): its certificates yield in GetProposalId
}

var (
	logger logs.Logger
	w      *world
	info   = func(string) {} // statistics that are not violations
)

// ---------------------------------------------------------------- the ledger InitQCTree reads

// fakeBlock / fakeLedger: a main chain of blocks 0..tip; the block of height h has id idBytes(h) and
// PreHash idBytes(h-1) (none for h = 0). Heights outside 0..tip are not found, as in the real ledger.
type fakeBlock struct{ h int64 }

func (b *fakeBlock) GetProposer() []byte { return []byte("xv-miner") }
func (b *fakeBlock) GetHeight() int64   { return b.h }
func (b *fakeBlock) GetBlockid() []byte { return idBytes(int(b.h)) }
func (b *fakeBlock) GetConsensusStorage() ([]byte, error) {
	return nil, errors.New("no consensus storage")
}
func (b *fakeBlock) GetTimestamp() int64                          { return b.h }
func (b *fakeBlock) SetItem(item string, value interface{}) error { return nil }
func (b *fakeBlock) MakeBlockId() ([]byte, error)                 { return b.GetBlockid(), nil }
func (b *fakeBlock) GetPreHash() []byte {
	if b.h == 0 {
		return nil
	}
	return idBytes(int(b.h - 1))
}
func (b *fakeBlock) GetNextHash() []byte { return nil }
func (b *fakeBlock) GetPublicKey() string { return "" }
func (b *fakeBlock) GetSign() []byte      { return nil }
func (b *fakeBlock) GetTxIDs() []string   { return nil }
func (b *fakeBlock) GetInTrunk() bool     { return true }

type fakeLedger struct{ tip int64 }

var errNoBlock = errors.New("block not found")

func (l *fakeLedger) GetConsensusConf() ([]byte, error) { return nil, errNoBlock }
func (l *fakeLedger) QueryBlock(id []byte) (ledger.BlockHandle, error) {
	return l.QueryBlockByHeight(int64(idNum(id)))
}
func (l *fakeLedger) QueryBlockByHeight(h int64) (ledger.BlockHandle, error) {
	if h < 0 || h > l.tip {
		return nil, errNoBlock
	}
	return &fakeBlock{h: h}, nil
}
func (l *fakeLedger) GetTipBlock() ledger.BlockHandle { return &fakeBlock{h: l.tip} }
func (l *fakeLedger) GetTipXMSnapshotReader() (ledger.XMSnapshotReader, error) {
	return nil, errNoBlock
}
func (l *fakeLedger) CreateSnapshot(blkId []byte) (ledger.XMReader, error) { return nil, errNoBlock }
func (l *fakeLedger) GetTipSnapshot() (ledger.XMReader, error)             { return nil, errNoBlock }

// newWorld builds the case's tree with the real InitQCTree; status "nil" = no tree, "panic".
func newWorld(start, tip int) (x *world, status string) {
	x = &world{gone: map[int]bool{}, accepted: map[int]bool{}, start: start, tip: tip, pm: &bft.DefaultPaceMaker{}}
	defer func() {
		if r := recover(); r != nil {
			x.tree, x.smr, status = nil, nil, "panic"
		}
	}()
	tree := common.InitQCTree(int64(start), &fakeLedger{tip: int64(tip)}, logger)
	if tree == nil {
		return x, "nil"
	}
	x.tree = tree
	// no network, no crypto, no election: the ops below never reach them
	x.smr = bft.NewSmr("xv", "xv-node", logger, nil, nil, x.pm, &bft.DefaultSaftyRules{QcTree: tree, Log: logger}, nil, tree)
	return x, "ok"
}

// snap is what the oracle and the canonical dump are computed from.
type snap struct {
	root, high, gen, lock, commit int
	highView                      int64
	pmView                        int64
	mainCnt, orphCnt              map[int]int // occurrences of each id (node objects met by the walk)
	view                          map[int]int64
	parentID                      map[int]int // ParentId field of (the first object of) each stored id
	orphRoots                     []int       // in list order
	orphRootOf                    map[int]int // id -> orphan root it hangs under (first occurrence)
	edgeBad                       []string    // edges whose ParentId does not name the holder
	tEntries, fEntries            []entry     // canonical edge entries
	omap                          []int       // ids in OrphanMap
	truncated                     bool        // walk hit the limit: not a finite forest
	rootView                      int64
	genesis                       int
	markerViews                   map[string]int64
	kids                          map[int][]int // sons of every node object of the tree below Root
	mainObjs                      map[*bft.ProposalNode]bool // the node objects reachable from Root
	nilSons                       []int                      // ids of node objects whose Sons slice holds a nil pointer
	noOrphanStore                 bool                       // OrphanList or OrphanMap is nil: the first orphan panics
}

// dumpWalk = QCPendingTree.VerifDump of the export shim (preorder over Root and every orphan root, the order of
// DFSQuery, bounded), done here over the exported fields so that a tree without an orphan list can still be walked.
func dumpWalk(t *bft.QCPendingTree, limit int) []bft.VerifDumpNode {
	var res []bft.VerifDumpNode
	var walk func(n, parent *bft.ProposalNode, orphan bool, depth int)
	walk = func(n, parent *bft.ProposalNode, orphan bool, depth int) {
		if n == nil || len(res) >= limit {
			return
		}
		res = append(res, bft.VerifDumpNode{Node: n, Parent: parent, Orphan: orphan, Depth: depth})
		for _, c := range n.Sons {
			walk(c, n, orphan, depth+1)
		}
	}
	walk(t.Root, nil, false, 0)
	if t.OrphanList != nil {
		for e := t.OrphanList.Front(); e != nil; e = e.Next() {
			if n, ok := e.Value.(*bft.ProposalNode); ok {
				walk(n, nil, true, 0)
			}
		}
	}
	return res
}

const walkLimit = 4000

func takeSnap(x *world) *snap {
	t := x.tree
	s := &snap{mainCnt: map[int]int{}, orphCnt: map[int]int{}, view: map[int]int64{}, parentID: map[int]int{}, orphRootOf: map[int]int{}, kids: map[int][]int{}, mainObjs: map[*bft.ProposalNode]bool{}}
	s.root, s.high, s.gen, s.lock, s.commit = nodeID(t.Root), nodeID(t.HighQC), nodeID(t.GenericQC), nodeID(t.LockedQC), nodeID(t.CommitQC)
	s.genesis = nodeID(t.Genesis)
	if t.HighQC != nil {
		s.highView = t.HighQC.In.GetProposalView()
	}
	if t.Root != nil {
		s.rootView = t.Root.In.GetProposalView()
	}
	s.pmView = x.pm.GetCurrentView()
	walk := dumpWalk(t, walkLimit)
	s.truncated = len(walk) >= walkLimit
	s.noOrphanStore = t.OrphanList == nil || t.OrphanMap == nil
	curRoot := -1
	for _, d := range walk {
		id := nodeID(d.Node)
		if d.Orphan {
			if d.Parent == nil {
				curRoot = id
				s.orphRoots = append(s.orphRoots, id)
			}
			if s.orphCnt[id] == 0 {
				s.orphRootOf[id] = curRoot
			}
			s.orphCnt[id]++
		} else {
			s.mainCnt[id]++
			s.mainObjs[d.Node] = true
		}
		for _, c := range d.Node.Sons {
			if c == nil {
				s.nilSons = append(s.nilSons, id)
				break
			}
		}
		if _, ok := s.view[id]; !ok {
			s.view[id] = d.Node.In.GetProposalView()
			s.parentID[id] = idNum(d.Node.In.GetParentProposalId())
		}
		if d.Parent != nil && idNum(d.Node.In.GetParentProposalId()) != nodeID(d.Parent) {
			s.edgeBad = append(s.edgeBad, fmt.Sprintf("%d under %d but ParentId=%s", id, nodeID(d.Parent), optStr(idNum(d.Node.In.GetParentProposalId()))))
		}
		if len(d.Node.Sons) > 0 {
			var sons []int
			for _, c := range d.Node.Sons {
				sons = append(sons, nodeID(c))
			}
			sort.Ints(sons)
			e := entry{id, strconv.Itoa(id) + ":" + joinInts(sons)}
			if d.Orphan {
				s.fEntries = append(s.fEntries, e)
			} else {
				s.tEntries = append(s.tEntries, e)
				s.kids[id] = append(s.kids[id], sons...)
			}
		}
	}
	sortEntries(s.tEntries)
	sortEntries(s.fEntries)
	for k := range t.OrphanMap {
		b, err := hex.DecodeString(k)
		if err != nil {
			s.omap = append(s.omap, -2)
			continue
		}
		s.omap = append(s.omap, idNum(b))
	}
	sort.Ints(s.omap)
	return s
}

func joinInts(a []int) string {
	var b []string
	for _, x := range a {
		b = append(b, strconv.Itoa(x))
	}
	return strings.Join(b, ",")
}

type entry struct {
	id int
	s  string
}

func sortEntries(es []entry) {
	sort.Slice(es, func(i, j int) bool {
		if es[i].id != es[j].id {
			return es[i].id < es[j].id
		}
		return es[i].s < es[j].s
	})
}

func trimEntries(es []entry) string {
	var b []string
	for _, e := range es {
		b = append(b, e.s)
	}
	return strings.Join(b, ";")
}

func (s *snap) dump() string {
	or := append([]int{}, s.orphRoots...)
	sort.Ints(or)
	return fmt.Sprintf("R=%d H=%s G=%s L=%s C=%s P=%d T=%s O=%s F=%s M=%s", s.root, optStr(s.high), optStr(s.gen), optStr(s.lock), optStr(s.commit),
		s.pmView, trimEntries(s.tEntries), joinInts(or), trimEntries(s.fEntries), joinInts(s.omap))
}

func (s *snap) stored(id int) int { return s.mainCnt[id] + s.orphCnt[id] }

// ---------------------------------------------------------------- oracle (property C15 on the real structure)

type viol struct{ key, what string }

// check evaluates C15 on the transition before --op--> after.
func check(x *world, op []string, okAns bool, before, after *snap) []viol {
	var vs []viol
	add := func(key, f string, a ...interface{}) { vs = append(vs, viol{key, fmt.Sprintf(f, a...)}) }
	// 1. the structure is a finite forest in which every id occurs at most once
	if after.truncated {
		add("not-a-forest", "walk of Root and the orphan list does not terminate within %d node objects (cycle)", walkLimit)
		return vs
	}
	ids := map[int]bool{}
	for id := range after.mainCnt {
		ids[id] = true
	}
	for id := range after.orphCnt {
		ids[id] = true
	}
	var sorted []int
	for id := range ids {
		sorted = append(sorted, id)
	}
	sort.Ints(sorted)
	for _, id := range sorted {
		switch {
		case after.mainCnt[id] > 0 && after.orphCnt[id] > 0:
			add("id-stored-twice:tree+orphan", "proposal %d is stored both in the tree and in the orphan forest", id)
		case after.mainCnt[id] > 1:
			add("id-stored-twice:tree", "proposal %d occurs %d times in the tree", id, after.mainCnt[id])
		case after.orphCnt[id] > 1:
			add("id-stored-twice:orphan", "proposal %d occurs %d times in the orphan forest", id, after.orphCnt[id])
		}
	}
	for _, id := range after.nilSons {
		add("nil-son", "the Sons slice of node %d holds a nil pointer", id)
	}
	if after.noOrphanStore {
		add("orphan-store-missing", "OrphanList / OrphanMap of the tree is nil: a proposal whose parent has not arrived cannot be stored")
	}
	// 2. every non-root node hangs under the node its ParentId names
	for _, e := range after.edgeBad {
		add("parent-edge-mismatch", "node %s", e)
	}
	// 3. an orphan root whose parent is stored must have been attached to it
	for _, r := range after.orphRoots {
		p := after.parentID[r]
		if p < 0 {
			continue
		}
		if after.mainCnt[p] > 0 {
			add("orphan-not-adopted:parent-in-tree", "orphan root %d is not attached although its parent %d is in the tree", r, p)
		} else if after.orphCnt[p] > 0 {
			add("orphan-not-adopted:parent-in-orphan-forest", "orphan root %d is not attached although its parent %d is stored in the orphan forest (under orphan root %d)", r, p, after.orphRootOf[p])
		}
	}
	// 4. nothing is lost except by commit pruning / orphan expiry; an accepted proposal is stored
	keep := map[int]bool{} // what a commit must keep: the subtree (before) of the new Root
	if after.root != before.root {
		var mark func(id, depth int)
		mark = func(id, depth int) {
			if keep[id] || depth > walkLimit {
				return
			}
			keep[id] = true
			for _, c := range before.kids[id] {
				mark(c, depth+1)
			}
		}
		mark(after.root, 0)
	}
	for id := range before.mainCnt {
		if after.stored(id) == 0 {
			if (op[0] == "commit" || op[0] == "prop") && after.root != before.root && !keep[id] {
				x.gone[id] = true
			} else if op[0] == "commit" || op[0] == "prop" {
				add("proposal-lost:commit", "proposal %d, a descendant of the new Root %d, was dropped by the commit", id, after.root)
			} else {
				add("proposal-lost:tree", "proposal %d left the tree during %s", id, op[0])
			}
		}
	}
	for id := range before.orphCnt {
		if after.stored(id) == 0 {
			r := before.orphRootOf[id]
			if (op[0] == "ins" || op[0] == "prop") && before.view[r] <= after.rootView {
				x.gone[id] = true // expired orphan tree
			} else {
				add("proposal-lost:orphan", "orphan proposal %d (orphan root %d view %d, Root view %d) vanished during %s", id, r, before.view[r], after.rootView, op[0])
			}
		}
	}
	if (op[0] == "ins" || op[0] == "prop") && okAns && len(op) >= 2 {
		id, _ := strconv.Atoi(op[1])
		x.accepted[id] = true
		if after.stored(id) == 0 && !x.gone[id] {
			add("proposal-not-stored", "proposal %d was accepted but is stored nowhere", id)
		}
	}
	// 5. markers: HighQC always set; Generic/Locked/Commit are its successive ancestors when set
	if after.high < 0 {
		add("highqc-nil", "HighQC is nil")
	} else {
		hp := idNum(x.tree.HighQC.In.GetParentProposalId())
		if after.gen >= 0 && after.gen != hp {
			add("markers-not-ancestors:generic", "GenericQC=%d but HighQC=%d has ParentId %s", after.gen, after.high, optStr(hp))
		}
		if after.lock >= 0 {
			if after.gen < 0 {
				add("markers-not-ancestors:locked", "LockedQC=%d set while GenericQC is nil", after.lock)
			} else if gp := idNum(x.tree.GenericQC.In.GetParentProposalId()); gp != after.lock {
				add("markers-not-ancestors:locked", "LockedQC=%d but GenericQC=%d has ParentId %s", after.lock, after.gen, optStr(gp))
			}
		}
		if after.commit >= 0 {
			initial := after.commit == after.genesis && after.high == after.genesis && after.gen < 0 && after.lock < 0
			if !initial {
				if after.lock < 0 {
					add("markers-not-ancestors:commit", "CommitQC=%d set while LockedQC is nil (HighQC=%d)", after.commit, after.high)
				} else if lp := idNum(x.tree.LockedQC.In.GetParentProposalId()); lp != after.commit {
					add("markers-not-ancestors:commit", "CommitQC=%d but LockedQC=%d has ParentId %s", after.commit, after.lock, optStr(lp))
				}
			}
		}
	}
	// a marker is a node OBJECT of the tree below Root. The only way out of the tree is updateCommit's pruning (its own
	// TODO; C15 as written does not ask the markers to follow the root: counted only); a marker that is outside the tree
	// and was never pruned was never linked into it.
	for _, m := range []struct {
		name string
		n    *bft.ProposalNode
	}{{"high", x.tree.HighQC}, {"generic", x.tree.GenericQC}, {"locked", x.tree.LockedQC}, {"commit", x.tree.CommitQC}} {
		if m.n == nil || after.mainObjs[m.n] {
			continue
		}
		if x.gone[nodeID(m.n)] {
			info("info:marker-outside-tree")
			continue
		}
		add("marker-outside-tree:"+m.name, "the %s marker (proposal %d) is not a node of the tree below Root %d and was not pruned by a commit", m.name, nodeID(m.n), after.root)
	}
	// the public accessors of Smr report the same markers as the tree
	if after.high >= 0 {
		if hq := x.smr.GetHighQC(); hq == nil || idNum(hq.GetProposalId()) != after.high {
			add("smr-accessor-mismatch", "Smr.GetHighQC disagrees with the tree's HighQC %d", after.high)
		}
		if gq := x.smr.GetGenericQC(); (gq == nil) != (after.gen < 0) || (gq != nil && idNum(gq.GetProposalId()) != after.gen) {
			add("smr-accessor-mismatch", "Smr.GetGenericQC disagrees with the tree's GenericQC %s", optStr(after.gen))
		}
	}
	// 6. HighQC view never decreases except by explicit rollback
	if op[0] != "enforce" && op[0] != "reset" && after.highView < before.highView {
		add("highqc-view-decreased", "HighQC view went from %d to %d during %s", before.highView, after.highView, op[0])
	}
	// 7. the root only moves to a descendant of the previous root
	if op[0] != "reset" && after.root != before.root && before.mainCnt[after.root] == 0 {
		add("root-not-descendant", "Root moved from %d to %d which was not in the tree below the old root", before.root, after.root)
	}
	if op[0] != "reset" && op[0] != "commit" && op[0] != "prop" && after.root != before.root {
		add("root-moved-without-commit", "Root moved from %d to %d during %s", before.root, after.root, op[0])
	}
	// 8. pacemaker view is max-monotone
	if op[0] != "reset" && after.pmView < before.pmView {
		add("pacemaker-decreased", "pacemaker view went from %d to %d", before.pmView, after.pmView)
	}
	if op[0] == "pm" && len(op) == 2 {
		// (a certificate of view MaxInt64 has no successor view an int64 could hold: nothing to require)
		v, _ := strconv.ParseInt(op[1], 10, 64)
		if v < math.MaxInt64 && after.pmView < v+1 {
			add("pacemaker-behind", "pacemaker view %d after a certificate of view %d", after.pmView, v)
		}
	}
	return vs
}

// checkInit evaluates C15 on the tree InitQCTree built from the ledger 0..tip (block h = proposal h): the structure every
// later step starts from must already be "a tree rooted at the last committed proposal in which every accepted proposal
// is stored", with the certified marker where the ledger says it is. (The forest / parent-edge / marker-ancestor /
// marker-inside-tree clauses are evaluated by check on the same snapshot.)
func checkInit(x *world, s *snap) []viol {
	var vs []viol
	add := func(key, f string, a ...interface{}) { vs = append(vs, viol{key, fmt.Sprintf(f, a...)}) }
	start, tip := x.start, x.tip
	if s.truncated {
		return vs
	}
	if s.root < 0 {
		add("init:no-root", "InitQCTree(start %d, tip %d) built a tree without Root", start, tip)
		return vs
	}
	// every node is a block of the ledger with that block's view (= height) and parent id
	var ids []int
	for id := range s.mainCnt {
		ids = append(ids, id)
	}
	for id := range s.orphCnt {
		ids = append(ids, id)
	}
	sort.Ints(ids)
	for _, id := range ids {
		switch {
		case id < 0 || id > tip:
			add("init:node-not-on-ledger", "node %d of the initial tree is not a block of the ledger 0..%d", id, tip)
		case s.view[id] != int64(id):
			add("init:node-content", "node of block %d has view %d", id, s.view[id])
		case id != s.root && s.parentID[id] != id-1:
			add("init:node-content", "node of block %d has ParentId %s", id, optStr(s.parentID[id]))
		case id == s.root && s.parentID[id] >= 0 && s.parentID[id] != id-1:
			add("init:node-content", "Root (block %d) has ParentId %s", id, optStr(s.parentID[id]))
		}
	}
	if len(s.orphRoots) > 0 {
		add("init:orphans", "the initial tree has orphans %v", s.orphRoots)
	}
	if s.root > tip {
		return vs
	}
	// rooted at the last committed proposal: never above it (nothing below Root can be rolled back). On a restart the
	// tip carries the certificate of tip-1, so tip-3 heads a certified three-chain; blocks below the consensus start
	// height are final by decree.
	committed := tip - 3
	if start-1 > committed {
		committed = start - 1
	}
	if committed < 0 {
		committed = 0
	}
	if s.root > committed {
		add("init:root-above-committed", "Root is block %d but the last committed block of a ledger with tip %d (consensus start %d) is %d", s.root, tip, start, committed)
	}
	// every accepted proposal is stored: the blocks above Root up to the tip are nodes of the tree
	for h := s.root + 1; h <= tip; h++ {
		if s.mainCnt[h] == 0 {
			add("init:ledger-block-missing", "block %d of the ledger (Root %d, tip %d) is not a node of the initial tree", h, s.root, tip)
			break
		}
	}
	// the highest-certified marker is not behind the ledger: the tip block carries the certificate of its parent
	if s.high >= 0 && s.high <= tip && s.high < tip-1 {
		add("init:highqc-behind-ledger", "HighQC is block %d but the tip %d certifies block %d", s.high, tip, tip-1)
	}
	return vs
}

// ---------------------------------------------------------------- executor

func mkNode(f []string) (*bft.ProposalNode, bool) {
	id, e1 := strconv.Atoi(f[0])
	view, e2 := strconv.ParseInt(f[1], 10, 64)
	pview, e4 := strconv.ParseInt(f[3], 10, 64)
	if e1 != nil || e2 != nil || e4 != nil || id < 0 {
		return nil, false
	}
	vi := &bft.VoteInfo{ProposalId: idBytes(id), ProposalView: view, ParentView: pview}
	if f[2] != "-" {
		p, e3 := strconv.Atoi(f[2])
		if e3 != nil || p < 0 {
			return nil, false
		}
		vi.ParentId = idBytes(p)
	}
	return &bft.ProposalNode{In: &bft.QuorumCert{VoteInfo: vi, LedgerCommitInfo: &bft.LedgerCommitInfo{VoteInfoHash: idBytes(id)}}}, true
}

// apply runs one op on the real code; returns (status, ok) — status "" means bad-op.
func apply(x *world, f []string) (status string) {
	defer func() {
		if r := recover(); r != nil {
			status = "panic"
		}
	}()
	if x.th != nil {
		x.th.active = true
		defer func() { x.th.active = false }()
	}
	t := x.tree
	switch {
	case f[0] == "ins" && len(f) == 5:
		n, ok := mkNode(f[1:])
		if !ok {
			return ""
		}
		x.wrap(n)
		// Smr.UpdateQcStatus = ledger-state bookkeeping + qcTree.updateQcStatus
		if err := x.smr.UpdateQcStatus(n); err != nil {
			return "err"
		}
		return "ok"
	case f[0] == "prop" && len(f) == 6:
		n, ok := mkNode(f[1:5])
		if !ok || f[3] == "-" {
			return ""
		}
		x.wrap(n)
		p, _ := strconv.Atoi(f[3])
		pv, _ := strconv.ParseInt(f[4], 10, 64)
		x.pm.AdvanceView(&bft.QuorumCert{VoteInfo: &bft.VoteInfo{ProposalId: idBytes(p), ProposalView: pv}})
		if f[5] == "1" {
			t.VerifUpdateCommit(idBytes(p))
		}
		if err := t.VerifUpdateQcStatus(n); err != nil {
			return "err"
		}
		return "ok"
	case f[0] == "pm" && len(f) == 2:
		// a certificate of ANY int64 view (the view field of a message is not range-checked anywhere)
		v, err := strconv.ParseInt(f[1], 10, 64)
		if err != nil {
			return ""
		}
		x.pm.AdvanceView(&bft.QuorumCert{VoteInfo: &bft.VoteInfo{ProposalView: v}})
		return "ok"
	case len(f) == 2:
		id, err := strconv.Atoi(f[1])
		if err != nil {
			return ""
		}
		switch f[0] {
		case "high":
			if id%2 == 0 {
				t.VerifUpdateHighQC(idBytes(id))
			} else {
				// Smr.UpdateJustifyQcStatus = vote bookkeeping + qcTree.updateHighQC(justify id)
				x.smr.UpdateJustifyQcStatus(&bft.QuorumCert{VoteInfo: &bft.VoteInfo{ProposalId: idBytes(id)},
					SignInfos: []*bftpb.QuorumCertSign{{Address: "xv-voter"}}})
			}
			return "ok"
		case "vote":
			n := t.DFSQueryNode(idBytes(id))
			if n == nil {
				return "err" // handleReceivedVoteMsg drops votes for proposals not in the tree
			}
			x.pm.AdvanceView(n.In)
			t.VerifUpdateHighQC(idBytes(id))
			return "ok"
		case "enforce":
			if err := x.smr.EnforceUpdateHighQC(idBytes(id)); err != nil {
				return "err"
			}
			return "ok"
		case "commit":
			t.VerifUpdateCommit(idBytes(id))
			return "ok"
		}
	}
	return ""
}

// step executes one op line on the current case; returns the canonical answer and the violations.
func step(line string) (ans string, vs []viol) {
	if f := strings.Fields(line); len(f) >= 1 && f[0] == "conc" {
		return stepConc(f)
	}
	w, ans, vs = stepW(w, nil, line)
	return ans, vs
}

// stepW: one op line on the world w (nil before the first reset); th != nil: the world belongs to a thread of a conc op.
func stepW(w *world, th *thread, line string) (nw *world, ans string, vs []viol) {
	nw = w
	defer func() {
		// the structure could not even be walked / judged: a violation with the case so far as the failing input
		if r := recover(); r != nil {
			if w != nil && (len(w.ops) == 0 || w.ops[len(w.ops)-1] != line) {
				w.ops = append(w.ops, line)
			}
			nw, ans, vs = w, "unwalkable", []viol{{"structure-unwalkable", fmt.Sprintf("walking / judging the structure after `%s` panicked: %v", line, r)}}
		}
	}()
	nw, ans, vs = stepW1(w, th, line)
	return
}

func stepW1(w *world, th *thread, line string) (*world, string, []viol) {
	var ans string
	var vs []viol
	f := strings.Fields(line)
	if len(f) == 0 {
		return w, "bad-op", nil
	}
	if f[0] == "reset" && (len(f) == 1 || len(f) == 3) {
		start, tip := 1, 0
		if len(f) == 3 {
			var e1, e2 error
			start, e1 = strconv.Atoi(f[1])
			tip, e2 = strconv.Atoi(f[2])
			if e1 != nil || e2 != nil || start < 0 || tip < 0 {
				return w, "bad-op", nil
			}
		}
		var st string
		w, st = newWorld(start, tip)
		w.ops = []string{line}
		w.setThread(th)
		if st != "ok" {
			w.impl = []string{st}
			if st == "panic" {
				vs = append(vs, viol{"init:panic", fmt.Sprintf("InitQCTree(start %d, ledger 0..%d) panicked", start, tip)})
			} else if start >= 1 && start-1 <= tip {
				vs = append(vs, viol{"init:no-tree", fmt.Sprintf("InitQCTree(start %d, ledger 0..%d) returned no tree although block %d is on the ledger", start, tip, start-1)})
			}
			return w, st, vs
		}
		s := takeSnap(w)
		w.impl = []string{"ok " + s.dump()}
		vs = check(w, f, true, s, s)
		if !(start >= 1 && start-1 <= tip) {
			vs = append(vs, viol{"init:tree-without-genesis-block", fmt.Sprintf("InitQCTree(start %d, ledger 0..%d) built a tree although block %d is not on the ledger", start, tip, start-1)})
		}
		return w, "ok " + s.dump(), append(vs, checkInit(w, s)...)
	}
	if w == nil {
		w, _ = newWorld(1, 0)
		w.setThread(th)
	}
	if w.tree == nil {
		switch f[0] {
		case "dump", "ins", "prop", "high", "vote", "enforce", "commit", "pm":
			return w, "no-tree", nil
		}
		return w, "bad-op", nil
	}
	if f[0] == "dump" && len(f) == 1 {
		s := takeSnap(w)
		return w, "ok " + s.dump(), nil
	}
	before := takeSnap(w)
	st := apply(w, f)
	if st == "" {
		return w, "bad-op", nil
	}
	after := takeSnap(w)
	if f[0] == "pm" {
		ans = fmt.Sprintf("view %d", after.pmView)
	} else {
		ans = st + " " + after.dump()
	}
	w.ops = append(w.ops, line)
	w.impl = append(w.impl, ans)
	if st == "panic" {
		vs = append(vs, viol{"panic", "the operation panicked"})
	}
	vs = append(vs, check(w, f, st == "ok", before, after)...)
	return w, ans, vs
}

// runCase executes a whole case silently and returns the keys violated (used by the shrinker).
func runCase(ops []string) map[string]bool {
	saved := w
	defer func() { w = saved }()
	keys := map[string]bool{}
	for _, l := range ops {
		_, vs := step(l)
		for _, v := range vs {
			keys[v.key] = true
		}
	}
	return keys
}

// shrink removes ops while the violation `key` persists (delta debugging, one op at a time).
func shrink(ops []string, key string) []string {
	cur := append([]string{}, ops...)
	for changed := true; changed; {
		changed = false
		for i := len(cur) - 1; i >= 1; i-- {
			cand := append(append([]string{}, cur[:i]...), cur[i+1:]...)
			if runCase(cand)[key] {
				cur = cand
				changed = true
			}
		}
	}
	return cur
}

// ---------------------------------------------------------------- generator

type prop struct {
	id, parent  int
	view, pview int64
	depth       int
}

func (p prop) ins() string {
	return fmt.Sprintf("ins %d %d %d %d", p.id, p.view, p.parent, p.pview)
}

// chainProps: the blocks 0..tip of the ledger a case was initialised from (block h = proposal h, view h, parent h-1).
func chainProps(tip int) []prop {
	ps := []prop{{id: 0, parent: -1}}
	for h := 1; h <= tip; h++ {
		ps = append(ps, prop{id: h, parent: h - 1, view: int64(h), pview: int64(h - 1), depth: h})
	}
	return ps
}

// randomTree grows a block tree of n new proposals (ids tip+1..tip+n) below the ledger chain 0..tip: a new proposal
// hangs under the latest proposal, under any earlier new proposal or under any block of the ledger (also one that the
// initial tree does not hold any more).
func randomTree(r *xvlib.Rng, n int, chainBias int, tip int) []prop {
	ps := chainProps(tip)
	for i := 1; i <= n; i++ {
		var par prop
		if r.Intn(100) < chainBias {
			par = ps[len(ps)-1]
		} else if tip > 0 && r.Chance(1, 3) {
			par = ps[max(0, tip-r.Intn(5))] // near the tip of the ledger
		} else {
			par = ps[r.Intn(len(ps))]
		}
		v := par.view + 1
		if r.Chance(1, 8) {
			v += int64(r.Intn(3))
		}
		ps = append(ps, prop{id: tip + i, parent: par.id, view: v, pview: par.view, depth: par.depth + 1})
	}
	return ps[tip+1:]
}

func perm(r *xvlib.Rng, n int) []int {
	p := make([]int, n)
	for i := range p {
		p[i] = i
	}
	for j := n - 1; j > 0; j-- {
		k := r.Intn(j + 1)
		p[j], p[k] = p[k], p[j]
	}
	return p
}

func randomCase(r *xvlib.Rng) []string {
	n := 3 + r.Intn(10)
	// one case in three starts from the tree InitQCTree builds from a ledger with blocks 0..tip
	reset, tip := "reset", 0
	if r.Chance(1, 3) {
		tip = r.Intn(9)
		start := 1 + r.Intn(tip+1)
		if r.Chance(1, 12) {
			start = []int{0, tip + 2, tip + 3}[r.Intn(3)]
		}
		reset = fmt.Sprintf("reset %d %d", start, tip)
		if start < 1 || start > tip+1 {
			return []string{reset, "dump"}
		}
	}
	ps := randomTree(r, n, []int{30, 60, 85}[r.Intn(3)], tip)
	if tip == 0 && r.Chance(1, 10) { // views next to the int64 boundaries
		ps = shiftViews(ps, r.Bool())
	}
	all := append(chainProps(tip)[1:], ps...) // what can be (re-)delivered: the ledger's blocks (with a parent) too
	// arrival order: a permutation, locally perturbed from "parents first" with varying disorder
	order := make([]int, n)
	for i := range order {
		order[i] = i
	}
	switch r.Intn(4) {
	case 0: // fully random
		order = perm(r, n)
	case 1: // children before parents
		for i := range order {
			order[i] = n - 1 - i
		}
		fallthrough
	default: // a few random swaps
		for k := r.Intn(n + 1); k > 0; k-- {
			i, j := r.Intn(n), r.Intn(n)
			order[i], order[j] = order[j], order[i]
		}
	}
	ops := []string{reset}
	var arrived []int
	for h := max(0, tip-4); h <= tip && tip > 0; h++ {
		arrived = append(arrived, h)
	}
	pick := func() int {
		if len(arrived) == 0 || r.Chance(1, 10) {
			return r.Intn(tip + n + 2)
		}
		if r.Chance(1, 2) {
			return arrived[len(arrived)-1-r.Intn(min(3, len(arrived)))]
		}
		return arrived[r.Intn(len(arrived))]
	}
	for _, i := range order {
		p := ps[i]
		switch {
		case r.Chance(1, 6):
			ops = append(ops, fmt.Sprintf("prop %d %d %d %d %d", p.id, p.view, p.parent, p.pview, r.Intn(2)))
		default:
			ops = append(ops, p.ins())
		}
		arrived = append(arrived, p.id)
		for r.Chance(2, 5) {
			switch r.Intn(10) {
			case 0, 1, 2:
				ops = append(ops, fmt.Sprintf("high %d", pick()))
			case 3:
				ops = append(ops, fmt.Sprintf("vote %d", pick()))
			case 4, 5:
				ops = append(ops, fmt.Sprintf("commit %d", pick()))
			case 6:
				ops = append(ops, fmt.Sprintf("enforce %d", pick()))
			case 7:
				if r.Chance(1, 5) {
					ops = append(ops, fmt.Sprintf("pm %d", boundary[r.Intn(len(boundary))]))
				} else {
					ops = append(ops, fmt.Sprintf("pm %d", r.Intn(12)))
				}
			default: // duplicate arrival (of a new proposal or of a block of the ledger)
				ops = append(ops, all[r.Intn(len(all))].ins())
			}
		}
	}
	// tail: certify / commit the deepest proposals, re-deliver everything once
	for k := r.Intn(4); k > 0; k-- {
		ops = append(ops, fmt.Sprintf("high %d", pick()), fmt.Sprintf("commit %d", pick()))
	}
	if r.Chance(1, 2) {
		for _, i := range perm(r, n) {
			ops = append(ops, ps[i].ins())
		}
	}
	// one case in eight is then run again as several independent trees driven at the same time (conc.go)
	if r.Chance(1, 8) {
		ops = append(ops, concLine(r))
	}
	return ops
}

func concLine(r *xvlib.Rng) string {
	l := fmt.Sprintf("conc %d %d", 2+r.Intn(3), r.Intn(1000))
	if r.Chance(1, 8) {
		l += " free"
	}
	return l
}

// boundary: the int64 views a message can carry (no code path range-checks the view field of a proposal, a vote or a
// certificate; the first-justify path of handleReceivedProposal does not even compare it with anything).
var boundary = []int64{math.MinInt64, math.MinInt64 + 1, -1, 0, 1, math.MaxInt64 - 1, math.MaxInt64}

// shiftViews moves the views of the new proposals of a tree below proposal 0 (view 0) to the top of the int64 range (the
// highest view becomes MaxInt64) or to its bottom (view v becomes MinInt64 + v): every comparison of the tree code
// (HighQC, orphan expiry, pacemaker) then runs next to the wrap-around points.
func shiftViews(ps []prop, top bool) []prop {
	var maxv int64
	for _, p := range ps {
		if p.view > maxv {
			maxv = p.view
		}
	}
	off := int64(math.MinInt64)
	if top {
		off = math.MaxInt64 - maxv
	}
	res := append([]prop{}, ps...)
	for i := range res {
		res[i].view += off
		if res[i].parent != 0 {
			res[i].pview += off
		}
	}
	return res
}

// boundaryCases: certificates, proposals and votes whose views are the boundaries of int64, through every entry that
// feeds the pacemaker (pm = AdvanceView, prop = justify of a proposal, vote = quorum on a stored proposal) and the tree.
func boundaryCases(f func([]string)) {
	// every sequence of three certificates over the boundary alphabet, after an ordinary one
	for _, a := range boundary {
		for _, b := range boundary {
			for _, c := range boundary {
				f([]string{"reset", "pm 4", fmt.Sprintf("pm %d", a), fmt.Sprintf("pm %d", b), fmt.Sprintf("pm %d", c), "pm 7"})
			}
		}
	}
	for _, a := range boundary {
		for _, b := range boundary {
			// a proposal whose justify declares a boundary view (with and without the commit step), then ordinary traffic
			f([]string{"reset", "pm 9", fmt.Sprintf("prop 1 1 0 %d 0", a), "vote 1", fmt.Sprintf("prop 2 2 1 %d 1", b), "vote 2", "pm 3", "ins 3 3 2 2", "vote 3"})
			// proposals that carry boundary views themselves; a quorum of votes on them moves the pacemaker
			if a <= b {
				f([]string{"reset", "pm 2", fmt.Sprintf("ins 1 %d 0 0", a), "vote 1", fmt.Sprintf("ins 2 %d 1 %d", b, a), "vote 2", "high 1", "pm 5",
					fmt.Sprintf("ins 3 %d 2 %d", b, b), "vote 3", "commit 3", fmt.Sprintf("ins 5 %d 4 %d", a, a), "enforce 1", "vote 2"})
			}
		}
	}
	// chains and forks whose views end exactly at MaxInt64 / start at MinInt64, parents first and children first
	for _, top := range []bool{true, false} {
		for n := 1; n <= 6; n++ {
			ps := []prop{}
			for i := 1; i <= n; i++ {
				par := i - 1
				if i == n && n > 2 {
					par = n - 2 // a competing child
				}
				ps = append(ps, prop{id: i, parent: par, view: int64(i), pview: int64(par)})
			}
			ps = shiftViews(ps, top)
			for _, rev := range []bool{false, true} {
				ops := []string{"reset"}
				for i := range ps {
					p := ps[i]
					if rev {
						p = ps[len(ps)-1-i]
					}
					ops = append(ops, p.ins(), fmt.Sprintf("vote %d", p.id))
				}
				ops = append(ops, fmt.Sprintf("high %d", n), fmt.Sprintf("commit %d", n), fmt.Sprintf("vote %d", n), "pm 1", ps[0].ins())
				f(ops)
			}
		}
	}
}

// exhaustive: every block tree of n proposals (parent vector) x every arrival order, followed by
// certification and commit of the deepest proposal and a full re-delivery.
func exhaustive(n int, f func([]string)) { exhaustiveFrom("reset", 0, 0, n, f) }

func permute(a []int, k int, g func([]int)) {
	if k == len(a) {
		g(a)
		return
	}
	for i := k; i < len(a); i++ {
		a[k], a[i] = a[i], a[k]
		permute(a, k+1, g)
		a[k], a[i] = a[i], a[k]
	}
}

// exhaustiveFrom: the case starts with the line `reset` (a tree over the ledger 0..tip); the n new proposals
// tip+1..tip+n hang under the ledger blocks lo..tip or under each other in every possible way and arrive in every order.
func exhaustiveFrom(reset string, lo, tip, n int, f func([]string)) {
	parents := make([]int, n+1) // parents[i] = id of the parent of proposal tip+i
	var rec func(i int)
	rec = func(i int) {
		if i > n {
			depth := map[int]int{}
			for h := 0; h <= tip; h++ {
				depth[h] = h
			}
			deepest := tip
			for j := 1; j <= n; j++ {
				depth[tip+j] = depth[parents[j]] + 1
				if depth[tip+j] > depth[deepest] {
					deepest = tip + j
				}
			}
			ins := func(id int) string {
				if id <= tip {
					return fmt.Sprintf("ins %d %d %s %d", id, id, optStr(id-1), max(0, id-1))
				}
				return fmt.Sprintf("ins %d %d %d %d", id, depth[id], parents[id-tip], depth[id]-1)
			}
			ids := make([]int, n)
			for j := range ids {
				ids[j] = tip + j + 1
			}
			permute(ids, 0, func(o []int) {
				ops := []string{reset}
				for _, j := range o {
					ops = append(ops, ins(j))
				}
				ops = append(ops, fmt.Sprintf("high %d", deepest), fmt.Sprintf("commit %d", deepest))
				ops = append(ops, ins(o[0]))
				if tip > 0 { // the ledger's tip is confirmed once more; explicit rollback to it
					ops = append(ops, ins(tip), fmt.Sprintf("enforce %d", tip))
				}
				ops = append(ops, fmt.Sprintf("high %d", o[n-1]))
				f(ops)
			})
			return
		}
		for p := lo; p < tip+i; p++ {
			parents[i] = p
			rec(i + 1)
		}
	}
	rec(1)
}

// exhaustiveInit: InitQCTree for every ledger height 0..maxTip and every consensus start height 0..tip+2 (fresh start,
// restart at tip 0, 1, 2, >= 3, start heights whose predecessor block is not on the ledger), each continued with
// (a) the chain growing by six proposals through proposal-with-commit / certification steps (the root has to move),
// (b) a rollback to every block of the ledger, (c) every tree of <= n new proposals below the last five ledger blocks
// in every arrival order (exhaustiveFrom; n+1 proposals for tip <= deepTip).
func exhaustiveInit(maxTip, n, deepTip int, f func([]string)) {
	for tip := 0; tip <= maxTip; tip++ {
		for start := 0; start <= tip+2; start++ {
			reset := fmt.Sprintf("reset %d %d", start, tip)
			if start < 1 || start > tip+1 {
				f([]string{reset, "dump"})
				continue
			}
			ops := []string{reset}
			for k := 1; k <= 6; k++ {
				id := tip + k
				if k%2 == 1 {
					ops = append(ops, fmt.Sprintf("prop %d %d %d %d 1", id, id, id-1, id-1))
				} else {
					ops = append(ops, fmt.Sprintf("ins %d %d %d %d", id, id, id-1, id-1), fmt.Sprintf("commit %d", id))
				}
				ops = append(ops, fmt.Sprintf("vote %d", id))
			}
			f(ops)
			ops = []string{reset}
			for h := tip; h >= 0; h-- {
				ops = append(ops, fmt.Sprintf("enforce %d", h), fmt.Sprintf("high %d", h))
			}
			ops = append(ops, fmt.Sprintf("ins %d %d %d %d", tip+1, tip+1, tip, tip), fmt.Sprintf("high %d", tip+1))
			f(ops)
			for m := 1; m <= n || (m == n+1 && tip <= deepTip); m++ {
				exhaustiveFrom(reset, max(0, tip-4), tip, m, f)
			}
		}
	}
}

func max(a, b int) int {
	if a > b {
		return a
	}
	return b
}

// initKind names the branch of InitQCTree a case went through (statistics only).
func initKind(x *world) string {
	switch {
	case x.tree == nil:
		return "nil"
	case x.tip <= x.start:
		return fmt.Sprintf("fresh:tip=start%+d", x.tip-x.start)
	case x.tip < 3:
		return fmt.Sprintf("restart:tip=%d", x.tip)
	}
	return "restart:tip>=3"
}

func min(a, b int) int {
	if a < b {
		return a
	}
	return b
}

// ---------------------------------------------------------------- main

func main() {
	args := xvlib.ParseArgs()
	logger = xvlib.Logger("qctree")
	out := xvlib.NewOut(args.Out)
	defer out.Close()
	reported := map[string]int{}
	var infoMu sync.Mutex // conc ... free: the threads of the op count from several goroutines
	info = func(k string) { infoMu.Lock(); out.Count(k); infoMu.Unlock() }
	runLine := func(line string) {
		ans, vs := step(line)
		out.Emit(line, ans)
		out.Count("op:" + strings.Fields(line)[0] + ":" + strings.Fields(ans)[0])
		for _, v := range vs {
			out.Count("violation:" + v.key)
			if reported[v.key] >= 2 {
				continue
			}
			reported[v.key]++
			caseOps := w.ops
			if strings.HasPrefix(line, "conc") {
				caseOps = append(append([]string{}, w.ops...), line)
			}
			ops := shrink(caseOps, v.key)
			saved := w
			var impl []string
			for _, l := range ops {
				a, _ := step(l)
				impl = append(impl, a)
			}
			w = saved
			out.Violate(xvlib.Violation{Key: v.key, What: v.what, Ops: ops, Impl: impl[len(impl)-1:],
				Extra: "unshrunk case: " + strings.Join(caseOps, " ; ")})
		}
	}
	runCaseOut := func(ops []string) {
		for _, l := range ops {
			runLine(l)
		}
		if f := strings.Fields(ops[0]); len(f) == 3 {
			out.Count("case:init:" + initKind(w))
		}
		if w.tree == nil {
			out.Case(strings.Join(ops, ";"), false)
			return
		}
		s := takeSnap(w)
		nontrivial := len(s.orphRoots) > 0 || len(w.gone) > 0 || s.root != 0 || len(s.mainCnt) > 2
		out.Case(strings.Join(ops, ";"), nontrivial)
		if len(s.orphRoots) > 0 {
			out.Count("case:ends-with-orphans")
		}
		if s.root != 0 {
			out.Count("case:root-moved")
		}
		if len(w.gone) > 0 {
			out.Count("case:pruned-or-expired")
		}
		out.Count(fmt.Sprintf("case:stored=%02d", len(s.mainCnt)+len(s.orphCnt)))
	}
	if args.Replay != "" {
		var cur []string
		for _, l := range xvlib.ReadLines(args.Replay) {
			if strings.HasPrefix(l, "reset") && len(cur) > 0 {
				runCaseOut(cur)
				cur = nil
			}
			cur = append(cur, l)
		}
		if len(cur) > 0 {
			if !strings.HasPrefix(cur[0], "reset") {
				cur = append([]string{"reset"}, cur...)
			}
			runCaseOut(cur)
		}
		return
	}
	// corpus first: minimal replays of repaired defects (a regression is a fresh violation)
	corpus, _ := filepath.Glob(filepath.Join("corpus", args.Prop, "*.ops"))
	sort.Strings(corpus)
	for _, f := range corpus {
		var cur []string
		for _, l := range xvlib.ReadLines(f) {
			if strings.HasPrefix(l, "reset") && len(cur) > 0 {
				runCaseOut(cur)
				cur = nil
			}
			cur = append(cur, l)
		}
		if len(cur) > 0 {
			runCaseOut(cur)
		}
		out.Count("corpus-file")
	}
	rng := xvlib.NewRng(args.Seed)
	exN, randCases, initTip, initN, initDeep := 5, 20000, 7, 3, -1
	if args.Tier == "thorough" {
		exN, randCases, initTip, initN, initDeep = 6, 150000, 9, 3, 5
	}
	if v := xvlib.EnvInt("XV_QCTREE_EXN", 0); v > 0 {
		exN = v
	}
	for n := 1; n <= exN; n++ {
		exhaustive(n, runCaseOut)
	}
	exhaustiveInit(initTip, initN, initDeep, runCaseOut)
	boundaryCases(runCaseOut)
	// every tree of <= 3 proposals in every arrival order (+ certification, commit, duplicate), the case then repeated
	// as 2 and 3 independent trees under 4 schedules each; the restart trees likewise (one schedule)
	for n := 1; n <= 3; n++ {
		exhaustive(n, func(ops []string) {
			for sd := 0; sd < 4; sd++ {
				runCaseOut(append(append([]string{}, ops...), fmt.Sprintf("conc %d %d", 2+sd%2, sd)))
			}
		})
	}
	exhaustiveInit(4, 2, -1, func(ops []string) {
		runCaseOut(append(append([]string{}, ops...), fmt.Sprintf("conc %d %d", 2+len(ops)%2, len(ops))))
	})
	for i := 0; i < randCases; i++ {
		ops := randomCase(rng)
		runCaseOut(ops)
		if i < 3 {
			out.Sample(map[string]interface{}{"ops": ops, "final": w.impl[len(w.impl)-1]})
		}
	}
	out.Stats.Exhaustive = false
	deepNote := ""
	if initDeep >= 0 {
		deepNote = fmt.Sprintf(" (%d for tip ≤ %d)", initN+1, initDeep)
	}
	out.Stats.Rule = fmt.Sprintf("InitQCTree (the real function over a ledger of blocks 0..tip) for every tip ≤ %d × every start height 0..tip+2, each continued with chain growth through proposal-with-commit steps, rollbacks to every ledger block and every tree of ≤ %d new proposals%s below the last five ledger blocks in every arrival order; one random case in three starts from such a tree (tip ≤ 8); ", initTip, initN, deepNote) + fmt.Sprintf("every block tree of n ≤ %d proposals (all parent vectors) × every arrival order (n! permutations), each followed by certification and commit of the deepest proposal, one duplicate arrival and one more certification; plus %d random cases: block trees of 3..12 proposals (chain bias 30/60/85%%, occasional view gaps), arrival orders from parents-first to children-first to uniformly random, interleaved updateHighQC / vote-quorum / updateCommit / enforceUpdateHighQC / pacemaker / duplicate arrivals / proposal-with-commit ops and a full re-delivery; views at the int64 boundaries (MinInt64, MinInt64+1, -1, 0, 1, MaxInt64-1, MaxInt64): every triple of certificates, justify views of proposals, votes on proposals carrying them, chains / forks ending at MaxInt64 or starting at MinInt64 in both arrival orders, one random case in ten shifted to a boundary; op conc (k = 2..4 independent trees = prefixes of the case, driven at the same time by the real code, interleaved at every id read of a lookup under a seeded scheduler, one in eight as free goroutines, each thread 30 times over): every tree of ≤ 3 proposals × every arrival order × 4 schedules, the restart trees for tip ≤ 4, one random case in eight; every thread's answers = the answers of the case alone, C15 oracle on every thread's tree; after EVERY op the full dump is compared with the model and the C15 oracle is evaluated on the real pointer structure; a case is non-trivial if it ends with orphans, a moved root, pruned/expired proposals or ≥ 3 tree nodes; distinct by op list", exN, randCases)
}
