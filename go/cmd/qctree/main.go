// Engine `qctree` (C15): drives the real QCPendingTree (chained-bft/context.go) and the real
// DefaultPaceMaker, one tree per case: through the public Smr entry points used by tdpos/xpoa where
// they exist (Smr.UpdateQcStatus, Smr.UpdateJustifyQcStatus, Smr.EnforceUpdateHighQC, GetHighQC,
// GetGenericQC) and through the `verif` export shim for the package-private mutators.
//
// op lines (also the input of the Lean driver `xvdriver qctree`); ids are small naturals, the
// initial root is proposal 0 (view 0, no parent); `-` is the nil parent id:
//
//	reset                                  fresh tree: Genesis = Root = HighQC = CommitQC = proposal 0; pacemaker view 0
//	ins <id> <view> <parent|-> <pview>     Smr.UpdateQcStatus(node) = updateQcStatus(node)   -> ok|err <dump>
//	high <id>                              updateHighQC(id) (odd ids: via Smr.UpdateJustifyQcStatus) -> ok <dump>
//	enforce <id>                           Smr.EnforceUpdateHighQC(id)     -> ok|err <dump>
//	commit <id>                            updateCommit(id)                -> ok <dump>
//	prop <id> <view> <parent> <pview> <c>  tree part of handleReceivedProposal: pacemaker.AdvanceView(justify);
//	                                       c=1: updateCommit(parent); updateQcStatus(node)   -> ok|err <dump>
//	vote <id>                              tree part of handleReceivedVoteMsg at quorum: AdvanceView(id's view); updateHighQC(id)
//	pm <view>                              DefaultPaceMaker.AdvanceView(qc of that view) -> view <current>
//	dump                                                                    -> ok <dump>
//
// dump = R=<root> H=<high> G=<generic|-> L=<locked|-> C=<commit|-> P=<pacemaker view>
//
//	T=<parent:son,son;...> (main tree, every node object with sons, sorted)
//	O=<orphan roots, sorted> F=<edges of the orphan forest> M=<ids in OrphanMap, sorted>
//
// The impl-side oracle (check) walks the dumped pointer structure after EVERY op and evaluates
// property C15 directly; it does not use the model.
package main

import (
	"container/list"
	"encoding/hex"
	"fmt"
	"path/filepath"
	"sort"
	"strconv"
	"strings"

	bft "github.com/xuperchain/xupercore/kernel/consensus/base/driver/chained-bft"
	bftpb "github.com/xuperchain/xupercore/kernel/consensus/base/driver/chained-bft/pb"
	"github.com/xuperchain/xupercore/lib/logs"
	"xv/xvlib"
)

// ---------------------------------------------------------------- ids

func idBytes(n int) []byte { return []byte("p" + strconv.Itoa(n)) }

func idNum(b []byte) int {
	if b == nil {
		return -1
	}
	s := string(b)
	if len(s) < 2 || s[0] != 'p' {
		return -2
	}
	n, err := strconv.Atoi(s[1:])
	if err != nil {
		return -2
	}
	return n
}

func nodeID(n *bft.ProposalNode) int {
	if n == nil {
		return -1
	}
	return idNum(n.In.GetProposalId())
}

func optStr(n int) string {
	if n < 0 {
		return "-"
	}
	return strconv.Itoa(n)
}

// ---------------------------------------------------------------- case state

type world struct {
	tree *bft.QCPendingTree
	pm   *bft.DefaultPaceMaker
	smr  *bft.Smr // the public entry points used by tdpos/xpoa (UpdateQcStatus, UpdateJustifyQcStatus, EnforceUpdateHighQC) go through it
	// oracle bookkeeping (per case)
	gone     map[int]bool // ids that were stored and legitimately dropped (pruned by commit / expired orphan)
	accepted map[int]bool // ids whose ins returned ok
	ops      []string
	impl     []string
}

var (
	logger logs.Logger
	w      *world
	info   = func(string) {} // statistics that are not violations
)

func newWorld() *world {
	initQC := &bft.QuorumCert{
		VoteInfo:         &bft.VoteInfo{ProposalId: idBytes(0), ProposalView: 0},
		LedgerCommitInfo: &bft.LedgerCommitInfo{CommitStateId: idBytes(0)},
	}
	root := &bft.ProposalNode{In: initQC}
	tree := &bft.QCPendingTree{Genesis: root, Root: root, HighQC: root, CommitQC: root,
		OrphanList: list.New(), OrphanMap: map[string]bool{}, Log: logger}
	pm := &bft.DefaultPaceMaker{}
	// no network, no crypto, no election: the ops below never reach them
	smr := bft.NewSmr("xv", "xv-node", logger, nil, nil, pm, &bft.DefaultSaftyRules{QcTree: tree, Log: logger}, nil, tree)
	return &world{tree: tree, pm: pm, smr: smr, gone: map[int]bool{}, accepted: map[int]bool{}}
}

// snap is what the oracle and the canonical dump are computed from.
type snap struct {
	root, high, gen, lock, commit int
	highView                      int64
	pmView                        int64
	mainCnt, orphCnt              map[int]int // occurrences of each id (node objects met by the walk)
	view                          map[int]int64
	parentID                      map[int]int // ParentId field of (the first object of) each stored id
	orphRoots                     []int       // in list order
	orphRootOf                    map[int]int // id -> orphan root it hangs under (first occurrence)
	edgeBad                       []string    // edges whose ParentId does not name the holder
	tEntries, fEntries            []entry     // canonical edge entries
	omap                          []int       // ids in OrphanMap
	truncated                     bool        // walk hit the limit: not a finite forest
	rootView                      int64
	genesis                       int
	markerViews                   map[string]int64
	kids                          map[int][]int // sons of every node object of the tree below Root
}

const walkLimit = 4000

func takeSnap(x *world) *snap {
	t := x.tree
	s := &snap{mainCnt: map[int]int{}, orphCnt: map[int]int{}, view: map[int]int64{}, parentID: map[int]int{}, orphRootOf: map[int]int{}, kids: map[int][]int{}}
	s.root, s.high, s.gen, s.lock, s.commit = nodeID(t.Root), nodeID(t.HighQC), nodeID(t.GenericQC), nodeID(t.LockedQC), nodeID(t.CommitQC)
	s.genesis = nodeID(t.Genesis)
	if t.HighQC != nil {
		s.highView = t.HighQC.In.GetProposalView()
	}
	if t.Root != nil {
		s.rootView = t.Root.In.GetProposalView()
	}
	s.pmView = x.pm.GetCurrentView()
	walk := t.VerifDump(walkLimit)
	s.truncated = len(walk) >= walkLimit
	curRoot := -1
	for _, d := range walk {
		id := nodeID(d.Node)
		if d.Orphan {
			if d.Parent == nil {
				curRoot = id
				s.orphRoots = append(s.orphRoots, id)
			}
			if s.orphCnt[id] == 0 {
				s.orphRootOf[id] = curRoot
			}
			s.orphCnt[id]++
		} else {
			s.mainCnt[id]++
		}
		if _, ok := s.view[id]; !ok {
			s.view[id] = d.Node.In.GetProposalView()
			s.parentID[id] = idNum(d.Node.In.GetParentProposalId())
		}
		if d.Parent != nil && idNum(d.Node.In.GetParentProposalId()) != nodeID(d.Parent) {
			s.edgeBad = append(s.edgeBad, fmt.Sprintf("%d under %d but ParentId=%s", id, nodeID(d.Parent), optStr(idNum(d.Node.In.GetParentProposalId()))))
		}
		if len(d.Node.Sons) > 0 {
			var sons []int
			for _, c := range d.Node.Sons {
				sons = append(sons, nodeID(c))
			}
			sort.Ints(sons)
			e := entry{id, strconv.Itoa(id) + ":" + joinInts(sons)}
			if d.Orphan {
				s.fEntries = append(s.fEntries, e)
			} else {
				s.tEntries = append(s.tEntries, e)
				s.kids[id] = append(s.kids[id], sons...)
			}
		}
	}
	sortEntries(s.tEntries)
	sortEntries(s.fEntries)
	for k := range t.OrphanMap {
		b, err := hex.DecodeString(k)
		if err != nil {
			s.omap = append(s.omap, -2)
			continue
		}
		s.omap = append(s.omap, idNum(b))
	}
	sort.Ints(s.omap)
	return s
}

func joinInts(a []int) string {
	var b []string
	for _, x := range a {
		b = append(b, strconv.Itoa(x))
	}
	return strings.Join(b, ",")
}

type entry struct {
	id int
	s  string
}

func sortEntries(es []entry) {
	sort.Slice(es, func(i, j int) bool {
		if es[i].id != es[j].id {
			return es[i].id < es[j].id
		}
		return es[i].s < es[j].s
	})
}

func trimEntries(es []entry) string {
	var b []string
	for _, e := range es {
		b = append(b, e.s)
	}
	return strings.Join(b, ";")
}

func (s *snap) dump() string {
	or := append([]int{}, s.orphRoots...)
	sort.Ints(or)
	return fmt.Sprintf("R=%d H=%s G=%s L=%s C=%s P=%d T=%s O=%s F=%s M=%s", s.root, optStr(s.high), optStr(s.gen), optStr(s.lock), optStr(s.commit),
		s.pmView, trimEntries(s.tEntries), joinInts(or), trimEntries(s.fEntries), joinInts(s.omap))
}

func (s *snap) stored(id int) int { return s.mainCnt[id] + s.orphCnt[id] }

// ---------------------------------------------------------------- oracle (property C15 on the real structure)

type viol struct{ key, what string }

// check evaluates C15 on the transition before --op--> after.
func check(x *world, op []string, okAns bool, before, after *snap) []viol {
	var vs []viol
	add := func(key, f string, a ...interface{}) { vs = append(vs, viol{key, fmt.Sprintf(f, a...)}) }
	// 1. the structure is a finite forest in which every id occurs at most once
	if after.truncated {
		add("not-a-forest", "walk of Root and the orphan list does not terminate within %d node objects (cycle)", walkLimit)
		return vs
	}
	ids := map[int]bool{}
	for id := range after.mainCnt {
		ids[id] = true
	}
	for id := range after.orphCnt {
		ids[id] = true
	}
	var sorted []int
	for id := range ids {
		sorted = append(sorted, id)
	}
	sort.Ints(sorted)
	for _, id := range sorted {
		switch {
		case after.mainCnt[id] > 0 && after.orphCnt[id] > 0:
			add("id-stored-twice:tree+orphan", "proposal %d is stored both in the tree and in the orphan forest", id)
		case after.mainCnt[id] > 1:
			add("id-stored-twice:tree", "proposal %d occurs %d times in the tree", id, after.mainCnt[id])
		case after.orphCnt[id] > 1:
			add("id-stored-twice:orphan", "proposal %d occurs %d times in the orphan forest", id, after.orphCnt[id])
		}
	}
	// 2. every non-root node hangs under the node its ParentId names
	for _, e := range after.edgeBad {
		add("parent-edge-mismatch", "node %s", e)
	}
	// 3. an orphan root whose parent is stored must have been attached to it
	for _, r := range after.orphRoots {
		p := after.parentID[r]
		if p < 0 {
			continue
		}
		if after.mainCnt[p] > 0 {
			add("orphan-not-adopted:parent-in-tree", "orphan root %d is not attached although its parent %d is in the tree", r, p)
		} else if after.orphCnt[p] > 0 {
			add("orphan-not-adopted:parent-in-orphan-forest", "orphan root %d is not attached although its parent %d is stored in the orphan forest (under orphan root %d)", r, p, after.orphRootOf[p])
		}
	}
	// 4. nothing is lost except by commit pruning / orphan expiry; an accepted proposal is stored
	keep := map[int]bool{} // what a commit must keep: the subtree (before) of the new Root
	if after.root != before.root {
		var mark func(id, depth int)
		mark = func(id, depth int) {
			if keep[id] || depth > walkLimit {
				return
			}
			keep[id] = true
			for _, c := range before.kids[id] {
				mark(c, depth+1)
			}
		}
		mark(after.root, 0)
	}
	for id := range before.mainCnt {
		if after.stored(id) == 0 {
			if (op[0] == "commit" || op[0] == "prop") && after.root != before.root && !keep[id] {
				x.gone[id] = true
			} else if op[0] == "commit" || op[0] == "prop" {
				add("proposal-lost:commit", "proposal %d, a descendant of the new Root %d, was dropped by the commit", id, after.root)
			} else {
				add("proposal-lost:tree", "proposal %d left the tree during %s", id, op[0])
			}
		}
	}
	for id := range before.orphCnt {
		if after.stored(id) == 0 {
			r := before.orphRootOf[id]
			if (op[0] == "ins" || op[0] == "prop") && before.view[r] <= after.rootView {
				x.gone[id] = true // expired orphan tree
			} else {
				add("proposal-lost:orphan", "orphan proposal %d (orphan root %d view %d, Root view %d) vanished during %s", id, r, before.view[r], after.rootView, op[0])
			}
		}
	}
	if (op[0] == "ins" || op[0] == "prop") && okAns && len(op) >= 2 {
		id, _ := strconv.Atoi(op[1])
		x.accepted[id] = true
		if after.stored(id) == 0 && !x.gone[id] {
			add("proposal-not-stored", "proposal %d was accepted but is stored nowhere", id)
		}
	}
	// 5. markers: HighQC always set; Generic/Locked/Commit are its successive ancestors when set
	if after.high < 0 {
		add("highqc-nil", "HighQC is nil")
	} else {
		hp := idNum(x.tree.HighQC.In.GetParentProposalId())
		if after.gen >= 0 && after.gen != hp {
			add("markers-not-ancestors:generic", "GenericQC=%d but HighQC=%d has ParentId %s", after.gen, after.high, optStr(hp))
		}
		if after.lock >= 0 {
			if after.gen < 0 {
				add("markers-not-ancestors:locked", "LockedQC=%d set while GenericQC is nil", after.lock)
			} else if gp := idNum(x.tree.GenericQC.In.GetParentProposalId()); gp != after.lock {
				add("markers-not-ancestors:locked", "LockedQC=%d but GenericQC=%d has ParentId %s", after.lock, after.gen, optStr(gp))
			}
		}
		if after.commit >= 0 {
			initial := after.commit == after.genesis && after.high == after.genesis && after.gen < 0 && after.lock < 0
			if !initial {
				if after.lock < 0 {
					add("markers-not-ancestors:commit", "CommitQC=%d set while LockedQC is nil (HighQC=%d)", after.commit, after.high)
				} else if lp := idNum(x.tree.LockedQC.In.GetParentProposalId()); lp != after.commit {
					add("markers-not-ancestors:commit", "CommitQC=%d but LockedQC=%d has ParentId %s", after.commit, after.lock, optStr(lp))
				}
			}
		}
	}
	// (not part of C15 as written, counted only: a marker pointing at a node that updateCommit pruned)
	for _, m := range []int{after.high, after.gen, after.lock, after.commit} {
		if m >= 0 && after.mainCnt[m] == 0 {
			info("info:marker-outside-tree")
			break
		}
	}
	// the public accessors of Smr report the same markers as the tree
	if hq := x.smr.GetHighQC(); hq == nil || idNum(hq.GetProposalId()) != after.high {
		add("smr-accessor-mismatch", "Smr.GetHighQC disagrees with the tree's HighQC %d", after.high)
	}
	if gq := x.smr.GetGenericQC(); (gq == nil) != (after.gen < 0) || (gq != nil && idNum(gq.GetProposalId()) != after.gen) {
		add("smr-accessor-mismatch", "Smr.GetGenericQC disagrees with the tree's GenericQC %s", optStr(after.gen))
	}
	// 6. HighQC view never decreases except by explicit rollback
	if op[0] != "enforce" && op[0] != "reset" && after.highView < before.highView {
		add("highqc-view-decreased", "HighQC view went from %d to %d during %s", before.highView, after.highView, op[0])
	}
	// 7. the root only moves to a descendant of the previous root
	if op[0] != "reset" && after.root != before.root && before.mainCnt[after.root] == 0 {
		add("root-not-descendant", "Root moved from %d to %d which was not in the tree below the old root", before.root, after.root)
	}
	if op[0] != "reset" && op[0] != "commit" && op[0] != "prop" && after.root != before.root {
		add("root-moved-without-commit", "Root moved from %d to %d during %s", before.root, after.root, op[0])
	}
	// 8. pacemaker view is max-monotone
	if op[0] != "reset" && after.pmView < before.pmView {
		add("pacemaker-decreased", "pacemaker view went from %d to %d", before.pmView, after.pmView)
	}
	if op[0] == "pm" && len(op) == 2 {
		v, _ := strconv.ParseInt(op[1], 10, 64)
		if after.pmView < v+1 {
			add("pacemaker-behind", "pacemaker view %d after a certificate of view %d", after.pmView, v)
		}
	}
	return vs
}

// ---------------------------------------------------------------- executor

func mkNode(f []string) (*bft.ProposalNode, bool) {
	id, e1 := strconv.Atoi(f[0])
	view, e2 := strconv.ParseInt(f[1], 10, 64)
	pview, e4 := strconv.ParseInt(f[3], 10, 64)
	if e1 != nil || e2 != nil || e4 != nil || id < 0 {
		return nil, false
	}
	vi := &bft.VoteInfo{ProposalId: idBytes(id), ProposalView: view, ParentView: pview}
	if f[2] != "-" {
		p, e3 := strconv.Atoi(f[2])
		if e3 != nil || p < 0 {
			return nil, false
		}
		vi.ParentId = idBytes(p)
	}
	return &bft.ProposalNode{In: &bft.QuorumCert{VoteInfo: vi, LedgerCommitInfo: &bft.LedgerCommitInfo{VoteInfoHash: idBytes(id)}}}, true
}

// apply runs one op on the real code; returns (status, ok) — status "" means bad-op.
func apply(x *world, f []string) (status string) {
	defer func() {
		if r := recover(); r != nil {
			status = "panic"
		}
	}()
	t := x.tree
	switch {
	case f[0] == "ins" && len(f) == 5:
		n, ok := mkNode(f[1:])
		if !ok {
			return ""
		}
		// Smr.UpdateQcStatus = ledger-state bookkeeping + qcTree.updateQcStatus
		if err := x.smr.UpdateQcStatus(n); err != nil {
			return "err"
		}
		return "ok"
	case f[0] == "prop" && len(f) == 6:
		n, ok := mkNode(f[1:5])
		if !ok || f[3] == "-" {
			return ""
		}
		p, _ := strconv.Atoi(f[3])
		pv, _ := strconv.ParseInt(f[4], 10, 64)
		x.pm.AdvanceView(&bft.QuorumCert{VoteInfo: &bft.VoteInfo{ProposalId: idBytes(p), ProposalView: pv}})
		if f[5] == "1" {
			t.VerifUpdateCommit(idBytes(p))
		}
		if err := t.VerifUpdateQcStatus(n); err != nil {
			return "err"
		}
		return "ok"
	case len(f) == 2:
		id, err := strconv.Atoi(f[1])
		if err != nil {
			return ""
		}
		switch f[0] {
		case "high":
			if id%2 == 0 {
				t.VerifUpdateHighQC(idBytes(id))
			} else {
				// Smr.UpdateJustifyQcStatus = vote bookkeeping + qcTree.updateHighQC(justify id)
				x.smr.UpdateJustifyQcStatus(&bft.QuorumCert{VoteInfo: &bft.VoteInfo{ProposalId: idBytes(id)},
					SignInfos: []*bftpb.QuorumCertSign{{Address: "xv-voter"}}})
			}
			return "ok"
		case "vote":
			n := t.DFSQueryNode(idBytes(id))
			if n == nil {
				return "err" // handleReceivedVoteMsg drops votes for proposals not in the tree
			}
			x.pm.AdvanceView(n.In)
			t.VerifUpdateHighQC(idBytes(id))
			return "ok"
		case "enforce":
			if err := x.smr.EnforceUpdateHighQC(idBytes(id)); err != nil {
				return "err"
			}
			return "ok"
		case "commit":
			t.VerifUpdateCommit(idBytes(id))
			return "ok"
		case "pm":
			x.pm.AdvanceView(&bft.QuorumCert{VoteInfo: &bft.VoteInfo{ProposalView: int64(id)}})
			return "ok"
		}
	}
	return ""
}

// step executes one op line on the current case; returns the canonical answer and the violations.
func step(line string) (string, []viol) {
	f := strings.Fields(line)
	if len(f) == 0 {
		return "bad-op", nil
	}
	if f[0] == "reset" && len(f) == 1 {
		w = newWorld()
		s := takeSnap(w)
		w.ops, w.impl = []string{line}, []string{"ok " + s.dump()}
		return "ok " + s.dump(), check(w, f, true, s, s)
	}
	if w == nil {
		w = newWorld()
	}
	if f[0] == "dump" && len(f) == 1 {
		s := takeSnap(w)
		return "ok " + s.dump(), nil
	}
	before := takeSnap(w)
	st := apply(w, f)
	if st == "" {
		return "bad-op", nil
	}
	after := takeSnap(w)
	var ans string
	if f[0] == "pm" {
		ans = fmt.Sprintf("view %d", after.pmView)
	} else {
		ans = st + " " + after.dump()
	}
	w.ops = append(w.ops, line)
	w.impl = append(w.impl, ans)
	var vs []viol
	if st == "panic" {
		vs = append(vs, viol{"panic", "the operation panicked"})
	}
	vs = append(vs, check(w, f, st == "ok", before, after)...)
	return ans, vs
}

// runCase executes a whole case silently and returns the keys violated (used by the shrinker).
func runCase(ops []string) map[string]bool {
	saved := w
	defer func() { w = saved }()
	keys := map[string]bool{}
	for _, l := range ops {
		_, vs := step(l)
		for _, v := range vs {
			keys[v.key] = true
		}
	}
	return keys
}

// shrink removes ops while the violation `key` persists (delta debugging, one op at a time).
func shrink(ops []string, key string) []string {
	cur := append([]string{}, ops...)
	for changed := true; changed; {
		changed = false
		for i := len(cur) - 1; i >= 1; i-- {
			cand := append(append([]string{}, cur[:i]...), cur[i+1:]...)
			if runCase(cand)[key] {
				cur = cand
				changed = true
			}
		}
	}
	return cur
}

// ---------------------------------------------------------------- generator

type prop struct {
	id, parent  int
	view, pview int64
	depth       int
}

func (p prop) ins() string {
	return fmt.Sprintf("ins %d %d %d %d", p.id, p.view, p.parent, p.pview)
}

// randomTree grows a block tree of n proposals below proposal 0.
func randomTree(r *xvlib.Rng, n int, chainBias int) []prop {
	ps := []prop{{id: 0, parent: -1}}
	for i := 1; i <= n; i++ {
		var par prop
		if r.Intn(100) < chainBias {
			par = ps[len(ps)-1]
		} else {
			par = ps[r.Intn(len(ps))]
		}
		v := par.view + 1
		if r.Chance(1, 8) {
			v += int64(r.Intn(3))
		}
		ps = append(ps, prop{id: i, parent: par.id, view: v, pview: par.view, depth: par.depth + 1})
	}
	return ps[1:]
}

func perm(r *xvlib.Rng, n int) []int {
	p := make([]int, n)
	for i := range p {
		p[i] = i
	}
	for j := n - 1; j > 0; j-- {
		k := r.Intn(j + 1)
		p[j], p[k] = p[k], p[j]
	}
	return p
}

func randomCase(r *xvlib.Rng) []string {
	n := 3 + r.Intn(10)
	ps := randomTree(r, n, []int{30, 60, 85}[r.Intn(3)])
	// arrival order: a permutation, locally perturbed from "parents first" with varying disorder
	order := make([]int, n)
	for i := range order {
		order[i] = i
	}
	switch r.Intn(4) {
	case 0: // fully random
		order = perm(r, n)
	case 1: // children before parents
		for i := range order {
			order[i] = n - 1 - i
		}
		fallthrough
	default: // a few random swaps
		for k := r.Intn(n + 1); k > 0; k-- {
			i, j := r.Intn(n), r.Intn(n)
			order[i], order[j] = order[j], order[i]
		}
	}
	ops := []string{"reset"}
	var arrived []int
	pick := func() int {
		if len(arrived) == 0 || r.Chance(1, 10) {
			return r.Intn(n + 2)
		}
		if r.Chance(1, 2) {
			return arrived[len(arrived)-1-r.Intn(min(3, len(arrived)))]
		}
		return arrived[r.Intn(len(arrived))]
	}
	for _, i := range order {
		p := ps[i]
		switch {
		case r.Chance(1, 6):
			ops = append(ops, fmt.Sprintf("prop %d %d %d %d %d", p.id, p.view, p.parent, p.pview, r.Intn(2)))
		default:
			ops = append(ops, p.ins())
		}
		arrived = append(arrived, p.id)
		for r.Chance(2, 5) {
			switch r.Intn(10) {
			case 0, 1, 2:
				ops = append(ops, fmt.Sprintf("high %d", pick()))
			case 3:
				ops = append(ops, fmt.Sprintf("vote %d", pick()))
			case 4, 5:
				ops = append(ops, fmt.Sprintf("commit %d", pick()))
			case 6:
				ops = append(ops, fmt.Sprintf("enforce %d", pick()))
			case 7:
				ops = append(ops, fmt.Sprintf("pm %d", r.Intn(12)))
			default: // duplicate arrival
				ops = append(ops, ps[r.Intn(n)].ins())
			}
		}
	}
	// tail: certify / commit the deepest proposals, re-deliver everything once
	for k := r.Intn(4); k > 0; k-- {
		ops = append(ops, fmt.Sprintf("high %d", pick()), fmt.Sprintf("commit %d", pick()))
	}
	if r.Chance(1, 2) {
		for _, i := range perm(r, n) {
			ops = append(ops, ps[i].ins())
		}
	}
	return ops
}

// exhaustive: every block tree of n proposals (parent vector) x every arrival order, followed by
// certification and commit of the deepest proposal and a full re-delivery.
func exhaustive(n int, f func([]string)) {
	parents := make([]int, n+1)
	var permute func(a []int, k int, g func([]int))
	permute = func(a []int, k int, g func([]int)) {
		if k == len(a) {
			g(a)
			return
		}
		for i := k; i < len(a); i++ {
			a[k], a[i] = a[i], a[k]
			permute(a, k+1, g)
			a[k], a[i] = a[i], a[k]
		}
	}
	var rec func(i int)
	rec = func(i int) {
		if i > n {
			depth := make([]int, n+1)
			deepest := 0
			for j := 1; j <= n; j++ {
				depth[j] = depth[parents[j]] + 1
				if depth[j] > depth[deepest] {
					deepest = j
				}
			}
			ids := make([]int, n)
			for j := range ids {
				ids[j] = j + 1
			}
			permute(ids, 0, func(o []int) {
				ops := []string{"reset"}
				for _, j := range o {
					ops = append(ops, fmt.Sprintf("ins %d %d %d %d", j, depth[j], parents[j], depth[j]-1))
				}
				ops = append(ops, fmt.Sprintf("high %d", deepest), fmt.Sprintf("commit %d", deepest))
				ops = append(ops, fmt.Sprintf("ins %d %d %d %d", o[0], depth[o[0]], parents[o[0]], depth[o[0]]-1))
				ops = append(ops, fmt.Sprintf("high %d", o[n-1]))
				f(ops)
			})
			return
		}
		for p := 0; p < i; p++ {
			parents[i] = p
			rec(i + 1)
		}
	}
	rec(1)
}

func min(a, b int) int {
	if a < b {
		return a
	}
	return b
}

// ---------------------------------------------------------------- main

func main() {
	args := xvlib.ParseArgs()
	logger = xvlib.Logger("qctree")
	out := xvlib.NewOut(args.Out)
	defer out.Close()
	reported := map[string]int{}
	info = out.Count
	runLine := func(line string) {
		ans, vs := step(line)
		out.Emit(line, ans)
		out.Count("op:" + strings.Fields(line)[0] + ":" + strings.Fields(ans)[0])
		for _, v := range vs {
			out.Count("violation:" + v.key)
			if reported[v.key] >= 2 {
				continue
			}
			reported[v.key]++
			ops := shrink(w.ops, v.key)
			saved := w
			var impl []string
			for _, l := range ops {
				a, _ := step(l)
				impl = append(impl, a)
			}
			w = saved
			out.Violate(xvlib.Violation{Key: v.key, What: v.what, Ops: ops, Impl: impl[len(impl)-1:],
				Extra: "unshrunk case: " + strings.Join(saved.ops, " ; ")})
		}
	}
	runCaseOut := func(ops []string) {
		for _, l := range ops {
			runLine(l)
		}
		s := takeSnap(w)
		nontrivial := len(s.orphRoots) > 0 || len(w.gone) > 0 || s.root != 0 || len(s.mainCnt) > 2
		out.Case(strings.Join(ops, ";"), nontrivial)
		if len(s.orphRoots) > 0 {
			out.Count("case:ends-with-orphans")
		}
		if s.root != 0 {
			out.Count("case:root-moved")
		}
		if len(w.gone) > 0 {
			out.Count("case:pruned-or-expired")
		}
		out.Count(fmt.Sprintf("case:stored=%02d", len(s.mainCnt)+len(s.orphCnt)))
	}
	if args.Replay != "" {
		var cur []string
		for _, l := range xvlib.ReadLines(args.Replay) {
			if strings.HasPrefix(l, "reset") && len(cur) > 0 {
				runCaseOut(cur)
				cur = nil
			}
			cur = append(cur, l)
		}
		if len(cur) > 0 {
			if !strings.HasPrefix(cur[0], "reset") {
				cur = append([]string{"reset"}, cur...)
			}
			runCaseOut(cur)
		}
		return
	}
	// corpus first: minimal replays of repaired defects (a regression is a fresh violation)
	corpus, _ := filepath.Glob(filepath.Join("corpus", args.Prop, "*.ops"))
	sort.Strings(corpus)
	for _, f := range corpus {
		var cur []string
		for _, l := range xvlib.ReadLines(f) {
			if strings.HasPrefix(l, "reset") && len(cur) > 0 {
				runCaseOut(cur)
				cur = nil
			}
			cur = append(cur, l)
		}
		if len(cur) > 0 {
			runCaseOut(cur)
		}
		out.Count("corpus-file")
	}
	rng := xvlib.NewRng(args.Seed)
	exN, randCases := 5, 20000
	if args.Tier == "thorough" {
		exN, randCases = 6, 150000
	}
	if v := xvlib.EnvInt("XV_QCTREE_EXN", 0); v > 0 {
		exN = v
	}
	for n := 1; n <= exN; n++ {
		exhaustive(n, runCaseOut)
	}
	for i := 0; i < randCases; i++ {
		ops := randomCase(rng)
		runCaseOut(ops)
		if i < 3 {
			out.Sample(map[string]interface{}{"ops": ops, "final": w.impl[len(w.impl)-1]})
		}
	}
	out.Stats.Exhaustive = false
	out.Stats.Rule = fmt.Sprintf("every block tree of n ≤ %d proposals (all parent vectors) × every arrival order (n! permutations), each followed by certification and commit of the deepest proposal, one duplicate arrival and one more certification; plus %d random cases: block trees of 3..12 proposals (chain bias 30/60/85%%, occasional view gaps), arrival orders from parents-first to children-first to uniformly random, interleaved updateHighQC / vote-quorum / updateCommit / enforceUpdateHighQC / pacemaker / duplicate arrivals / proposal-with-commit ops and a full re-delivery; after EVERY op the full dump is compared with the model and the C15 oracle is evaluated on the real pointer structure; a case is non-trivial if it ends with orphans, a moved root, pruned/expired proposals or ≥ 3 tree nodes; distinct by op list", exN, randCases)
}
