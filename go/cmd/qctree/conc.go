// conc: several INDEPENDENT pending trees of one process driven at the same time (C15 is a property of every node's
// tree; two chains of one process, or the replicas of an in-process test net, each own one). Nothing of one tree may
// depend on what happens in another: package-level scratch space, caches keyed by proposal id, pooled node objects,
// a shared orphan store ... would all be invisible to any number of single-tree cases.
//
//	conc <k> <seed>        k (2..6) threads; thread i builds its OWN tree (own pacemaker, own Smr) with the real code by
//	                       replaying the first max(1, n-i) of the n op lines the case has executed so far (from its
//	                       `reset` line on; thread 0 replays the whole case, the others stop 1, 2, ... ops earlier, so
//	                       the trees hold the same ids at different stages). The threads are interleaved
//	                       DETERMINISTICALLY: every certificate of a thread's tree is wrapped (yqc) so that each call of
//	                       GetProposalId / GetParentProposalId / GetProposalView made by the code under verification -
//	                       one per node visited by DFSQuery, per parent lookup, per orphan scan, per view comparison -
//	                       is a yield point at which a scheduler seeded with <seed>
//	                       passes control to another thread (one thread runs at a time; same line => same schedule).
//	                       -> ok <final dump of thread 0> | <final dump of thread 1> | ...
//	conc <k> <seed> free   the same threads as free-running goroutines (every second yield point = runtime.Gosched; each
//	                       thread builds its tree 30 times over so that the goroutines overlap): real parallelism; the answer is compared with the model like the scheduled one (the
//	                       sequential answers do not depend on the schedule), a failure may need several replays.
//
// Sequential meaning (Lean driver): the trees are independent, so every thread ends exactly where the sequential run of
// its prefix ends (XV.C15.interleaved_eq_sequential). Impl-side oracle, independent of the model: (1) every answer line
// (status + full dump after every op) of every thread equals the answer the real code gave when the case ran alone
// (`conc:differs-from-sequential`); (2) the C15 oracle (check / checkInit) is evaluated on every thread's tree after every
// op (`conc:<key>`).
package main

import (
	"fmt"
	"runtime"
	"strconv"
	"strings"
	"sync"
	"sync/atomic"
	"time"

	bft "github.com/xuperchain/xupercore/kernel/consensus/base/driver/chained-bft"
	"xv/xvlib"
)

type thread struct {
	id     int
	s      *csched
	wake   chan struct{}
	done   bool
	active bool // inside an operation of the code under verification: yield points are live
	lines  []string
	seq    []string // the answers the real code gave to these lines when the case ran alone
	diff   string   // first answer that differs from seq
	vs     []viol
	final  string
}

type csched struct {
	free     bool
	rng      *xvlib.Rng
	threads  []*thread
	allDone  chan struct{}
	yields   int
	switches int
	cur      *thread // scheduled mode: the thread that holds the token
	ctr      uint64  // free mode: yield counter
}

// yqc: a certificate whose id read is a yield point of the thread that owns the tree.
type yqc struct {
	*bft.QuorumCert
	th *thread
}

// The yield belongs to the thread that is RUNNING (the token holder), not to the owner of the node: code that has been
// led into another tree's nodes must not be mistaken for that tree's thread.
func (q *yqc) yieldPoint() {
	if s := q.th.s; s.free {
		if atomic.AddUint64(&s.ctr, 1)%2 == 0 {
			runtime.Gosched()
		}
	} else if t := s.cur; t != nil && t.active {
		t.yield()
	}
}

func (q *yqc) GetProposalId() []byte {
	q.yieldPoint()
	return q.QuorumCert.GetProposalId()
}

// the other reads the tree code makes of a stored certificate (parent lookups, view comparisons) are yield points too
func (q *yqc) GetParentProposalId() []byte {
	q.yieldPoint()
	return q.QuorumCert.GetParentProposalId()
}

func (q *yqc) GetProposalView() int64 {
	q.yieldPoint()
	return q.QuorumCert.GetProposalView()
}

func (x *world) wrap(n *bft.ProposalNode) {
	if x.th == nil || n == nil {
		return
	}
	if qc, ok := n.In.(*bft.QuorumCert); ok {
		n.In = &yqc{qc, x.th}
	}
}

// setThread hands the world to a thread: the nodes InitQCTree built get yielding certificates too.
func (x *world) setThread(th *thread) {
	if th == nil || x == nil {
		return
	}
	x.th = th
	if x.tree == nil {
		return
	}
	for _, d := range dumpWalk(x.tree, walkLimit) {
		x.wrap(d.Node)
	}
	for _, n := range []*bft.ProposalNode{x.tree.Genesis, x.tree.HighQC, x.tree.GenericQC, x.tree.LockedQC, x.tree.CommitQC} {
		x.wrap(n)
	}
}

func (t *thread) yield() {
	s := t.s
	s.yields++
	if !s.rng.Bool() {
		return
	}
	var cand []*thread
	for _, o := range s.threads {
		if o != t && !o.done {
			cand = append(cand, o)
		}
	}
	if len(cand) == 0 {
		return
	}
	s.switches++
	cand[s.rng.Intn(len(cand))].wake <- struct{}{}
	<-t.wake
	s.cur = t
}

// finish: the thread is through; the token goes to a thread that is not, or back to the op.
func (t *thread) finish() {
	s := t.s
	t.done = true
	for _, o := range s.threads {
		if !o.done {
			o.wake <- struct{}{}
			return
		}
	}
	close(s.allDone)
}

func (t *thread) body() {
	defer func() {
		if r := recover(); r != nil {
			t.vs = append(t.vs, viol{"structure-unwalkable", fmt.Sprintf("thread %d panicked outside an operation: %v", t.id, r)})
			t.final = "panic"
		}
	}()
	// free-running threads are through in microseconds: each builds its tree freeReps times so that the goroutines overlap
	reps := 1
	if t.s.free {
		reps = freeReps
	}
	for rep := 0; rep < reps; rep++ {
		var x *world
		for j, l := range t.lines {
			var a string
			var vs []viol
			x, a, vs = stepW(x, t, l)
			if t.diff == "" && j < len(t.seq) && a != t.seq[j] {
				t.diff = fmt.Sprintf("answers `%s` to op %d `%s`; the same ops alone gave `%s`", a, j+1, l, t.seq[j])
			}
			t.vs = append(t.vs, vs...)
		}
		if x == nil || x.tree == nil {
			t.final = "no-tree"
			return
		}
		if d := takeSnap(x).dump(); rep == 0 || d != t.final {
			if rep > 0 && t.diff == "" {
				t.diff = fmt.Sprintf("ends with `%s` in one run and with `%s` in another", t.final, d)
			}
			t.final = d
		}
	}
}

const freeReps = 30

// stepConc executes `conc <k> <seed> [free]` on the case held in the global w.
func stepConc(f []string) (ans string, vs []viol) {
	if len(f) != 3 && !(len(f) == 4 && f[3] == "free") {
		return "bad-op", nil
	}
	k, e1 := strconv.Atoi(f[1])
	seed, e2 := strconv.ParseUint(f[2], 10, 64)
	if e1 != nil || e2 != nil || k < 2 || k > 6 {
		return "bad-op", nil
	}
	if w == nil {
		w, _ = newWorld(1, 0)
		w.ops = []string{"reset"}
		w.impl = []string{"ok " + takeSnap(w).dump()}
	}
	if w.tree == nil {
		return "no-tree", nil
	}
	hist, seq := w.ops, w.impl
	s := &csched{free: len(f) == 4, rng: xvlib.NewRng(seed*2654435761 + 17), allDone: make(chan struct{})}
	for i := 0; i < k; i++ {
		n := len(hist) - i
		if n < 1 {
			n = 1
		}
		s.threads = append(s.threads, &thread{id: i, s: s, wake: make(chan struct{}, 1), lines: hist[:n], seq: seq})
	}
	if s.free {
		var wg sync.WaitGroup
		for _, t := range s.threads {
			wg.Add(1)
			go func(t *thread) { defer wg.Done(); t.body() }(t)
		}
		wg.Wait()
	} else {
		for _, t := range s.threads {
			go func(t *thread) {
				<-t.wake
				s.cur = t
				defer t.finish()
				t.body()
			}(t)
		}
		s.threads[int(seed%uint64(k))].wake <- struct{}{}
		select {
		case <-s.allDone:
		case <-time.After(60 * time.Second):
			return "stuck", []viol{{"conc:stuck", fmt.Sprintf("%d independent trees driven at the same time: the threads did not finish within 60 s", k)}}
		}
	}
	info(fmt.Sprintf("conc:threads=%d", k))
	if s.switches > 0 {
		info("conc:interleaved")
	}
	var finals []string
	seen := map[string]bool{}
	for _, t := range s.threads {
		finals = append(finals, t.final)
		for _, v := range t.vs {
			key := "conc:" + v.key
			if !seen[key] {
				seen[key] = true
				vs = append(vs, viol{key, fmt.Sprintf("tree of thread %d (ops 1..%d of the case, %d other trees driven at the same time): %s", t.id, len(t.lines), k-1, v.what)})
			}
		}
		if t.diff != "" && !seen["conc:differs-from-sequential"] {
			seen["conc:differs-from-sequential"] = true
			vs = append(vs, viol{"conc:differs-from-sequential", fmt.Sprintf("tree of thread %d, driven while %d independent trees were driven too, %s", t.id, k-1, t.diff)})
		}
	}
	return "ok " + strings.Join(finals, " | "), vs
}
