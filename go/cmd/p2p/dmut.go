package main

// dmut <seed> <n> <mode>: a Register / UnRegister issued WHILE a Dispatch is walking the subscribers of the type - a
// deterministic interleaving, not a timing race: the n subscribers of the case are the harness's own implementation of
// p2p.Subscriber, and the first Match call of the dispatch starts the mutation in a second goroutine and waits until
// it has returned or 30 ms have passed (the unchanged code holds the read lock over the whole walk, so there the
// mutation always waits for the walk to end; code that walks a snapshot lets it through, and the walk then has to be
// unaffected by it).  mode 0: UnRegister of the lowest-numbered subscriber that has not been asked yet (never the last
// registered one if another is available), mode 1: Register of a fresh subscriber, mode 2: both (UnRegister first).
// Oracle = linearisability of the three requests: every subscriber that is registered before the dispatch starts and
// is not unregistered is handed the message exactly once ("dmut-missed" / "dmut-twice"); the unregistered and the
// fresh one at most once; a second dispatch after everything has returned reaches exactly the subscribers registered
// then, once each ("dmut-after").  Not compared with the model (the sequential answers are what reg/unreg/disp decide).

import (
	"fmt"
	"strconv"
	"sync"
	"sync/atomic"
	"time"

	xctx "github.com/xuperchain/xupercore/kernel/common/xcontext"
	"github.com/xuperchain/xupercore/kernel/network/p2p"
	pb "github.com/xuperchain/xupercore/protos"
	"xv/xvlib"
)

type msub struct {
	typ     pb.XuperMessage_MessageType
	id      int
	asked   map[string]*int64 // logid -> Match calls
	got     map[string]*int64 // logid -> HandleMessage calls
	onMatch func(s *msub, m *pb.XuperMessage)
}

func newMsub(typ pb.XuperMessage_MessageType, id int, logids []string) *msub {
	s := &msub{typ: typ, id: id, asked: map[string]*int64{}, got: map[string]*int64{}}
	for _, l := range logids {
		s.asked[l] = new(int64)
		s.got[l] = new(int64)
	}
	return s
}

func (s *msub) GetMessageType() pb.XuperMessage_MessageType { return s.typ }
func (s *msub) Match(m *pb.XuperMessage) bool {
	if c := s.asked[m.GetHeader().GetLogid()]; c != nil {
		atomic.AddInt64(c, 1)
	}
	if s.onMatch != nil {
		s.onMatch(s, m)
	}
	return true
}
func (s *msub) HandleMessage(_ xctx.XContext, m *pb.XuperMessage, _ p2p.Stream) error {
	if c := s.got[m.GetHeader().GetLogid()]; c != nil {
		atomic.AddInt64(c, 1)
	}
	return nil
}

func execDmut(w []string, line string, out *xvlib.Out) string {
	seed, _ := strconv.ParseUint(w[1], 10, 64)
	n, _ := strconv.Atoi(w[2])
	mode, _ := strconv.Atoi(w[3])
	if n < 2 || n > 64 || mode < 0 || mode > 2 {
		return "bad-op"
	}
	r := xvlib.NewRng(seed)
	types := []int{0, 1, 2, 3, 4, 5, 6, 7, 8, 9, 11, 12, 13, 14, 15}
	typ := pb.XuperMessage_MessageType(types[r.Intn(len(types))])
	d := p2p.NewDispatcher(netCtx())
	logids := []string{"dmut-1", "dmut-2"}
	subs := make([]*msub, n)
	viol := func(key, what string) {
		if out != nil {
			out.Violate(xvlib.Violation{Key: key, What: what, Ops: []string{line}, Impl: []string{key}})
		}
	}
	for i := range subs {
		subs[i] = newMsub(typ, i, logids)
		if err := d.Register(subs[i]); err != nil {
			viol("dmut-register", fmt.Sprint(err))
			return "-"
		}
	}
	fresh := newMsub(typ, n, logids)
	var once int32
	var victim *msub
	var mutDone sync.WaitGroup
	hook := func(self *msub, m *pb.XuperMessage) {
		if m.GetHeader().GetLogid() != logids[0] || !atomic.CompareAndSwapInt32(&once, 0, 1) {
			return
		}
		if mode != 1 {
			// the lowest-numbered subscriber not asked yet, other than the one being asked; not the last one if possible
			for pass := 0; pass < 2 && victim == nil; pass++ {
				for i, s := range subs {
					if s == self || atomic.LoadInt64(s.asked[logids[0]]) != 0 || (pass == 0 && i == n-1) {
						continue
					}
					victim = s
					break
				}
			}
		}
		done := make(chan struct{})
		mutDone.Add(1)
		go func() {
			defer mutDone.Done()
			if victim != nil {
				d.UnRegister(victim)
			}
			if mode != 0 {
				d.Register(fresh)
			}
			close(done)
		}()
		select {
		case <-done:
		case <-time.After(30 * time.Millisecond):
		}
	}
	for _, s := range subs {
		s.onMatch = hook
	}
	mk := func(logid string) *pb.XuperMessage {
		return &pb.XuperMessage{Header: &pb.XuperMessage_MessageHeader{Type: typ, Bcname: "xuper", From: "p1", Logid: logid}, Data: &pb.XuperMessage_MessageData{}}
	}
	if err := d.Dispatch(mk(logids[0]), &stream{}); err != nil {
		viol("dmut-dispatch-result", fmt.Sprint(err))
	}
	mutDone.Wait()
	cnt := func(s *msub, l string) int64 { return atomic.LoadInt64(s.got[l]) }
	for _, s := range subs {
		c := cnt(s, logids[0])
		switch {
		case s != victim && c == 0:
			viol("dmut-missed", fmt.Sprintf("subscriber %d of %d, registered before the dispatch and never unregistered, was not handed the message (a Register/UnRegister of another subscriber ran during the dispatch)", s.id, n))
		case c > 1:
			viol("dmut-twice", fmt.Sprintf("subscriber %d of %d was handed one message %d times (a Register/UnRegister ran during the dispatch)", s.id, n, c))
		}
	}
	if c := cnt(fresh, logids[0]); c > 1 {
		viol("dmut-twice", fmt.Sprintf("the subscriber registered during the dispatch was handed the message %d times", c))
	}
	// quiescent: a second message reaches exactly the registered subscribers, once each
	if err := d.Dispatch(mk(logids[1]), &stream{}); err != nil {
		viol("dmut-dispatch-result", fmt.Sprint(err))
	}
	for _, s := range append(append([]*msub{}, subs...), fresh) {
		want := int64(1)
		if s == victim || (s == fresh && mode == 0) {
			want = 0
		}
		if c := cnt(s, logids[1]); c != want {
			viol("dmut-after", fmt.Sprintf("after UnRegister/Register during a dispatch had returned, subscriber %d of %d was handed the next message %d times, expected %d", s.id, n, c, want))
		}
	}
	return "-"
}
