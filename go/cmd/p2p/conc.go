package main

// conc <seed> <n> <rounds>: messages are built and decoded by many goroutines of a node at once (every peer stream has its
// own). n workers, each with its own payload (sizes from a few bytes to beyond 64 KiB, compressible and not): every round each worker builds its message and decodes it - and decodes the messages the other
// workers built in the round before; every decode must give the payload that was sent. Answers are not compared with the
// model (the sequential behaviour of the same calls is what msg / cor decide).

import (
	"fmt"
	"strconv"
	"sync"

	"github.com/golang/protobuf/proto"
	"github.com/xuperchain/xupercore/kernel/network/p2p"
	pb "github.com/xuperchain/xupercore/protos"
	"xv/xvlib"
)

func execConc(w []string, line string, out *xvlib.Out) string {
	seed, _ := strconv.ParseUint(w[1], 10, 64)
	n, _ := strconv.Atoi(w[2])
	rounds, _ := strconv.Atoi(w[3])
	r := xvlib.NewRng(seed)
	type worker struct {
		data *pb.XuperMessage_MessageData
		orig []byte
	}
	ws := make([]*worker, n)
	for i := range ws {
		size := []int{3, 40, 700, 5000, 40000, 70000}[r.Intn(6)] + r.Intn(50)
		b := make([]byte, size)
		for j := range b {
			if r.Chance(1, 2) {
				b[j] = byte('a' + i%26) // compressible, different per worker
			} else {
				b[j] = byte(r.Intn(256))
			}
		}
		d := &pb.XuperMessage_MessageData{MsgInfo: b}
		orig, _ := proto.Marshal(d)
		ws[i] = &worker{data: d, orig: orig}
	}
	var mu sync.Mutex
	bad := ""
	prev := make([]*pb.XuperMessage, n)
	for k := 0; k < rounds && bad == ""; k++ {
		cur := make([]*pb.XuperMessage, n)
		var wg sync.WaitGroup
		start := make(chan struct{})
		for i := range ws {
			wg.Add(1)
			go func(i int) {
				defer wg.Done()
				defer func() {
					if p := recover(); p != nil {
						mu.Lock()
						bad = fmt.Sprint("panic:", p)
						mu.Unlock()
					}
				}()
				<-start
				x := ws[i]
				msg := p2p.NewMessage(pb.XuperMessage_POSTTX, x.data)
				cur[i] = msg
				res := decode(msg, x.orig)
				if j := (i + 1) % n; res == "ok" && prev[j] != nil {
					res = decode(prev[j], ws[j].orig)
				}
				if res != "ok" {
					mu.Lock()
					bad = res
					mu.Unlock()
				}
			}(i)
		}
		close(start)
		wg.Wait()
		prev = cur
	}
	if bad != "" && out != nil {
		out.Violate(xvlib.Violation{Key: "roundtrip-under-concurrency:" + bad,
			What: "messages built and decoded by several goroutines at once: a message does not decode to the payload that was sent (" + bad + "); alone, the same calls do",
			Ops:  []string{line}, Impl: []string{bad}})
	}
	return "-"
}
