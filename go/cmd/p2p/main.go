// Engine `p2p` (C20): drives the real kernel/network/p2p message codec and dispatcher.
//
// op lines (also the input of the Lean driver `xvdriver p2p`):
//
//	crc <hex|->                               crc32.ChecksumIEEE / p2p.Checksum              -> %08x
//	resp <t>                                  p2p.GetRespMessageType                          -> number
//	vmt <req> <resp> <samelog> <samefrom>     p2p.VerifyMessageType                           -> true|false
//	msg <typ> <opts|-> <m> <z>                p2p.NewMessage, p2p.Unmarshal in-process and after the
//	                                          envelope went through proto.Marshal/Unmarshal   -> sum=… comp=… bc=… ver=… err=… log=… inproc=… wire=…
//	cor <typ> <m> <z> <startbit> <pattern>    NewMessage, xor <pattern> into MsgInfo at <startbit>,
//	                                          p2p.VerifyChecksum / p2p.Unmarshal              -> verify=<0|1> unmarshal=<checksum|other>
//	reset                                     new dispatcher, empty subscriber pool           -> ok
//	sub <id> <typ> <bc|-> <from|-> [chan]     p2p.NewSubscriber (recording handler / channel) -> ok
//	reg <id> / unreg <id>                     Dispatcher.Register / UnRegister                -> ok|suberr|registered|notreg
//	disp <typ> <bc> <from> <logid> <sum> [nostream]   Dispatcher.Dispatch                     -> ok:<ids handled>|streamnil|notreg
//	dispbad <nomsg|nohdr|nodata>              Dispatch of an incomplete message               -> empty
//	tick <ms>                                 real sleep (the de-duplication cache is wall clock) -> ok
//	stress <seed> <goroutines> <rounds> <iters>   concurrent Register/UnRegister/Dispatch in a child process -> not compared
//	dmut <seed> <n> <mode>                    Register/UnRegister from inside a Dispatch's walk (dmut.go) -> not compared
//
// m = marshalled payload in hex (`nil`: nil message, `-`: a message that marshals to zero bytes),
// z = snappy.Encode(m) in hex (`-` when m is empty).  opts = comma list of b=<bcname> l=<logid>
// v=<version> e=<errorType>, applied in order.
package main

import (
	"bytes"
	"encoding/hex"
	"errors"
	"flag"
	"fmt"
	"hash/crc32"
	"os"
	"os/exec"
	"path/filepath"
	"sort"
	"strconv"
	"strings"
	"sync"
	"sync/atomic"
	"time"

	"github.com/golang/protobuf/proto"
	"github.com/golang/snappy"
	xconf "github.com/xuperchain/xupercore/kernel/common/xconfig"
	xctx "github.com/xuperchain/xupercore/kernel/common/xcontext"
	nctx "github.com/xuperchain/xupercore/kernel/network/context"
	"github.com/xuperchain/xupercore/kernel/network/p2p"
	"github.com/xuperchain/xupercore/lib/timer"
	pb "github.com/xuperchain/xupercore/protos"
	"xv/xvlib"
)

const windowMs = 3000 // the de-duplication window the property speaks of (MaskHandled: 3 s)

// ---------------------------------------------------------------- helpers

func netCtx() *nctx.NetCtx {
	c := &nctx.NetCtx{EnvCfg: &xconf.EnvConf{}}
	c.XLog = xvlib.Logger("p2p")
	c.Timer = timer.NewXTimer()
	return c
}

func hexOrDash(b []byte) string {
	if len(b) == 0 {
		return "-"
	}
	return hex.EncodeToString(b)
}

func parseHex(s string) ([]byte, bool) {
	if s == "-" {
		return []byte{}, true
	}
	b, err := hex.DecodeString(s)
	return b, err == nil
}

func strOf(s string) string {
	if s == "-" {
		return ""
	}
	return s
}

func showStr(s string) string {
	if s == "" {
		return "-"
	}
	return s
}

// safely runs f; a panic is reported as answer "panic" and as a violation
func guarded(out *xvlib.Out, ops []string, f func() string) (res string) {
	defer func() {
		if r := recover(); r != nil {
			res = "panic"
			if out != nil {
				out.Violate(xvlib.Violation{Key: "panic:" + strings.Fields(ops[len(ops)-1])[0], What: fmt.Sprintf("the implementation panicked: %v", r),
					Ops: ops, Impl: []string{"panic"}})
			}
		}
	}()
	return f()
}

// ---------------------------------------------------------------- messages

// payloadMsg builds the proto.Message whose marshalling is m (nil -> nil message)
func payloadMsg(tok string) (proto.Message, []byte, bool) {
	if tok == "nil" {
		return nil, nil, true
	}
	m, ok := parseHex(tok)
	if !ok {
		return nil, nil, false
	}
	msg := &pb.XuperMessage_MessageData{}
	if len(m) > 0 {
		if err := proto.Unmarshal(m, msg); err != nil {
			return nil, nil, false
		}
	}
	back, err := proto.Marshal(msg)
	if err != nil || !bytes.Equal(back, m) {
		return nil, nil, false
	}
	return msg, m, true
}

func parseOpts(tok string) ([]p2p.MessageOption, bool, bool) {
	if tok == "-" {
		return nil, false, true
	}
	var opts []p2p.MessageOption
	hasLog := false
	for _, t := range strings.Split(tok, ",") {
		if len(t) < 2 || t[1] != '=' {
			return nil, false, false
		}
		v := t[2:]
		switch t[0] {
		case 'b':
			opts = append(opts, p2p.WithBCName(v))
		case 'l':
			opts = append(opts, p2p.WithLogId(v))
			hasLog = true
		case 'v':
			opts = append(opts, p2p.WithVersion(v))
		case 'e':
			n, err := strconv.Atoi(v)
			if err != nil {
				return nil, false, false
			}
			opts = append(opts, p2p.WithErrorType(pb.XuperMessage_ErrorType(n)))
		default:
			return nil, false, false
		}
	}
	return opts, hasLog, true
}

// decode runs the real p2p.Unmarshal and compares the decoded payload with the original marshalling
func decode(msg *pb.XuperMessage, orig []byte) string {
	var got pb.XuperMessage_MessageData
	err := p2p.Unmarshal(msg, &got)
	switch err {
	case nil:
		back, _ := proto.Marshal(&got)
		if bytes.Equal(back, orig) {
			return "ok"
		}
		return "differs"
	case p2p.ErrMessageChecksum:
		return "checksum"
	case p2p.ErrMessageDecompress:
		return "decompress"
	case p2p.ErrMessageUnmarshal:
		return "unmarshal"
	}
	return "other"
}

func overWire(msg *pb.XuperMessage) (*pb.XuperMessage, error) {
	b, err := proto.Marshal(msg)
	if err != nil {
		return nil, err
	}
	var m2 pb.XuperMessage
	if err := proto.Unmarshal(b, &m2); err != nil {
		return nil, err
	}
	return &m2, nil
}

// built keeps the last messages that NewMessage returned and that decoded correctly: a message is the sender's to keep
// (send queues, retries), so building further messages must not change what an earlier one decodes to.
type builtMsg struct {
	msg  *pb.XuperMessage
	orig []byte
	line string
}

var built []builtMsg

func execMsg(w []string, line string, out *xvlib.Out) string {
	typ, err := strconv.Atoi(w[1])
	opts, hasLog, ok1 := parseOpts(w[2])
	message, m, ok2 := payloadMsg(w[3])
	z, ok3 := parseHex(w[4])
	if err != nil || !ok1 || !ok2 || !ok3 {
		return "bad-op"
	}
	if len(m) > 0 && !bytes.Equal(snappy.Encode(nil, m), z) || len(m) == 0 && len(z) != 0 {
		return "bad-op" // the line's z is not what snappy makes of m
	}
	var msg *pb.XuperMessage
	if message == nil {
		msg = p2p.NewMessage(pb.XuperMessage_MessageType(typ), nil, opts...)
	} else {
		msg = p2p.NewMessage(pb.XuperMessage_MessageType(typ), message, opts...)
	}
	inproc := decode(msg, m)
	wire := "other"
	if m2, err := overWire(msg); err == nil {
		wire = decode(m2, m)
	}
	logid := "*"
	if hasLog {
		logid = showStr(msg.Header.Logid)
	}
	comp := 0
	if msg.Header.EnableCompress {
		comp = 1
	}
	if out != nil {
		kind := "nonempty"
		if len(m) == 0 {
			kind = "empty"
		}
		if inproc != "ok" {
			out.Violate(xvlib.Violation{Key: "roundtrip:inproc:" + inproc + ":" + kind + "-payload",
				What: "a message built by NewMessage does not decode (in-process) to the payload that was sent: Unmarshal -> " + inproc,
				Ops:  []string{line}, Impl: []string{"inproc=" + inproc}})
		}
		for _, old := range built {
			if again := decode(old.msg, old.orig); again != "ok" {
				out.Violate(xvlib.Violation{Key: "roundtrip:later-build-changes-earlier-message:" + again,
					What: "a message built by NewMessage decoded to its payload, and no longer does after another message was built: Unmarshal -> " + again,
					Ops:  []string{old.line, line}, Impl: []string{"earlier message now: " + again}})
			}
		}
		if inproc == "ok" {
			built = append(built, builtMsg{msg, m, line})
			if len(built) > 4 {
				built = built[1:]
			}
		}
		if wire != "ok" {
			out.Violate(xvlib.Violation{Key: "roundtrip:wire:" + wire + ":" + kind + "-payload",
				What: "a message built by NewMessage does not decode at the receiver (after proto.Marshal/Unmarshal of the envelope) to the payload that was sent: Unmarshal -> " + wire,
				Ops:  []string{line}, Impl: []string{"wire=" + wire}})
		}
	}
	return fmt.Sprintf("sum=%08x comp=%d bc=%s ver=%s err=%d log=%s inproc=%s wire=%s", msg.Header.DataCheckSum, comp,
		showStr(msg.Header.Bcname), showStr(msg.Header.Version), int(msg.Header.ErrorType), logid, inproc, wire)
}

func burstLen(pat string) int {
	first, last := strings.IndexByte(pat, '1'), strings.LastIndexByte(pat, '1')
	if first < 0 {
		return 0
	}
	return last - first + 1
}

func execCor(w []string, line string, out *xvlib.Out) string {
	typ, err := strconv.Atoi(w[1])
	message, m, ok2 := payloadMsg(w[2])
	z, ok3 := parseHex(w[3])
	start, err2 := strconv.Atoi(w[4])
	pat := w[5]
	if err != nil || err2 != nil || !ok2 || !ok3 || strings.Trim(pat, "01") != "" {
		return "bad-op"
	}
	if len(m) > 0 && !bytes.Equal(snappy.Encode(nil, m), z) || len(m) == 0 && len(z) != 0 {
		return "bad-op"
	}
	// corv: the message is built with header options (version, chain name, ...): corruption must be detected whatever they say
	var opts []p2p.MessageOption
	if len(w) == 7 {
		o, _, ok := parseOpts(w[6])
		if !ok {
			return "bad-op"
		}
		opts = o
	}
	var msg *pb.XuperMessage
	if message == nil {
		msg = p2p.NewMessage(pb.XuperMessage_MessageType(typ), nil, opts...)
	} else {
		msg = p2p.NewMessage(pb.XuperMessage_MessageType(typ), message, opts...)
	}
	info := msg.GetData().GetMsgInfo()
	if start+len(pat) > 8*len(info) {
		return "bad-op"
	}
	bad := append([]byte{}, info...)
	for i := 0; i < len(pat); i++ {
		if pat[i] == '1' {
			bit := start + i
			bad[bit/8] ^= 1 << uint(bit%8)
		}
	}
	msg.Data.MsgInfo = bad
	v := p2p.VerifyChecksum(msg)
	var got pb.XuperMessage_MessageData
	uerr := p2p.Unmarshal(msg, &got)
	u := "other"
	if uerr == p2p.ErrMessageChecksum {
		u = "checksum"
	}
	if out != nil {
		bl := burstLen(pat)
		if bl >= 1 && bl <= 32 {
			if v || uerr != p2p.ErrMessageChecksum {
				out.Violate(xvlib.Violation{Key: "burst-undetected", What: fmt.Sprintf("a %d-bit burst in the encoded payload passed the checksum verification (VerifyChecksum=%v, Unmarshal error=%v)", bl, v, uerr),
					Ops: []string{line}, Impl: []string{fmt.Sprintf("verify=%v unmarshal=%v", v, uerr)}})
			}
			if uerr == nil {
				back, _ := proto.Marshal(&got)
				if !bytes.Equal(back, m) {
					out.Violate(xvlib.Violation{Key: "corruption-delivered", What: "a corrupted message was decoded and delivered as a different payload",
						Ops: []string{line}, Impl: []string{hex.EncodeToString(back)}})
				}
			}
		}
	}
	vi := 0
	if v {
		vi = 1
	}
	return fmt.Sprintf("verify=%d unmarshal=%s", vi, u)
}

// ---------------------------------------------------------------- dispatcher cases

type delivery struct {
	sub int
	msg *pb.XuperMessage
}

type recSub struct {
	id       int
	typ      int
	bc, from string
	sub      p2p.Subscriber
	ch       chan *pb.XuperMessage
}

type stream struct{ sends int64 }

func (s *stream) Send(*pb.XuperMessage) error { atomic.AddInt64(&s.sends, 1); return nil }

type msgID struct {
	typ             int
	bc, from, logid string
	sum             uint32
}

// dcase: one dispatcher with its subscriber pool, the delivery record, and the oracle's own shadow
// of what the property says must happen
type dcase struct {
	ctx  *nctx.NetCtx
	d    p2p.Dispatcher
	pool map[int]*recSub
	mu   sync.Mutex
	rec  []delivery
	ops  []string
	impl []string
	// shadow (oracle)
	registered map[int]bool
	typeSeen   map[int]bool
	handledAt  map[msgID]int64 // logical ms at which the message was last handled
	logical    int64
	started    time.Time
	maxSkew    time.Duration
	noShrink   bool
	probes     int
}

func newCase(ctx *nctx.NetCtx) *dcase {
	return &dcase{ctx: ctx, d: p2p.NewDispatcher(ctx), pool: map[int]*recSub{}, registered: map[int]bool{}, typeSeen: map[int]bool{},
		handledAt: map[msgID]int64{}, started: time.Now()}
}

func (c *dcase) record(id int, m *pb.XuperMessage) {
	c.mu.Lock()
	c.rec = append(c.rec, delivery{id, m})
	c.mu.Unlock()
}

func regRes(err error) string {
	switch err {
	case nil:
		return "ok"
	case p2p.ErrSubscriber:
		return "suberr"
	case p2p.ErrRegistered:
		return "registered"
	case p2p.ErrNotRegister:
		return "notreg"
	}
	return "other"
}

func oracleMatch(s *recSub, m msgID) bool {
	return s.typ == m.typ && (s.from == "" || s.from == m.from) && (s.bc == "" || s.bc == m.bc)
}

func (c *dcase) violate(out *xvlib.Out, key, what, impl string) {
	if out == nil {
		return
	}
	ops := append([]string{}, c.ops...)
	n := 0
	for _, v := range out.Stats.Violations {
		if v.Key == key {
			n++
		}
	}
	if !c.noShrink && n < 3 && !strings.Contains(strings.Join(ops, "\n"), "\ntick ") {
		ops = shrink(c.ctx, ops, key)
	}
	out.Violate(xvlib.Violation{Key: key, What: what, Ops: ops, Impl: []string{impl}})
}

// reproduces: does the op list, run on a fresh dispatcher, raise a violation with this key at its last op
func reproduces(ctx *nctx.NetCtx, ops []string, key string) bool {
	c := newCase(ctx)
	c.noShrink = true
	c.ops = []string{"reset"}
	o := &xvlib.Out{Stats: xvlib.Stats{Distribution: map[string]int{}}}
	for _, l := range ops[1:] {
		c.exec(l, o, false)
	}
	for _, v := range o.Stats.Violations {
		if v.Key == key && len(v.Ops) == len(ops) {
			return true
		}
	}
	return false
}

// shrink drops every op (but the reset and the failing last one) whose removal keeps the violation
func shrink(ctx *nctx.NetCtx, ops []string, key string) []string {
	if len(ops) < 3 || ops[0] != "reset" || !reproduces(ctx, ops, key) {
		return ops
	}
	cur := ops
	for i := len(cur) - 2; i >= 1; i-- {
		cand := append(append([]string{}, cur[:i]...), cur[i+1:]...)
		if reproduces(ctx, cand, key) {
			cur = cand
		}
	}
	return cur
}

// exec runs one dispatcher op on the real code; `sleep` = really wait on tick
func (c *dcase) exec(line string, out *xvlib.Out, sleep bool) string {
	w := strings.Fields(line)
	c.ops = append(c.ops, line)
	skew := time.Since(c.started) - time.Duration(c.logical)*time.Millisecond
	if skew > c.maxSkew {
		c.maxSkew = skew
	}
	res := guarded(out, c.ops, func() string {
		switch {
		case w[0] == "sub" && (len(w) == 5 || len(w) == 6 && w[5] == "chan"):
			id, e1 := strconv.Atoi(w[1])
			typ, e2 := strconv.Atoi(w[2])
			if e1 != nil || e2 != nil || c.pool[id] != nil {
				return "bad-op"
			}
			rs := &recSub{id: id, typ: typ, bc: strOf(w[3]), from: strOf(w[4])}
			opts := []p2p.SubscriberOption{}
			if rs.bc != "" {
				opts = append(opts, p2p.WithFilterBCName(rs.bc))
			}
			if rs.from != "" {
				opts = append(opts, p2p.WithFilterFrom(rs.from))
			}
			if len(w) == 6 {
				rs.ch = make(chan *pb.XuperMessage, 4096)
				rs.sub = p2p.NewSubscriber(c.ctx, pb.XuperMessage_MessageType(typ), rs.ch, opts...)
			} else {
				h := p2p.HandleFunc(func(_ xctx.XContext, m *pb.XuperMessage) (*pb.XuperMessage, error) {
					c.record(id, m)
					return p2p.NewMessage(p2p.GetRespMessageType(m.GetHeader().GetType()), nil), nil
				})
				rs.sub = p2p.NewSubscriber(c.ctx, pb.XuperMessage_MessageType(typ), h, opts...)
			}
			if rs.sub == nil {
				return "bad-op"
			}
			c.pool[id] = rs
			return "ok"
		case w[0] == "reg" && len(w) == 2:
			id, _ := strconv.Atoi(w[1])
			rs := c.pool[id]
			if rs == nil {
				return "bad-op"
			}
			r := regRes(c.d.Register(rs.sub))
			// oracle
			exp := "ok"
			switch {
			case rs.typ == int(pb.XuperMessage_MSG_TYPE_NONE):
				exp = "suberr"
			case c.registered[id]:
				exp = "registered"
			}
			if r != exp {
				c.violate(out, "register-result", fmt.Sprintf("Register answered %s, expected %s", r, exp), r)
			}
			if r == "ok" {
				c.registered[id] = true
			}
			if rs.typ != int(pb.XuperMessage_MSG_TYPE_NONE) {
				c.typeSeen[rs.typ] = true
			}
			return r
		case w[0] == "unreg" && len(w) == 2:
			id, _ := strconv.Atoi(w[1])
			rs := c.pool[id]
			if rs == nil {
				return "bad-op"
			}
			r := regRes(c.d.UnRegister(rs.sub))
			exp := "ok"
			switch {
			case rs.typ == int(pb.XuperMessage_MSG_TYPE_NONE):
				exp = "suberr"
			case !c.registered[id]:
				exp = "notreg"
			}
			if r != exp {
				c.violate(out, "unregister-result", fmt.Sprintf("UnRegister answered %s, expected %s", r, exp), r)
			}
			if r == "ok" {
				delete(c.registered, id)
			}
			return r
		case w[0] == "dispbad" && len(w) == 2:
			var m *pb.XuperMessage
			switch w[1] {
			case "nomsg":
			case "nohdr":
				m = &pb.XuperMessage{Data: &pb.XuperMessage_MessageData{}}
			case "nodata":
				m = &pb.XuperMessage{Header: &pb.XuperMessage_MessageHeader{}}
			default:
				return "bad-op"
			}
			err := c.d.Dispatch(m, &stream{})
			if err == p2p.ErrMessageEmpty {
				return "empty"
			}
			c.violate(out, "incomplete-message-accepted", fmt.Sprintf("Dispatch of a message without header/data answered %v", err), fmt.Sprint(err))
			return "other"
		case w[0] == "disp" && (len(w) == 6 || len(w) == 7 && w[6] == "nostream"):
			typ, e1 := strconv.Atoi(w[1])
			sum, e2 := strconv.ParseUint(w[5], 10, 32)
			if e1 != nil || e2 != nil {
				return "bad-op"
			}
			id := msgID{typ, strOf(w[2]), strOf(w[3]), strOf(w[4]), uint32(sum)}
			m := &pb.XuperMessage{Header: &pb.XuperMessage_MessageHeader{Version: p2p.MessageVersion3, Type: pb.XuperMessage_MessageType(typ),
				Bcname: id.bc, From: id.from, Logid: id.logid, DataCheckSum: id.sum}, Data: &pb.XuperMessage_MessageData{}}
			var st p2p.Stream
			if len(w) == 6 {
				st = &stream{}
			}
			c.mu.Lock()
			c.rec = c.rec[:0]
			c.mu.Unlock()
			err := c.d.Dispatch(m, st)
			// handler subscribers recorded synchronously (Dispatch waits); drain channel subscribers
			for _, rs := range c.pool {
				for rs.ch != nil && len(rs.ch) > 0 {
					c.record(rs.id, <-rs.ch)
				}
			}
			c.mu.Lock()
			var got []int
			for _, dl := range c.rec {
				if dl.msg != m {
					got = append(got, -1) // a different message object was handed over
				} else {
					got = append(got, dl.sub)
				}
			}
			c.mu.Unlock()
			sort.Ints(got)
			var res string
			switch err {
			case nil:
				strs := make([]string, len(got))
				for i, g := range got {
					strs[i] = strconv.Itoa(g)
				}
				res = "ok:" + strings.Join(strs, ",")
			case p2p.ErrStreamNil:
				res = "streamnil"
			case p2p.ErrNotRegister:
				res = "notreg"
			default:
				res = "other"
			}
			c.oracleDispatch(out, id, st != nil, err, got, res)
			return res
		case w[0] == "tick" && len(w) == 2:
			ms, e := strconv.Atoi(w[1])
			if e != nil || ms < 0 {
				return "bad-op"
			}
			if sleep {
				// sleep until the logical clock's wall position (absorbs the time the other ops took)
				c.logical += int64(ms)
				target := c.started.Add(time.Duration(c.logical) * time.Millisecond)
				if d := time.Until(target); d > 0 {
					time.Sleep(d)
				}
			} else {
				c.logical += int64(ms)
			}
			return "ok"
		}
		return "bad-op"
	})
	c.impl = append(c.impl, res)
	return res
}

// probeDelivered dispatches the same header under a log id nobody used and tells whether anybody got it
func (c *dcase) probeDelivered(id msgID) bool {
	c.probes++
	m := &pb.XuperMessage{Header: &pb.XuperMessage_MessageHeader{Version: p2p.MessageVersion3, Type: pb.XuperMessage_MessageType(id.typ),
		Bcname: id.bc, From: id.from, Logid: fmt.Sprintf("%s#xv-probe-%d", id.logid, c.probes), DataCheckSum: id.sum}, Data: &pb.XuperMessage_MessageData{}}
	c.mu.Lock()
	c.rec = c.rec[:0]
	c.mu.Unlock()
	if err := c.d.Dispatch(m, &stream{}); err != nil {
		return false
	}
	n := 0
	for _, rs := range c.pool {
		for rs.ch != nil && len(rs.ch) > 0 {
			<-rs.ch
			n++
		}
	}
	c.mu.Lock()
	n += len(c.rec)
	c.mu.Unlock()
	return n > 0
}

// the property, evaluated on what the real dispatcher did
func (c *dcase) oracleDispatch(out *xvlib.Out, id msgID, hasStream bool, err error, got []int, res string) {
	t0, seen := c.handledAt[id]
	inWindow := seen && c.logical-t0 <= windowMs
	if inWindow {
		// a repeat of a handled message inside the window: dropped
		if len(got) > 0 {
			c.violate(out, "repeat-redelivered", fmt.Sprintf("a repeat of a handled message %d ms after it was handled (window %d ms) was delivered again to %v", c.logical-t0, windowMs, got), res)
		}
		return
	}
	if !hasStream {
		if err != p2p.ErrStreamNil || len(got) > 0 {
			c.violate(out, "dispatch-result", fmt.Sprintf("Dispatch without a stream answered %v and delivered to %v", err, got), res)
		}
		return
	}
	var want []int
	for i, rs := range c.pool {
		if c.registered[i] && oracleMatch(rs, id) {
			want = append(want, i)
		}
	}
	sort.Ints(want)
	if !c.typeSeen[id.typ] {
		if err != p2p.ErrNotRegister || len(got) > 0 {
			c.violate(out, "dispatch-result", fmt.Sprintf("Dispatch of a type nobody ever registered for answered %v and delivered to %v", err, got), res)
		}
		return
	}
	if err != nil {
		c.violate(out, "dispatch-result", fmt.Sprintf("Dispatch of an acceptable message answered %v", err), res)
		return
	}
	c.handledAt[id] = c.logical
	cnt := map[int]int{}
	for _, g := range got {
		cnt[g]++
	}
	for _, g := range got {
		if cnt[g] > 1 {
			c.violate(out, "dispatch-twice", fmt.Sprintf("subscriber %d was handed the message %d times", g, cnt[g]), res)
			return
		}
	}
	wantSet := map[int]bool{}
	for _, x := range want {
		wantSet[x] = true
		if cnt[x] == 0 {
			key := "dispatch-missed"
			what := fmt.Sprintf("registered matching subscriber %d did not get the message (delivered to %v, expected %v)", x, got, want)
			if len(got) == 0 && seen {
				key = "repeat-dropped-outside-window"
				what = fmt.Sprintf("a repeat %d ms after the message was handled (window %d ms) was dropped", c.logical-t0, windowMs)
			} else if len(got) == 0 {
				// dropped although this message was never handled. If the same header under a fresh log id is
				// delivered, the drop was the de-duplication: the message shares the key of a different handled one.
				for o, t := range c.handledAt {
					if o != id && c.logical-t <= windowMs && c.probeDelivered(id) {
						key = "distinct-message-dropped"
						what = fmt.Sprintf("message %+v was dropped as a repeat although it was never handled (an earlier, different message, e.g. %+v, was)", id, o)
						break
					}
				}
			}
			c.violate(out, key, what, res)
			return
		}
	}
	for _, g := range got {
		if !wantSet[g] {
			c.violate(out, "dispatch-extra", fmt.Sprintf("subscriber %d got the message although it is not registered for it / its filters do not match (expected %v)", g, want), res)
			return
		}
	}
}

// ---------------------------------------------------------------- concurrent stress (child process)

// stressChild: several goroutines Register / UnRegister / Dispatch on one dispatcher; a fresh dispatcher per
// round (the outer table is only written by the first registration of a type).  Prints `VIOL <key> <what>` lines.
func stressChild(spec string) {
	var seed uint64
	var g, rounds, iters int
	fmt.Sscanf(spec, "%d,%d,%d,%d", &seed, &g, &rounds, &iters)
	ctx := netCtx()
	types := []int{0, 1, 2, 3, 4, 5, 6, 7, 8, 9, 11, 12, 13, 14, 15, 16, 17, 18, 19, 20, 21, 22, 23, 24, 25}
	var violMu sync.Mutex
	viols := map[string]string{}
	viol := func(key, what string) {
		violMu.Lock()
		if _, ok := viols[key]; !ok {
			viols[key] = what
		}
		violMu.Unlock()
	}
	for round := 0; round < rounds; round++ {
		d := p2p.NewDispatcher(ctx)
		type ssub struct {
			sub      p2p.Subscriber
			typ      int
			bc, from string
			stable   bool
			got      sync.Map // logid -> *int64 count
		}
		rng := xvlib.NewRng(seed*1000003 + uint64(round))
		var subs []*ssub
		mk := func(typ int, bc, from string, stable bool) *ssub {
			s := &ssub{typ: typ, bc: bc, from: from, stable: stable}
			opts := []p2p.SubscriberOption{}
			if bc != "" {
				opts = append(opts, p2p.WithFilterBCName(bc))
			}
			if from != "" {
				opts = append(opts, p2p.WithFilterFrom(from))
			}
			s.sub = p2p.NewSubscriber(ctx, pb.XuperMessage_MessageType(typ), p2p.HandleFunc(func(_ xctx.XContext, m *pb.XuperMessage) (*pb.XuperMessage, error) {
				v, _ := s.got.LoadOrStore(m.Header.Logid, new(int64))
				atomic.AddInt64(v.(*int64), 1)
				if int(m.Header.Type) != s.typ || s.bc != "" && s.bc != m.Header.Bcname || s.from != "" && s.from != m.Header.From {
					viol("stress-extra", fmt.Sprintf("subscriber (type %d bc %q from %q) was handed message type %d bc %q from %q", s.typ, s.bc, s.from, m.Header.Type, m.Header.Bcname, m.Header.From))
				}
				return p2p.NewMessage(p2p.GetRespMessageType(m.GetHeader().GetType()), nil), nil
			}), opts...)
			return s
		}
		bcs := []string{"", "xuper", "hello"}
		froms := []string{"", "p1", "p2"}
		// two stable subscribers on two types, registered before the goroutines start
		stableTypes := []int{types[rng.Intn(len(types))], types[rng.Intn(len(types))]}
		for _, t := range stableTypes {
			s := mk(t, bcs[rng.Intn(3)], froms[rng.Intn(3)], true)
			if err := d.Register(s.sub); err != nil && err != p2p.ErrRegistered {
				viol("stress-register", fmt.Sprint(err))
			}
			subs = append(subs, s)
		}
		for i := 0; i < 40; i++ {
			subs = append(subs, mk(types[rng.Intn(len(types))], bcs[rng.Intn(3)], froms[rng.Intn(3)], false))
		}
		type sent struct {
			typ             int
			bc, from, logid string
		}
		sentCh := make([][]sent, g)
		var wg sync.WaitGroup
		var startGate sync.WaitGroup
		startGate.Add(1)
		for w := 0; w < g; w++ {
			wg.Add(1)
			go func(w int) {
				defer wg.Done()
				r := xvlib.NewRng(seed*7919 + uint64(round)*131 + uint64(w))
				startGate.Wait()
				for i := 0; i < iters; i++ {
					switch {
					case w%2 == 0: // dispatchers
						t := types[r.Intn(len(types))]
						if r.Chance(1, 2) {
							t = stableTypes[r.Intn(2)]
						}
						sm := sent{t, bcs[1+r.Intn(2)], froms[1+r.Intn(2)], fmt.Sprintf("r%d-w%d-i%d", round, w, i)}
						m := &pb.XuperMessage{Header: &pb.XuperMessage_MessageHeader{Type: pb.XuperMessage_MessageType(sm.typ), Bcname: sm.bc, From: sm.from, Logid: sm.logid},
							Data: &pb.XuperMessage_MessageData{}}
						err := d.Dispatch(m, &stream{})
						if err == nil {
							sentCh[w] = append(sentCh[w], sm)
						} else if err != p2p.ErrNotRegister {
							viol("stress-dispatch-result", fmt.Sprint(err))
						}
					default: // registrars
						s := subs[2+r.Intn(len(subs)-2)]
						if r.Chance(3, 5) {
							d.Register(s.sub)
						} else {
							d.UnRegister(s.sub)
						}
					}
				}
			}(w)
		}
		startGate.Done()
		wg.Wait()
		// oracle: at most once per (message, subscriber); stable matching subscribers exactly once
		for _, s := range subs {
			s.got.Range(func(k, v interface{}) bool {
				if n := atomic.LoadInt64(v.(*int64)); n > 1 {
					viol("stress-twice", fmt.Sprintf("a subscriber was handed message %v %d times", k, n))
				}
				return true
			})
		}
		for _, ss := range sentCh {
			for _, sm := range ss {
				for _, s := range subs[:2] {
					if s.typ == sm.typ && (s.bc == "" || s.bc == sm.bc) && (s.from == "" || s.from == sm.from) {
						v, ok := s.got.Load(sm.logid)
						if !ok || atomic.LoadInt64(v.(*int64)) != 1 {
							viol("stress-missed", fmt.Sprintf("a subscriber registered throughout did not get accepted message %s exactly once", sm.logid))
						}
					}
				}
			}
		}
	}
	keys := []string{}
	for k := range viols {
		keys = append(keys, k)
	}
	sort.Strings(keys)
	for _, k := range keys {
		fmt.Printf("VIOL %s %s\n", k, viols[k])
	}
	fmt.Println("STRESS-DONE")
}

func execStress(w []string, line string, out *xvlib.Out, scratch string) string {
	if len(w) != 5 {
		return "bad-op"
	}
	cmd := exec.Command(os.Args[0], "-stresschild", strings.Join(w[1:], ","), "-out", scratch+"/stress-out", "-scratch", scratch+"/stress-scratch")
	var buf bytes.Buffer
	cmd.Stdout = &buf
	cmd.Stderr = &buf
	done := make(chan error, 1)
	if err := cmd.Start(); err != nil {
		return "bad-op"
	}
	go func() { done <- cmd.Wait() }()
	var err error
	select {
	case err = <-done:
	case <-time.After(10 * time.Minute):
		cmd.Process.Kill()
		err = fmt.Errorf("timeout (deadlock?)")
	}
	text := buf.String()
	if out != nil {
		for _, l := range strings.Split(text, "\n") {
			if strings.HasPrefix(l, "VIOL ") {
				f := strings.SplitN(l, " ", 3)
				out.Violate(xvlib.Violation{Key: f[1], What: "concurrent Register/UnRegister/Dispatch: " + f[2], Ops: []string{line}, Impl: []string{l}})
			}
		}
		if err != nil || !strings.Contains(text, "STRESS-DONE") {
			key, what := "stress-crash", "the process running concurrent Register/UnRegister/Dispatch died"
			for _, l := range strings.Split(text, "\n") {
				if strings.HasPrefix(l, "fatal error:") || strings.HasPrefix(l, "panic:") {
					what += ": " + l
					if strings.Contains(l, "concurrent map") {
						key = "stress-crash:concurrent-map-access"
					}
					break
				}
			}
			if err != nil && strings.Contains(err.Error(), "timeout") {
				key, what = "stress-deadlock", "concurrent Register/UnRegister/Dispatch did not finish"
			}
			out.Violate(xvlib.Violation{Key: key, What: what, Ops: []string{line}, Impl: []string{fmt.Sprint(err)}, Extra: crashExcerpt(text)})
		}
	}
	return "-"
}

// crashExcerpt: the fatal error / panic line and the first goroutine's stack
func crashExcerpt(text string) string {
	i := strings.Index(text, "fatal error:")
	if j := strings.Index(text, "panic:"); i < 0 || j >= 0 && j < i {
		i = j
	}
	if i < 0 {
		return tail(text, 1500)
	}
	t := text[i:]
	if len(t) > 1800 {
		t = t[:1800]
	}
	return t
}

func tail(s string, n int) string {
	if len(s) > n {
		return s[len(s)-n:]
	}
	return s
}

// ---------------------------------------------------------------- stateless ops

func execStateless(line string, out *xvlib.Out, scratch string) (string, bool) {
	w := strings.Fields(line)
	if len(w) == 0 {
		return "bad-op", true
	}
	switch {
	case w[0] == "crc" && len(w) == 2:
		b, ok := parseHex(w[1])
		if !ok {
			return "bad-op", true
		}
		viaP2p := p2p.Checksum(&pb.XuperMessage{Data: &pb.XuperMessage_MessageData{MsgInfo: b}})
		if std := crc32.ChecksumIEEE(b); std != viaP2p && out != nil {
			out.Violate(xvlib.Violation{Key: "checksum-not-crc32", What: "p2p.Checksum is not the CRC-32/IEEE of MsgInfo", Ops: []string{line}, Impl: []string{fmt.Sprintf("%08x vs %08x", viaP2p, std)}})
		}
		return fmt.Sprintf("%08x", viaP2p), true
	case w[0] == "resp" && len(w) == 2:
		t, err := strconv.Atoi(w[1])
		if err != nil {
			return "bad-op", true
		}
		r := int(p2p.GetRespMessageType(pb.XuperMessage_MessageType(t)))
		if name, ok := pb.XuperMessage_MessageType_name[int32(t)]; ok && out != nil {
			if want, ok := pb.XuperMessage_MessageType_value[name+"_RES"]; ok && int(want) != r {
				out.Violate(xvlib.Violation{Key: "resp-type-wrong", What: fmt.Sprintf("GetRespMessageType(%s) = %d, but %s_RES = %d", name, r, name, want), Ops: []string{line}, Impl: []string{strconv.Itoa(r)}})
			}
		}
		return strconv.Itoa(r), true
	case w[0] == "vmt" && len(w) == 5:
		rq, e1 := strconv.Atoi(w[1])
		rs, e2 := strconv.Atoi(w[2])
		if e1 != nil || e2 != nil {
			return "bad-op", true
		}
		req := &pb.XuperMessage{Header: &pb.XuperMessage_MessageHeader{Type: pb.XuperMessage_MessageType(rq), Logid: "L1"}}
		resp := &pb.XuperMessage{Header: &pb.XuperMessage_MessageHeader{Type: pb.XuperMessage_MessageType(rs), Logid: "L1", From: "peerA"}}
		if w[3] != "1" {
			resp.Header.Logid = "L2"
		}
		if w[4] != "1" {
			resp.Header.From = "peerB"
		}
		got := p2p.VerifyMessageType(req, resp, "peerA")
		// oracle: a response is the expected one iff it comes from the asked peer, carries the request's log id and the request's response type
		want := w[3] == "1" && w[4] == "1" && p2p.GetRespMessageType(pb.XuperMessage_MessageType(rq)) == pb.XuperMessage_MessageType(rs)
		if got != want && out != nil {
			out.Violate(xvlib.Violation{Key: "verify-message-type", What: fmt.Sprintf("VerifyMessageType answered %v for request type %d, response type %d, same log id %s, from the asked peer %s", got, rq, rs, w[3], w[4]),
				Ops: []string{line}, Impl: []string{strconv.FormatBool(got)}})
		}
		return strconv.FormatBool(got), true
	case w[0] == "msg" && len(w) == 5:
		return guarded(out, []string{line}, func() string { return execMsg(w, line, out) }), true
	case (w[0] == "cor" && len(w) == 6) || (w[0] == "corv" && len(w) == 7):
		return guarded(out, []string{line}, func() string { return execCor(w, line, out) }), true
	case w[0] == "stress":
		return execStress(w, line, out, scratch), true
	case w[0] == "conc" && len(w) == 4:
		return guarded(out, []string{line}, func() string { return execConc(w, line, out) }), true
	case w[0] == "errflood" && len(w) == 2:
		return guarded(out, []string{line}, func() string { return execErrFlood(w, line, out) }), true
	case w[0] == "dmut" && len(w) == 4:
		return guarded(out, []string{line}, func() string { return execDmut(w, line, out) }), true
	}
	return "", false
}

type failStream struct{}

func (failStream) Send(*pb.XuperMessage) error { return errors.New("peer went away") }

// errflood <n>: n dispatches whose subscriber reports an error (its response cannot be sent: the peer went away), some
// successful ones in between, then one more message for a channel subscriber: it must still be delivered, and Register
// must still return - errors of subscribers may not use up the dispatcher.
func execErrFlood(w []string, line string, out *xvlib.Out) string {
	n, err := strconv.Atoi(w[1])
	if err != nil || n < 0 || n > 100000 {
		return "bad-op"
	}
	ctx := netCtx()
	d := p2p.NewDispatcher(ctx)
	var handled int64
	h := p2p.HandleFunc(func(_ xctx.XContext, m *pb.XuperMessage) (*pb.XuperMessage, error) {
		atomic.AddInt64(&handled, 1)
		return p2p.NewMessage(p2p.GetRespMessageType(m.GetHeader().GetType()), nil), nil
	})
	ch := make(chan *pb.XuperMessage, 16)
	if d.Register(p2p.NewSubscriber(ctx, pb.XuperMessage_GET_BLOCK, h)) != nil || d.Register(p2p.NewSubscriber(ctx, pb.XuperMessage_POSTTX, ch)) != nil {
		return "bad-op"
	}
	flood := make(chan struct{})
	go func() {
		defer close(flood)
		for i := 0; i < n; i++ {
			m := p2p.NewMessage(pb.XuperMessage_GET_BLOCK, nil, p2p.WithLogId(fmt.Sprintf("f%d", i)))
			if i%5 == 4 {
				d.Dispatch(m, &stream{}) // a successful one in between
			} else {
				d.Dispatch(m, failStream{})
			}
		}
	}()
	select {
	case <-flood:
	case <-time.After(20 * time.Second):
		if out != nil {
			out.Violate(xvlib.Violation{Key: "dispatcher-used-up-by-subscriber-errors:flood-blocked",
				What: fmt.Sprintf("Dispatch blocks for good after %d of %d messages whose subscriber reported an error were handled", atomic.LoadInt64(&handled), n),
				Ops:  []string{line}, Impl: []string{"flood-blocked"}})
			out.Count("errflood:flood-blocked")
		}
		return "-"
	}
	deadline := time.Now().Add(5 * time.Second)
	for atomic.LoadInt64(&handled) < int64(n) && time.Now().Before(deadline) {
		time.Sleep(5 * time.Millisecond)
	}
	time.Sleep(50 * time.Millisecond)
	done := make(chan error, 1)
	go func() {
		done <- d.Dispatch(p2p.NewMessage(pb.XuperMessage_POSTTX, nil, p2p.WithLogId("after")), &stream{})
	}()
	res := "ok"
	select {
	case e := <-done:
		if e != nil {
			res = "dispatch-error"
		}
	case <-time.After(4 * time.Second):
		res = "dispatch-blocked"
	}
	if res == "ok" {
		select {
		case <-ch:
		case <-time.After(4 * time.Second):
			res = "not-delivered"
		}
	}
	if res == "ok" {
		reg := make(chan error, 1)
		go func() {
			reg <- d.Register(p2p.NewSubscriber(ctx, pb.XuperMessage_GET_BLOCKIDS, make(chan *pb.XuperMessage, 1)))
		}()
		select {
		case <-reg:
		case <-time.After(4 * time.Second):
			res = "register-blocked"
		}
	}
	if res != "ok" && out != nil {
		out.Violate(xvlib.Violation{Key: "dispatcher-used-up-by-subscriber-errors:" + res,
			What: fmt.Sprintf("after %d dispatched messages whose subscriber reported an error (4 of 5: the response could not be sent) the dispatcher no longer works: %s (%d handled)", n, res, atomic.LoadInt64(&handled)),
			Ops:  []string{line}, Impl: []string{res}})
	}
	if out != nil {
		out.Count("errflood:" + res)
	}
	return "-"
}

// ---------------------------------------------------------------- generator

func randBytes(r *xvlib.Rng, n int) []byte {
	b := make([]byte, n)
	for i := range b {
		b[i] = byte(r.U64())
	}
	return b
}

func marshalInner(x []byte) []byte {
	b, _ := proto.Marshal(&pb.XuperMessage_MessageData{MsgInfo: x})
	return b
}

func mz(inner []byte) (string, string) {
	m := marshalInner(inner)
	if len(m) == 0 {
		return "-", "-"
	}
	return hex.EncodeToString(m), hex.EncodeToString(snappy.Encode(nil, m))
}

var stressFlag = flag.String("stresschild", "", "internal: run the concurrent stress and exit")

func main() {
	args := xvlib.ParseArgs()
	if *stressFlag != "" {
		stressChild(*stressFlag)
		return
	}
	xvlib.DefaultHangSecs = 90 // every p2p operation finishes within seconds (the longest, errflood, gives up after 20 s)
	out := xvlib.NewOut(args.Out)
	defer out.Close()
	ctx := netCtx()
	thorough := args.Tier == "thorough"
	cur := newCase(ctx)
	// sequential execution of one line (replay, and all untimed generation)
	var hangOps []string
	out.OnHang(func() []string { return hangOps })
	run := func(line string, sleep bool) string {
		// what the watchdog names when the code under test blocks for good: the running dispatcher case, or the line
		if strings.TrimSpace(line) == "reset" || cur == nil {
			hangOps = []string{line}
		} else {
			hangOps = append(append([]string{}, cur.ops...), line)
		}
		if _, stateless := map[string]bool{"crc": true, "resp": true, "vmt": true, "msg": true, "cor": true, "corv": true, "stress": true, "errflood": true, "dmut": true}[strings.Fields(line + " ?")[0]]; stateless {
			hangOps = []string{line}
		}
		if r, ok := execStateless(line, out, args.Scratch); ok {
			out.Emit(line, r)
			out.Case(line, true)
			out.Count(strings.Fields(line + " ?")[0])
			return r
		}
		if strings.TrimSpace(line) == "reset" {
			cur = newCase(ctx)
			cur.ops = []string{"reset"}
			out.Emit(line, "ok")
			return "ok"
		}
		r := cur.exec(line, out, sleep)
		out.Emit(line, r)
		w := strings.Fields(line)
		out.Count(w[0] + ":" + strings.SplitN(r, ":", 2)[0])
		if w[0] == "disp" {
			out.Case(strings.Join(cur.ops, ";"), strings.HasPrefix(r, "ok:") && len(r) > 3)
		}
		return r
	}
	if args.Replay != "" {
		for _, l := range xvlib.ReadLines(args.Replay) {
			run(l, true)
		}
		return
	}
	rng := xvlib.NewRng(args.Seed)

	// ---- 0. corpus: minimal replays of repaired defects and findings run first, forever
	if files, _ := filepath.Glob("corpus/" + args.Prop + "/*.ops"); len(files) > 0 {
		sort.Strings(files)
		for _, f := range files {
			for _, l := range xvlib.ReadLines(f) {
				run(l, true)
			}
			out.Count("corpus-file")
		}
	}

	// ---- 1. CRC: Lean bit-serial model vs hash/crc32 (through p2p.Checksum)
	for n := 0; n <= 64; n++ {
		run("crc "+hexOrDash(make([]byte, n)), false)
		run("crc "+hexOrDash(bytes.Repeat([]byte{0xff}, n)), false)
		for k := 0; k < 3; k++ {
			run("crc "+hexOrDash(randBytes(rng, n)), false)
		}
	}
	run("crc "+hex.EncodeToString([]byte("123456789")), false)
	nBig := 6
	if thorough {
		nBig = 60
	}
	for i := 0; i < nBig; i++ {
		n := 65 + rng.Intn(65536-65)
		if i == 0 {
			n = 65536
		}
		run("crc "+hex.EncodeToString(randBytes(rng, n)), false)
	}

	// ---- 2. response types: every enum value and beyond; VerifyMessageType
	for t := 0; t <= 40; t++ {
		run(fmt.Sprintf("resp %d", t), false)
	}
	for rq := 0; rq <= 26; rq++ {
		for _, rs := range []int{rq, rq + 1, rq + 2, rq + 3, int(p2p.GetRespMessageType(pb.XuperMessage_MessageType(rq)))} {
			run(fmt.Sprintf("vmt %d %d 1 1", rq, rs), false)
		}
		run(fmt.Sprintf("vmt %d %d 0 1", rq, int(p2p.GetRespMessageType(pb.XuperMessage_MessageType(rq)))), false)
		run(fmt.Sprintf("vmt %d %d 1 0", rq, int(p2p.GetRespMessageType(pb.XuperMessage_MessageType(rq)))), false)
	}

	// ---- 3. round trips: all types × option combinations × payload shapes
	optAtoms := []string{"b=hello", "l=log_77", "v=2.0.0", "e=3"}
	var optCombos []string
	for mask := 0; mask < 16; mask++ {
		var o []string
		for i, a := range optAtoms {
			if mask&(1<<uint(i)) != 0 {
				o = append(o, a)
			}
		}
		if len(o) == 0 {
			optCombos = append(optCombos, "-")
			continue
		}
		optCombos = append(optCombos, strings.Join(o, ","))
		if len(o) > 1 { // also the reverse order, and a repeated option (last one wins)
			rev := append([]string{}, o...)
			sort.Sort(sort.Reverse(sort.StringSlice(rev)))
			optCombos = append(optCombos, strings.Join(rev, ","))
		}
	}
	optCombos = append(optCombos, "b=one,b=two", "e=1,e=0", "b=", "l=")
	smallPayloads := [][]byte{nil /* nil message */, {} /* zero bytes */, {0}, {7}, []byte("hello world"), bytes.Repeat([]byte("ab"), 40),
		bytes.Repeat([]byte{0}, 300), randBytes(rng, 17), randBytes(rng, 64), randBytes(rng, 1000)}
	idx := 0
	for typ := 0; typ <= 26; typ++ {
		for _, oc := range optCombos {
			// every (type, options) pair with two payload shapes; rotate so that every shape meets every option combination
			for k := 0; k < 2; k++ {
				p := smallPayloads[idx%len(smallPayloads)]
				idx++
				if p == nil {
					run(fmt.Sprintf("msg %d %s nil -", typ, oc), false)
					continue
				}
				m, z := mz(p)
				run(fmt.Sprintf("msg %d %s %s %s", typ, oc, m, z), false)
			}
		}
	}
	for _, oc := range optCombos { // the empty payloads with every option combination
		run(fmt.Sprintf("msg 7 %s nil -", oc), false)
		run(fmt.Sprintf("msg 7 %s - -", oc), false)
	}
	nLarge := 4
	if thorough {
		nLarge = 24
	}
	for i := 0; i < nLarge; i++ {
		n := 2000 + rng.Intn(70000)
		var p []byte
		switch i % 3 {
		case 0:
			p = randBytes(rng, n) // incompressible
		case 1:
			p = bytes.Repeat(randBytes(rng, 1+rng.Intn(40)), n/20) // compressible
		default:
			p = append(randBytes(rng, n/2), make([]byte, n/2)...)
		}
		m, z := mz(p)
		run(fmt.Sprintf("msg %d %s %s %s", rng.Intn(26), optCombos[rng.Intn(len(optCombos))], m, z), false)
	}
	if thorough {
		p := randBytes(rng, 1<<20)
		m, z := mz(p)
		run(fmt.Sprintf("msg 0 - %s %s", m, z), false)
	}

	// ---- 4. corruption: every single-bit flip and bursts of every length ≤ 32 at every position of small messages
	corPayloads := [][]byte{{}, {0}, {0xff}, []byte("abc"), randBytes(rng, 5), randBytes(rng, 9), bytes.Repeat([]byte{0x55}, 12)}
	if thorough {
		corPayloads = append(corPayloads, randBytes(rng, 20), randBytes(rng, 33), bytes.Repeat([]byte("xy"), 30))
	}
	polyPat := "1" // the generator polynomial itself, 33 bits: the shortest burst CRC-32 cannot see
	for i := 0; i < 32; i++ {
		if crc32.IEEE>>uint(i)&1 == 1 {
			polyPat += "1"
		} else {
			polyPat += "0"
		}
	}
	for pi, p := range corPayloads {
		m, z := mz(p)
		info := snappy.Encode(nil, marshalInner(p))
		if len(marshalInner(p)) == 0 {
			continue // nothing to corrupt
		}
		bits := 8 * len(info)
		for s := 0; s < bits; s++ {
			run(fmt.Sprintf("cor %d %s %s %d 1", pi, m, z, s), false)
		}
		for l := 2; l <= 32; l++ {
			step := 1
			if !thorough && bits > 64 {
				step = 3
			}
			for s := (l * 7) % step; s+l <= bits; s += step {
				pat := []byte{'1'}
				for i := 1; i < l-1; i++ {
					pat = append(pat, "01"[rng.Intn(2)])
				}
				pat = append(pat, '1')
				run(fmt.Sprintf("cor %d %s %s %d %s", pi, m, z, s, pat), false)
			}
		}
		// longer than 32: not covered by the property (the generator polynomial pattern is invisible)
		for s := 0; s+33 <= bits && s < 8; s++ {
			r := run(fmt.Sprintf("cor %d %s %s %d %s", pi, m, z, s, polyPat), false)
			if strings.HasPrefix(r, "verify=1") {
				out.Count("undetected-33bit-polynomial-burst")
			}
		}
	}
	nRandCor := 2000
	if thorough {
		nRandCor = 40000
	}
	for i := 0; i < nRandCor; i++ {
		p := randBytes(rng, 1+rng.Intn(200))
		if rng.Chance(1, 3) {
			p = bytes.Repeat([]byte{byte(rng.U64())}, 1+rng.Intn(300))
		}
		m, z := mz(p)
		bits := 8 * len(snappy.Encode(nil, marshalInner(p)))
		l := 1 + rng.Intn(32)
		if l > bits {
			l = bits
		}
		s := rng.Intn(bits - l + 1)
		pat := []byte{'1'}
		for j := 1; j < l; j++ {
			pat = append(pat, "01"[rng.Intn(2)])
		}
		if rng.Chance(1, 3) {
			vopts := []string{"v=1.0.0", "v=", "v=2.0.0", "v=3.0.0", "v=0", "b=xuper,v=1.0.0", "e=2", "l=abc,v=9.9.9"}
			run(fmt.Sprintf("corv %d %s %s %d %s %s", rng.Intn(26), m, z, s, pat, vopts[rng.Intn(len(vopts))]), false)
		} else {
			run(fmt.Sprintf("cor %d %s %s %d %s", rng.Intn(26), m, z, s, pat), false)
		}
	}

	// ---- 5. dispatcher, sequential, no clock: filters exhaustively, then random histories
	for _, sbc := range []string{"-", "a", "b"} {
		for _, sfrom := range []string{"-", "x", "y"} {
			for _, mbc := range []string{"-", "a", "b"} {
				for _, mfrom := range []string{"-", "x", "y"} {
					run("reset", false)
					run(fmt.Sprintf("sub 1 3 %s %s", sbc, sfrom), false)
					run("sub 2 4 - -", false)
					run("reg 1", false)
					run("reg 2", false)
					run(fmt.Sprintf("disp 3 %s %s L 1", mbc, mfrom), false)
				}
			}
		}
	}
	// different messages whose header fields concatenate to the same text (the de-duplication key must tell them apart)
	for _, pr := range [][2]string{
		{"disp 3 ab c L 7", "disp 3 a bc L 7"},             // chain | sender
		{"disp 3 xuper p1 L1 23", "disp 3 xuper p1 L12 3"}, // log id | checksum
		{"disp 3 xuper p 1L 5", "disp 3 xuper p1 L 5"},     // sender | log id
		{"disp 3 _RESx p L 5", "disp 6 x p L 5"},           // type name | chain (GET_BLOCK + _RESx = GET_BLOCK_RES + x)
		{"disp 3 x - pL 5", "disp 3 x p L 5"},              // empty sender
	} {
		for _, l := range []string{"reset", "sub 1 3 - -", "sub 2 6 - -", "reg 1", "reg 2", pr[0], pr[1], pr[0]} {
			run(l, false)
		}
	}
	nSeq := 400
	if thorough {
		nSeq = 6000
	}
	typesU := []int{3, 4, 7, 10, 16}
	bcU := []string{"-", "xuper", "hello"}
	fromU := []string{"-", "p1", "p2"}
	genCase := func(r *xvlib.Rng, timed bool, maxTicks int) []string {
		ops := []string{"reset"}
		ns := 1 + r.Intn(6)
		for i := 1; i <= ns; i++ {
			l := fmt.Sprintf("sub %d %d %s %s", i, typesU[r.Intn(len(typesU))], bcU[r.Intn(3)], fromU[r.Intn(3)])
			if r.Chance(1, 5) {
				l += " chan"
			}
			ops = append(ops, l)
		}
		nops := 4 + r.Intn(14)
		ticks := 0
		var msgs []string
		var poolTypes []int
		for _, l := range ops[1:] {
			var id, t int
			fmt.Sscanf(l, "sub %d %d", &id, &t)
			poolTypes = append(poolTypes, t)
		}
		for i := 0; i < nops; i++ {
			switch x := r.Intn(20); {
			case x < 6:
				ops = append(ops, fmt.Sprintf("reg %d", 1+r.Intn(ns)))
			case x < 8:
				ops = append(ops, fmt.Sprintf("unreg %d", 1+r.Intn(ns)))
			case x < 9:
				ops = append(ops, "dispbad "+[]string{"nomsg", "nohdr", "nodata"}[r.Intn(3)])
			case x < 12 && timed && ticks < maxTicks:
				ticks++
				ops = append(ops, "tick "+[]string{"1200", "3400", "1200"}[r.Intn(3)])
			default:
				var m string
				if len(msgs) > 0 && r.Chance(1, 2) {
					m = msgs[r.Intn(len(msgs))] // a repeat
				} else {
					t := typesU[r.Intn(len(typesU))]
					if r.Chance(3, 4) {
						t = poolTypes[r.Intn(len(poolTypes))]
					}
					m = fmt.Sprintf("disp %d %s %s L%d %d", t, bcU[1+r.Intn(2)], fromU[r.Intn(3)], r.Intn(3), r.Intn(2))
					msgs = append(msgs, m)
				}
				if r.Chance(1, 12) {
					m += " nostream"
				}
				ops = append(ops, m)
			}
		}
		return ops
	}
	for i := 0; i < nSeq; i++ {
		for _, l := range genCase(rng, false, 0) {
			run(l, false)
		}
	}

	// ---- 6. dispatcher with the real 3 s window: cases run concurrently, each on its own dispatcher, with real sleeps
	nTimed, maxTicks := 24, 3
	if thorough {
		nTimed, maxTicks = 160, 5
	}
	type timedRes struct {
		c   *dcase
		ops []string
	}
	results := make([]*timedRes, nTimed)
	cases := make([][]string, nTimed)
	for i := range cases {
		cases[i] = genCase(rng, true, maxTicks)
		if i == 0 { // the canonical one: handled, repeat inside the window, repeat outside
			cases[i] = []string{"reset", "sub 1 3 - -", "reg 1", "disp 3 xuper p1 L 1", "tick 1200", "disp 3 xuper p1 L 1", "tick 1200", "disp 3 xuper p1 L 1",
				"tick 1200", "disp 3 xuper p1 L 1", "disp 3 xuper p1 L 1", "tick 3400", "disp 3 xuper p1 L 1"}
		}
	}
	// violations found inside timed cases are collected per case and only kept if the timing was reliable
	var twg sync.WaitGroup
	outs := make([]*xvlib.Out, nTimed)
	for i := range cases {
		twg.Add(1)
		go func(i int) {
			defer twg.Done()
			for attempt := 0; attempt < 3; attempt++ {
				c := newCase(ctx)
				c.ops = []string{"reset"}
				c.impl = []string{"ok"}
				o := &xvlib.Out{Stats: xvlib.Stats{Distribution: map[string]int{}}}
				for _, l := range cases[i][1:] {
					c.exec(l, o, true)
				}
				results[i] = &timedRes{c, cases[i]}
				outs[i] = o
				if c.maxSkew < 500*time.Millisecond {
					return
				}
			}
		}(i)
	}
	twg.Wait()
	for i, r := range results {
		reliable := r.c.maxSkew < 500*time.Millisecond
		for j, l := range r.ops {
			a := r.c.impl[j]
			if !reliable {
				a = "-"
			}
			out.Emit(l, a)
			w := strings.Fields(l)
			out.Count("timed-" + w[0])
		}
		if !reliable {
			out.Count("timed-case-skipped-clock-skew")
			continue
		}
		out.Case(strings.Join(r.ops, ";"), true)
		for _, v := range outs[i].Stats.Violations {
			out.Violate(v)
		}
	}

	// ---- 6b. many subscriber errors: the dispatcher must keep working (more errors than it has worker slots)
	run("errflood 50", false)
	if thorough {
		run("errflood 6000", false)
	} else {
		run("errflood 1400", false)
	}

	// ---- 6c. messages built and decoded by many goroutines at once
	for i := 0; i < 2; i++ {
		run(fmt.Sprintf("conc %d 16 %d", args.Seed*7+uint64(i), map[bool]int{false: 120, true: 1500}[thorough]), false)
	}

	// ---- 6d. Register / UnRegister issued from inside a Dispatch's walk over the subscribers (deterministic interleaving)
	for i := 0; i < map[bool]int{false: 24, true: 240}[thorough]; i++ {
		run(fmt.Sprintf("dmut %d %d %d", args.Seed*13+uint64(i), 2+i%7, i%3), false)
	}

	// ---- 7. concurrent Register / UnRegister / Dispatch (child process; a runtime crash is caught there)
	if thorough {
		run(fmt.Sprintf("stress %d 8 300 400", args.Seed), false)
	} else {
		run(fmt.Sprintf("stress %d 8 60 300", args.Seed), false)
	}

	out.Stats.Exhaustive = false
	out.Stats.Rule = "crc: every length 0..64 (zeros, ones, 3 random contents) + random lengths to 64 KiB; resp: every enum value and 15 beyond; msg: every message type × every option subset (both orders, repeats, empty strings) × payload shapes nil / zero-byte / tiny / compressible / incompressible / large, decoded in-process and after proto.Marshal/Unmarshal of the envelope; cor: every single-bit flip and bursts of every length 2..32 (random interior) at every bit offset of small encoded payloads + random bursts on random payloads, plus the 33-bit generator-polynomial burst; dispatcher: all 81 filter×message combinations, random Register/UnRegister/Dispatch histories over small universes (repeats frequent), timed histories against the real 3 s window (ticks 1.2 s / 3.4 s, ±0.5 s skew tolerated), one concurrent stress; a dispatcher case is non-trivial if its last dispatch delivered to ≥1 subscriber"
	out.Sample(map[string]string{"op": "msg 3 b=hello - -", "impl": func() string { r, _ := execStateless("msg 3 b=hello - -", nil, args.Scratch); return r }()})
	out.Sample(map[string]interface{}{"timed-case": cases[0], "impl": results[0].c.impl})
}
