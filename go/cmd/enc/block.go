package main

import (
	"bytes"
	"crypto/sha256"
	"encoding/hex"
	"fmt"
	"math/big"
	"os"
	"path/filepath"
	"reflect"
	"sort"
	"strconv"
	"strings"

	"github.com/golang/protobuf/proto"

	"github.com/xuperchain/xupercore/bcs/ledger/xledger/ledger"
	txn "github.com/xuperchain/xupercore/bcs/ledger/xledger/tx"
	pb "github.com/xuperchain/xupercore/bcs/ledger/xledger/xldgpb"
	xconf "github.com/xuperchain/xupercore/kernel/common/xconfig"
	"github.com/xuperchain/xupercore/kernel/mock"
	"github.com/xuperchain/xupercore/lib/crypto/hash"
	_ "github.com/xuperchain/xupercore/lib/storage/kvdb/leveldb"
	"xv/xvlib"
)

var genesisConf = []byte(`{"version":"1","predistribution":[{"address":"TeyyPLpp9L7QAcxHangtcHTu7HUZ6iydY","quota":"100000000000000000000"}],
"maxblocksize":"16","award":"1000000","decimals":"8","award_decay":{"height_gap":31536000,"ratio":1},
"gas_price":{"cpu_rate":1000,"mem_rate":1000000,"disk_rate":1,"xfee_rate":1},"new_account_resource_amount":1000,
"genesis_consensus":{"name":"single","config":{"miner":"TeyyPLpp9L7QAcxHangtcHTu7HUZ6iydY","period":3000}}}`)

var theLedger *ledger.Ledger
var ledgerEnv *xconf.EnvConf

func getLedger() *ledger.Ledger {
	if theLedger != nil {
		return theLedger
	}
	econf, err := mock.NewEnvConfForTest()
	if err != nil {
		xvlib.Die("env conf: %v", err)
	}
	lctx, err := ledger.NewLedgerCtx(econf, "xuper")
	if err != nil {
		xvlib.Die("ledger ctx: %v", err)
	}
	// the ledger lives under RootPath/DataDir/ChainDir: point a copy of the env conf at the scratch dir
	ec := *econf
	abs, _ := filepath.Abs(scratch)
	ec.RootPath, ec.DataDir, ec.ChainDir = abs, "data", "chain"
	lctx.EnvCfg = &ec
	ledgerEnv = &ec
	os.RemoveAll(filepath.Join(abs, "data"))
	l, err := ledger.CreateLedger(lctx, genesisConf)
	if err != nil {
		xvlib.Die("create ledger: %v", err)
	}
	theLedger = l
	return l
}

// knownLedger is a second ledger on which honest blocks are really confirmed before tampered copies of them are
// verified (vb ... known=1): whatever the ledger remembers about a block id must not stand in for the body and
// signature checks.
var knownLedger *ledger.Ledger
var knownSeq int

func getKnownLedger() *ledger.Ledger {
	if knownLedger != nil {
		return knownLedger
	}
	getLedger()
	econf, err := mock.NewEnvConfForTest()
	if err != nil {
		xvlib.Die("env conf: %v", err)
	}
	lctx, err := ledger.NewLedgerCtx(econf, "xuper")
	if err != nil {
		xvlib.Die("ledger ctx: %v", err)
	}
	ec := *ledgerEnv
	ec.ChainDir = "chain-known"
	lctx.EnvCfg = &ec
	os.RemoveAll(filepath.Join(ec.RootPath, ec.DataDir, ec.ChainDir))
	l, err := ledger.CreateLedger(lctx, genesisConf)
	if err != nil {
		xvlib.Die("create known ledger: %v", err)
	}
	rootTx, err := txn.GenerateRootTx(genesisConf)
	if err != nil {
		xvlib.Die("root tx: %v", err)
	}
	rb, err := l.FormatRootBlock([]*pb.Transaction{rootTx})
	if err != nil {
		xvlib.Die("root block: %v", err)
	}
	if st := l.ConfirmBlock(rb, true); !st.Succ {
		xvlib.Die("confirm root block: %v", st.Error)
	}
	knownLedger = l
	return l
}

// formatKnown formats the base block on top of the known ledger's tip and confirms it there.
var knownErr string

func formatKnown(p base, confirm bool) (*pb.InternalBlock, bool) {
	l := getKnownLedger()
	knownSeq++
	var qc *pb.QuorumCert
	if p.qc >= 0 {
		qc = stdJustify(p.qc)
	}
	var failed map[string]string
	if p.ft > 0 {
		failed = map[string]string{}
		for i := 0; i < p.ft; i++ {
			failed["f"+strconv.Itoa(i)] = "err" + strconv.Itoa(i)
		}
	}
	a := acct(p.k)
	txs := mkTxs(p.n, "k"+strconv.Itoa(knownSeq)+"-")
	meta := l.GetMeta()
	b, err := l.FormatMinerBlock(txs, []byte(a.Address), a.Pri, 1700000000+int64(knownSeq), 3, 7, meta.TipBlockid, p.tb, big.NewInt(0), qc, failed, meta.TrunkHeight+1)
	if err != nil {
		return nil, false
	}
	if !confirm {
		return b, true
	}
	if st := l.ConfirmBlock(proto.Clone(b).(*pb.InternalBlock), false); !st.Succ {
		knownErr = fmt.Sprint(st.Error)
		return nil, false
	}
	return b, true
}

var accts = map[int]*xvlib.Account{}

func acct(i int) *xvlib.Account {
	if accts[i] == nil {
		accts[i] = xvlib.NewAccount(i)
	}
	return accts[i]
}

func sha(s string) []byte { h := sha256.Sum256([]byte(s)); return h[:] }

func hx(b []byte) string {
	if len(b) == 0 {
		return "-"
	}
	return hex.EncodeToString(b)
}

func unhx(s string) []byte {
	if s == "-" || s == "" {
		return nil
	}
	b, err := hex.DecodeString(s)
	if err != nil {
		panic("bad hex " + s)
	}
	return b
}

// ---------------------------------------------------------------- leaf / shape

func mkTxs(n int, tag string) []*pb.Transaction {
	txs := make([]*pb.Transaction, n)
	for i := range txs {
		txs[i] = &pb.Transaction{Txid: sha("xv-tx-" + tag + strconv.Itoa(i)), Desc: []byte("tx" + strconv.Itoa(i))}
	}
	return txs
}

func shapeOf(n int) string {
	txs := mkTxs(n, "s")
	tree := ledger.MakeMerkleTree(txs)
	// how each node can have been obtained from two earlier ones
	comb := map[string]string{}
	var toks []string
	for k, node := range tree {
		switch {
		case node == nil:
			toks = append(toks, "-")
		case k < n && bytes.Equal(node, txs[k].Txid):
			toks = append(toks, "L"+strconv.Itoa(k))
		default:
			t, ok := comb[string(node)]
			if !ok {
				t = "?"
			}
			toks = append(toks, t)
		}
		if node != nil {
			// candidates for later nodes: node k with itself, node k-1 with node k
			self := hash.DoubleSha256(append(append([]byte{}, node...), node...))
			if _, dup := comb[string(self)]; !dup {
				comb[string(self)] = fmt.Sprintf("%d,%d", k, k)
			}
			if k > 0 && tree[k-1] != nil {
				pair := hash.DoubleSha256(append(append([]byte{}, tree[k-1]...), node...))
				if _, dup := comb[string(pair)]; !dup {
					comb[string(pair)] = fmt.Sprintf("%d,%d", k-1, k)
				}
			}
		}
	}
	root := "-"
	if len(toks) > 0 {
		root = toks[len(toks)-1]
	}
	return strings.TrimSpace(fmt.Sprintf("%d %s", len(tree), strings.Join(toks, " "))) + " root=" + root
}

// ---------------------------------------------------------------- pre

func preLine(b *pb.InternalBlock) string {
	var ft []string
	var ks []string
	for k := range b.FailedTxs {
		ks = append(ks, k)
	}
	sort.Strings(ks)
	for _, k := range ks {
		ft = append(ft, hx([]byte(k))+":"+hx([]byte(b.FailedTxs[k])))
	}
	fts := "-"
	if len(ft) > 0 {
		fts = strings.Join(ft, ",")
	}
	j := "none"
	if b.Justify != nil {
		var ss []string
		if b.Justify.SignInfos != nil {
			for _, s := range b.Justify.SignInfos.QCSignInfos {
				ss = append(ss, hx([]byte(s.Address))+"/"+hx([]byte(s.PublicKey))+"/"+hx(s.Sign))
			}
		}
		sj := "-"
		if len(ss) > 0 {
			sj = strings.Join(ss, ";")
		}
		j = fmt.Sprintf("%s:%s:%d:%d:%s", hx(b.Justify.ProposalId), hx(b.Justify.ProposalMsg), int32(b.Justify.Type), b.Justify.ViewNumber, sj)
	}
	return fmt.Sprintf("pre v=%d no=%d tc=%d pr=%s ts=%d pk=%s ph=%s mr=%s ft=%s ct=%d cb=%d tb=%d j=%s",
		b.Version, b.Nonce, b.TxCount, hx(b.Proposer), b.Timestamp, hx(b.Pubkey), hx(b.PreHash), hx(b.MerkleRoot), fts,
		b.CurTerm, b.CurBlockNum, b.TargetBits, j)
}

func parseKV(w []string) map[string]string {
	m := map[string]string{}
	for _, t := range w {
		if i := strings.Index(t, "="); i > 0 {
			m[t[:i]] = t[i+1:]
		}
	}
	return m
}

func atoi(s string) int64 {
	n, err := strconv.ParseInt(s, 10, 64)
	if err != nil {
		panic("bad int " + s)
	}
	return n
}

func parsePre(w []string) *pb.InternalBlock {
	m := parseKV(w)
	b := &pb.InternalBlock{Version: int32(atoi(m["v"])), Nonce: int32(atoi(m["no"])), TxCount: int32(atoi(m["tc"])),
		Proposer: unhx(m["pr"]), Timestamp: atoi(m["ts"]), Pubkey: unhx(m["pk"]), PreHash: unhx(m["ph"]), MerkleRoot: unhx(m["mr"]),
		CurTerm: atoi(m["ct"]), CurBlockNum: atoi(m["cb"]), TargetBits: int32(atoi(m["tb"]))}
	if m["ft"] != "-" {
		b.FailedTxs = map[string]string{}
		for _, e := range strings.Split(m["ft"], ",") {
			kv := strings.Split(e, ":")
			b.FailedTxs[string(unhx(kv[0]))] = string(unhx(kv[1]))
		}
	}
	if m["j"] != "none" {
		p := strings.Split(m["j"], ":")
		j := &pb.QuorumCert{ProposalId: unhx(p[0]), ProposalMsg: unhx(p[1]), Type: pb.QCState(atoi(p[2])), ViewNumber: atoi(p[3])}
		if p[4] != "-" {
			j.SignInfos = &pb.QCSignInfos{}
			for _, s := range strings.Split(p[4], ";") {
				q := strings.Split(s, "/")
				j.SignInfos.QCSignInfos = append(j.SignInfos.QCSignInfos, &pb.SignInfo{Address: string(unhx(q[0])), PublicKey: string(unhx(q[1])), Sign: unhx(q[2])})
			}
		}
		b.Justify = j
	}
	return b
}

func schemaBlockID(b *pb.InternalBlock) ([]byte, []byte, error) {
	pre, err := interp(schemas.BlockIdSchema, reflect.ValueOf(b), nil)
	if err != nil {
		return nil, nil, err
	}
	if schemas.BlockIdHash != "hash.DoubleSha256" {
		return nil, nil, fmt.Errorf("unexpected block id hash function %s", schemas.BlockIdHash)
	}
	return pre, hash.DoubleSha256(pre), nil
}

func execPre(line string, oracle bool) string {
	b := parsePre(strings.Fields(line)[1:])
	real, err := ledger.MakeBlockID(b)
	if err != nil {
		return "error"
	}
	pre, id, err := schemaBlockID(b)
	if err != nil || !bytes.Equal(id, real) {
		// the extracted schema does not describe what MakeBlockID hashes: the tie is broken (no property violation by itself)
		return fmt.Sprintf("schema-mismatch(%v)", err)
	}
	return hx(pre)
}

// ---------------------------------------------------------------- vb

type base struct {
	n, qc, ft, ph, k int
	tb               int32
	d                int // 1: the last transaction repeats the one before it (the proposer signed such a body)
}

func parseBase(m map[string]string) base {
	if m["d"] == "" {
		m["d"] = "0"
	}
	return base{n: int(atoi(m["n"])), qc: int(atoi(m["qc"])), ft: int(atoi(m["ft"])), tb: int32(atoi(m["tb"])), ph: int(atoi(m["ph"])), k: int(atoi(m["k"])), d: int(atoi(m["d"]))}
}

func (p base) String() string {
	return fmt.Sprintf("n=%d qc=%d ft=%d tb=%d ph=%d k=%d d=%d", p.n, p.qc, p.ft, p.tb, p.ph, p.k, p.d)
}

func stdJustify(signs int) *pb.QuorumCert {
	j := &pb.QuorumCert{ProposalId: sha("xv-pid"), ProposalMsg: []byte("msg"), Type: pb.QCState_PREPARE, ViewNumber: 9,
		SignInfos: &pb.QCSignInfos{}}
	for i := 0; i < signs; i++ {
		j.SignInfos.QCSignInfos = append(j.SignInfos.QCSignInfos, stdSign(i))
	}
	return j
}

func stdSign(i int) *pb.SignInfo {
	return &pb.SignInfo{Address: "addr" + strconv.Itoa(i), PublicKey: "pk" + strconv.Itoa(i), Sign: []byte("sg" + strconv.Itoa(i))}
}

func formatBase(p base) (*pb.InternalBlock, error) {
	l := getLedger()
	var pre []byte
	if p.ph == 1 {
		pre = sha("xv-pre")
	}
	var qc *pb.QuorumCert
	if p.qc >= 0 {
		qc = stdJustify(p.qc)
	}
	var failed map[string]string
	if p.ft > 0 {
		failed = map[string]string{}
		for i := 0; i < p.ft; i++ {
			failed["f"+strconv.Itoa(i)] = "err" + strconv.Itoa(i)
		}
	}
	a := acct(p.k)
	txs := mkTxs(p.n, "b")
	if p.d == 1 && p.n >= 2 {
		txs[p.n-1] = txs[p.n-2]
	}
	return l.FormatMinerBlock(txs, []byte(a.Address), a.Pri, 1700000000, 3, 7, pre, p.tb, big.NewInt(0), qc, failed, 5)
}

func flipLast(b []byte) ([]byte, bool) {
	if len(b) == 0 {
		return b, false
	}
	c := append([]byte{}, b...)
	c[len(c)-1] ^= 1
	return c, true
}

func signBy(k int, msg []byte) []byte {
	s, err := xvlib.Crypto().SignECDSA(acct(k).Pri, msg)
	if err != nil {
		panic(err)
	}
	return s
}

// mutate applies one mutation; class: "reject" (a hashed header field, the body or the signature
// changed: the property demands rejection), "obs" (a field outside the id / a multi-field shift:
// reported, not judged), "accept" (the unmodified block), "" = not applicable to this base.
func mutate(b *pb.InternalBlock, p base, mut string) (class string) {
	steps := strings.Split(mut, "+")
	class = "reject"
	for si, st := range steps {
		a := strings.Split(st, ":")
		arg := func(i int) int {
			if i >= len(a) {
				panic("missing argument in " + mut)
			}
			return int(atoi(a[i]))
		}
		c := mutate1(b, p, a, arg)
		if c == "" {
			return ""
		}
		if si == 0 {
			class = c
		} else if c == "obs" && class == "accept" {
			class = "obs"
		}
	}
	return class
}

func mutate1(b *pb.InternalBlock, p base, a []string, arg func(int) int) string {
	signs := func() []*pb.SignInfo {
		if b.Justify == nil || b.Justify.SignInfos == nil {
			return nil
		}
		return b.Justify.SignInfos.QCSignInfos
	}
	switch a[0] {
	case "none":
		return "accept"
	case "inc", "dec":
		d := int64(1)
		if a[0] == "dec" {
			d = -1
		}
		switch a[1] {
		case "version":
			b.Version += int32(d)
		case "nonce":
			b.Nonce += int32(d)
		case "txcount":
			b.TxCount += int32(d)
		case "timestamp":
			b.Timestamp += d
		case "curterm":
			b.CurTerm += d
		case "curblocknum":
			b.CurBlockNum += d
		case "height":
			b.Height += d
			return "obs"
		case "targetbits":
			old := b.TargetBits
			b.TargetBits += int32(d)
			if old <= 0 && b.TargetBits <= 0 {
				return "obs"
			}
		case "jtype":
			if b.Justify == nil {
				return ""
			}
			b.Justify.Type += pb.QCState(d)
		case "jview":
			if b.Justify == nil {
				return ""
			}
			b.Justify.ViewNumber += d
		default:
			panic("unknown field " + a[1])
		}
		return "reject"
	case "flip", "clear":
		var f *[]byte
		var s *string
		cls := "reject"
		switch a[1] {
		case "proposer":
			f = &b.Proposer
		case "pubkey":
			f = &b.Pubkey
		case "prehash":
			f = &b.PreHash
		case "merkleroot":
			f = &b.MerkleRoot
		case "sign":
			f = &b.Sign
		case "blockid":
			f = &b.Blockid
		case "jpid", "jmsg":
			if b.Justify == nil {
				return ""
			}
			f = &b.Justify.ProposalId
			if a[1] == "jmsg" {
				f = &b.Justify.ProposalMsg
			}
		case "jsaddr0", "jspk0", "jssig0":
			ss := signs()
			if len(ss) == 0 {
				return ""
			}
			switch a[1] {
			case "jsaddr0":
				s = &ss[0].Address
			case "jspk0":
				s = &ss[0].PublicKey
			default:
				f = &ss[0].Sign
			}
		case "fmsg0":
			if p.ft < 1 {
				return ""
			}
			m, _ := flipLast([]byte(b.FailedTxs["f0"]))
			if a[0] == "clear" {
				m = nil
			}
			b.FailedTxs["f0"] = string(m)
			return "reject"
		case "fkey0":
			if p.ft < 1 || a[0] == "clear" {
				return ""
			}
			b.FailedTxs["e0"] = b.FailedTxs["f0"]
			delete(b.FailedTxs, "f0")
			return "obs"
		default:
			panic("unknown field " + a[1])
		}
		if s != nil {
			t := []byte(*s)
			f = &t
			defer func() { *s = string(t) }()
		}
		if len(*f) == 0 {
			return ""
		}
		if a[0] == "clear" {
			*f = nil
		} else {
			*f, _ = flipLast(*f)
		}
		return cls
	case "jdrop":
		if b.Justify == nil {
			return ""
		}
		b.Justify = nil
	case "jadd":
		if b.Justify != nil {
			return ""
		}
		b.Justify = stdJustify(1)
	case "jsdrop":
		ss := signs()
		if len(ss) == 0 {
			return ""
		}
		b.Justify.SignInfos.QCSignInfos = ss[:len(ss)-1]
	case "jsadd":
		if b.Justify == nil {
			return ""
		}
		if b.Justify.SignInfos == nil {
			b.Justify.SignInfos = &pb.QCSignInfos{}
		}
		b.Justify.SignInfos.QCSignInfos = append(b.Justify.SignInfos.QCSignInfos, stdSign(99))
	case "jshift":
		// move the last byte of ProposalId to the front of ProposalMsg: two fields change, the hashed bytes do not
		if b.Justify == nil || len(b.Justify.ProposalId) == 0 {
			return ""
		}
		id := b.Justify.ProposalId
		b.Justify.ProposalMsg = append([]byte{id[len(id)-1]}, b.Justify.ProposalMsg...)
		b.Justify.ProposalId = append([]byte{}, id[:len(id)-1]...)
		return "obs"
	case "fadd":
		if b.FailedTxs == nil {
			b.FailedTxs = map[string]string{}
		}
		b.FailedTxs["zz"] = "errz"
	case "fdrop":
		if p.ft < 1 {
			return ""
		}
		delete(b.FailedTxs, "f"+strconv.Itoa(p.ft-1))
	case "fshift":
		if p.ft < 2 {
			return ""
		}
		m0 := b.FailedTxs["f0"]
		b.FailedTxs["f1"] = m0[len(m0)-1:] + b.FailedTxs["f1"]
		b.FailedTxs["f0"] = m0[:len(m0)-1]
		return "obs"
	case "mtree":
		if len(b.MerkleTree) == 0 {
			return ""
		}
		b.MerkleTree[len(b.MerkleTree)-1], _ = flipLast(b.MerkleTree[len(b.MerkleTree)-1])
		return "obs"
	case "fixleaves":
		// the carried merkle tree is outside id and signature: a forger who changed the body can rewrite its
		// leaves to the new txids and leave the inner nodes and the root as the proposer computed them
		if len(b.MerkleTree) == 0 {
			return ""
		}
		for i, t := range b.Transactions {
			if i < len(b.MerkleTree) {
				b.MerkleTree[i] = t.GetTxid()
			}
		}
		return "accept"
	case "fixtree":
		// ... or recompute the whole carried tree from the new body and put the signed root back on top
		if len(b.MerkleTree) == 0 || len(b.Transactions) == 0 {
			return ""
		}
		b.MerkleTree = ledger.MakeMerkleTree(b.Transactions)
		b.MerkleTree[len(b.MerkleTree)-1] = append([]byte{}, b.MerkleRoot...)
		return "accept"
	case "fixlevels":
		// ... or recompute only the k lowest levels (leaves = level 0) and keep every node above them as signed
		k := arg(1)
		nt := ledger.MakeMerkleTree(b.Transactions)
		if len(b.MerkleTree) == 0 || len(nt) != len(b.MerkleTree) {
			return ""
		}
		cnt, w := 0, (len(nt)+1)/2
		for j := 0; j < k && w >= 1; j++ {
			cnt += w
			w /= 2
		}
		if cnt >= len(nt) {
			return "" // that would replace the root as well: not a tree under the signed root any more
		}
		copy(b.MerkleTree[:cnt], nt[:cnt])
		return "accept"
	case "droptree":
		// the ledger stores the carried tree with the header and lists the body of the stored block from its leaves
		// (queryBlock): a block without it, or with other leaves, is not the block the proposer signed once stored
		if len(b.MerkleTree) == 0 {
			return ""
		}
		b.MerkleTree = nil
	case "leafswap":
		i, j := arg(1), arg(2)
		if i >= len(b.Transactions) || j >= len(b.Transactions) || i == j || len(b.MerkleTree) < len(b.Transactions) {
			return ""
		}
		b.MerkleTree[i], b.MerkleTree[j] = b.MerkleTree[j], b.MerkleTree[i]
	case "leafflip":
		i := arg(1)
		if i >= len(b.Transactions) || len(b.MerkleTree) < len(b.Transactions) {
			return ""
		}
		b.MerkleTree[i], _ = flipLast(b.MerkleTree[i])
	case "leafdup":
		// leaf i overwritten with leaf j: the stored body would list transaction j twice
		i, j := arg(1), arg(2)
		if i >= len(b.Transactions) || j >= len(b.Transactions) || i == j || len(b.MerkleTree) < len(b.Transactions) {
			return ""
		}
		b.MerkleTree[i] = append([]byte{}, b.MerkleTree[j]...)
	case "txdrop":
		i := arg(1)
		if i >= len(b.Transactions) {
			return ""
		}
		b.Transactions = append(append([]*pb.Transaction{}, b.Transactions[:i]...), b.Transactions[i+1:]...)
	case "txins":
		i := arg(1)
		if i > len(b.Transactions) {
			return ""
		}
		nt := &pb.Transaction{Txid: sha("xv-tx-new")}
		b.Transactions = append(append(append([]*pb.Transaction{}, b.Transactions[:i]...), nt), b.Transactions[i:]...)
	case "txdup":
		i := arg(1)
		if i >= len(b.Transactions) {
			return ""
		}
		b.Transactions = append(b.Transactions, b.Transactions[i])
	case "txswap":
		i, j := arg(1), arg(2)
		if i >= len(b.Transactions) || j >= len(b.Transactions) || i == j {
			return ""
		}
		b.Transactions[i], b.Transactions[j] = b.Transactions[j], b.Transactions[i]
	case "txflip", "txnil", "txtrunc", "txcontent":
		i := arg(1)
		if i >= len(b.Transactions) {
			return ""
		}
		t := proto.Clone(b.Transactions[i]).(*pb.Transaction)
		b.Transactions[i] = t
		switch a[0] {
		case "txflip":
			t.Txid, _ = flipLast(t.Txid)
		case "txnil":
			t.Txid = nil
		case "txtrunc":
			t.Txid = t.Txid[:len(t.Txid)-1]
		case "txcontent":
			t.Desc = append(t.Desc, 'x')
			return "obs"
		}
	case "txshift":
		// move the first half of txid i+1 to the end of txid i: the concatenation of the two leaves is unchanged
		i := arg(1)
		if i+1 >= len(b.Transactions) {
			return ""
		}
		x, y := b.Transactions[i].Txid, b.Transactions[i+1].Txid
		b.Transactions[i] = &pb.Transaction{Txid: append(append([]byte{}, x...), y[:16]...)}
		b.Transactions[i+1] = &pb.Transaction{Txid: append([]byte{}, y[16:]...)}
	case "txaddnil":
		b.Transactions = append(b.Transactions, &pb.Transaction{Desc: []byte("no id")})
	case "pkother":
		b.Pubkey = []byte(acct(p.k + 1).PubJSON)
	case "signother":
		b.Sign = signBy(p.k+1, b.Blockid)
	case "proposerother":
		b.Proposer = []byte(acct(p.k + 1).Address)
	case "takeover":
		b.Proposer = []byte(acct(p.k + 1).Address)
		b.Pubkey = []byte(acct(p.k + 1).PubJSON)
		b.Blockid, _ = ledger.MakeBlockID(b)
		b.Sign = signBy(p.k+1, b.Blockid)
		return "obs"
	case "reid":
		b.Blockid, _ = ledger.MakeBlockID(b)
		return "accept"
	case "fixbody":
		// what a forger without the proposer's key can recompute: count, root, id
		b.TxCount = int32(len(b.Transactions))
		b.MerkleTree = ledger.MakeMerkleTree(b.Transactions)
		b.MerkleRoot = nil
		if len(b.MerkleTree) > 0 {
			b.MerkleRoot = b.MerkleTree[len(b.MerkleTree)-1]
		}
		b.Blockid, _ = ledger.MakeBlockID(b)
		return "accept"
	default:
		panic("unknown mutation " + a[0])
	}
	return "reject"
}

func mutName(m string) string {
	var parts []string
	for _, st := range strings.Split(m, "+") {
		a := strings.Split(st, ":")
		if a[0] == "inc" || a[0] == "dec" || a[0] == "flip" || a[0] == "clear" {
			parts = append(parts, a[0]+":"+a[1])
		} else {
			parts = append(parts, a[0])
		}
	}
	return strings.Join(parts, "+")
}

func execVb(line string, oracle bool) string {
	m := parseKV(strings.Fields(line)[1:])
	p := parseBase(m)
	b, err := formatBase(p)
	if err != nil {
		return "format-error"
	}
	vl := getLedger()
	if m["known"] == "1" && p.n >= 1 && p.ph == 1 && p.d == 0 {
		// the honest block is confirmed first; the copy that is verified carries the same header
		kb, ok := formatKnown(p, true)
		if !ok {
			out.Violate(xvlib.Violation{Key: "formatted-block-not-confirmed", What: "a block formatted by FormatMinerBlock on the ledger's tip is refused by ConfirmBlock", Ops: []string{line}, Impl: []string{knownErr}})
			return "format-error"
		}
		b, vl = kb, getKnownLedger()
	}
	stored := m["stored"] == "1" && p.n >= 1 && p.d == 0
	var parent []byte
	if stored {
		// the block extends the tip of the known ledger; if the (mutated) copy passes VerifyBlock it is confirmed, as
		// the node does with a synchronised block (miner.batchConfirmBlock), and read back from storage
		kb, ok := formatKnown(p, false)
		if !ok {
			return "format-error"
		}
		b, vl = kb, getKnownLedger()
		parent = vl.GetMeta().TipBlockid
	}
	orig := b
	b = proto.Clone(b).(*pb.InternalBlock)
	class := mutate(b, p, m["m"])
	if class == "" {
		return "n/a"
	}
	if class == "reject" && proto.Equal(orig, b) {
		class = "noop" // e.g. swapping two equal transactions: nothing changed, nothing to reject
	}
	ok, _ := vl.VerifyBlock(b, "xv")
	res := "reject"
	if ok {
		res = "accept"
	}
	if stored && ok {
		readBack(line, vl, parent, b, oracle)
	}
	if !oracle {
		return res
	}
	name := mutName(m["m"])
	switch class {
	case "accept":
		if name == "none" {
			if p.n >= 1 && p.ph == 1 {
				if !ok {
					out.Violate(xvlib.Violation{Key: "formatted-block-rejected", What: "a block formatted by FormatMinerBlock does not pass VerifyBlock", Ops: []string{line}, Impl: []string{res}})
				}
			} else {
				out.Count("observation:formatted(n=0 or empty prehash):" + res)
			}
		}
	case "reject":
		if ok {
			out.Violate(xvlib.Violation{Key: "mutant-accepted:" + name,
				What: fmt.Sprintf("VerifyBlock accepts a block whose hashed header, body or signature was changed after the proposer signed it (mutation %s)", m["m"]),
				Ops:  []string{line}, Impl: []string{res}})
		}
	case "obs":
		out.Count("observation:" + name + ":" + res)
	case "noop":
		out.Count("noop-mutation:" + res)
	}
	return res
}

// readBack confirms a block that passed VerifyBlock and reads it back from storage the way state.Walk obtains the
// blocks it plays (FindUndoAndTodoBlocks reads through queryBlock, not through the block cache).  The block the ledger
// serves under that id must carry exactly the ordered transaction list that was verified.
func readBack(line string, l *ledger.Ledger, parent []byte, sent *pb.InternalBlock, oracle bool) {
	want := make([]string, len(sent.Transactions))
	for i, t := range sent.Transactions {
		want[i] = hx(t.Txid)
	}
	if st := l.ConfirmBlock(proto.Clone(sent).(*pb.InternalBlock), false); !st.Succ {
		out.Count("stored:verified-but-not-confirmed")
		return
	}
	got, problem := func() (got []string, problem string) {
		defer func() {
			if r := recover(); r != nil {
				problem = fmt.Sprintf("panic: %v", r)
			}
		}()
		_, todo, err := l.FindUndoAndTodoBlocks(parent, sent.Blockid)
		if err != nil {
			return nil, "error: " + err.Error()
		}
		if len(todo) != 1 {
			return nil, fmt.Sprintf("%d blocks to play instead of 1", len(todo))
		}
		for _, t := range todo[0].Transactions {
			got = append(got, hx(t.Txid))
		}
		return got, ""
	}()
	out.Count("stored:read-back")
	if !oracle {
		return
	}
	switch {
	case problem != "":
		out.Violate(xvlib.Violation{Key: "verified-block-unreadable",
			What: "a block passes VerifyBlock and is confirmed, but the ledger cannot read it back from storage (" + problem + ")",
			Ops:  []string{line}, Impl: []string{problem}})
	case strings.Join(got, ",") != strings.Join(want, ","):
		out.Violate(xvlib.Violation{Key: "verified-block-stored-with-other-body",
			What: "a block passes VerifyBlock and is confirmed, but the block the ledger serves under its id (read from storage, as state.Walk does) carries another ordered transaction list than the one that was verified: its merkle root is not the root of its body",
			Ops:  []string{line}, Impl: []string{"verified " + strings.Join(want, ","), "stored   " + strings.Join(got, ",")}})
	}
}

// ---------------------------------------------------------------- exec / generate

func execC08(line string, oracle bool) string {
	w := strings.Fields(line)
	if len(w) == 0 {
		return "bad-op"
	}
	switch w[0] {
	case "leaf":
		n := int(atoi(w[1]))
		return strconv.Itoa((len(ledger.MakeMerkleTree(mkTxs(n, "l"))) + 1) / 2)
	case "shape":
		return shapeOf(int(atoi(w[1])))
	case "pre":
		return execPre(line, oracle)
	case "vb":
		return execVb(line, oracle)
	case "conc":
		return execConc(w, line, "C08")
	case "fb":
		return execFb(line, oracle)
	case "vf":
		return execVf(line, oracle)
	}
	return "bad-op"
}

func randBytes(r *xvlib.Rng, n int) []byte {
	b := make([]byte, n)
	for i := range b {
		b[i] = byte(r.U64())
	}
	return b
}

func randInt(r *xvlib.Rng, bits uint) int64 {
	switch r.Intn(6) {
	case 0:
		return 0
	case 1:
		return 1
	case 2:
		return -1
	case 3:
		return int64(r.Intn(1000))
	}
	v := int64(r.U64())
	if bits == 32 {
		return int64(int32(v))
	}
	return v
}

func randBlock(r *xvlib.Rng) *pb.InternalBlock {
	vl := func(max int) []byte {
		if r.Chance(1, 5) {
			return nil
		}
		return randBytes(r, 1+r.Intn(max))
	}
	b := &pb.InternalBlock{Version: int32(randInt(r, 32)), Nonce: int32(randInt(r, 32)), TxCount: int32(randInt(r, 32)),
		Proposer: vl(40), Timestamp: randInt(r, 64), Pubkey: vl(80), PreHash: vl(32), MerkleRoot: vl(32),
		CurTerm: randInt(r, 64), CurBlockNum: randInt(r, 64), TargetBits: int32(randInt(r, 32))}
	if nf := r.Intn(4); nf > 0 {
		b.FailedTxs = map[string]string{}
		for i := 0; i < nf; i++ {
			b.FailedTxs[hex.EncodeToString(randBytes(r, 2))] = string(vl(12))
		}
	}
	if r.Chance(1, 2) {
		j := &pb.QuorumCert{ProposalId: vl(32), ProposalMsg: vl(20), Type: pb.QCState(randInt(r, 32)), ViewNumber: randInt(r, 64)}
		if r.Chance(2, 3) {
			j.SignInfos = &pb.QCSignInfos{}
			for i := r.Intn(4); i > 0; i-- {
				j.SignInfos.QCSignInfos = append(j.SignInfos.QCSignInfos, &pb.SignInfo{Address: string(vl(34)), PublicKey: string(vl(60)), Sign: vl(70)})
			}
		}
		b.Justify = j
	}
	return b
}

// storedWorthwhile: mutations after which a block may still pass VerifyBlock (unmutated, fields outside the id, the
// carried tree): those are confirmed and read back
func storedWorthwhile(m string) bool {
	for _, pre := range []string{"none", "inc:height", "flip:fkey0", "jshift", "fshift", "mtree", "droptree", "leafswap", "leafflip", "leafdup", "txcontent", "takeover"} {
		if m == pre || strings.HasPrefix(m, pre+":") {
			return true
		}
	}
	return false
}

func leafCount(n int) int {
	w := 1
	for w < n {
		w *= 2
	}
	return w
}

func mutationsFor(p base, r *xvlib.Rng, all bool) []string {
	ms := []string{"none"}
	hdr := []string{"inc:version", "inc:nonce", "inc:txcount", "dec:txcount", "inc:timestamp", "inc:curterm", "inc:curblocknum",
		"inc:targetbits", "dec:targetbits", "inc:jtype", "inc:jview",
		"flip:proposer", "flip:pubkey", "flip:prehash", "flip:merkleroot", "flip:jpid", "flip:jmsg", "flip:jsaddr0", "flip:jspk0", "flip:jssig0", "flip:fmsg0",
		"clear:proposer", "clear:pubkey", "clear:prehash", "clear:merkleroot", "clear:jpid", "clear:jmsg", "clear:fmsg0",
		"jdrop", "jadd", "jsdrop", "jsadd", "fadd", "fdrop", "proposerother"}
	for _, h := range hdr {
		ms = append(ms, h, h+"+reid")
	}
	ms = append(ms, "inc:height", "flip:fkey0", "jshift", "fshift", "mtree", "droptree", "takeover",
		"leafswap:0:1", fmt.Sprintf("leafswap:0:%d", p.n-1), fmt.Sprintf("leafflip:%d", r.Intn(p.n)), fmt.Sprintf("leafflip:%d", p.n-1),
		"leafdup:0:1", fmt.Sprintf("leafdup:%d:0", p.n-1),
		"flip:sign", "clear:sign", "flip:blockid", "clear:blockid", "signother", "pkother", "pkother+signother", "pkother+reid+signother", "pkother+reid")
	idx := func() int { return r.Intn(p.n) }
	body := []string{}
	is := []int{0, p.n - 1, idx()}
	if all {
		is = nil
		for i := 0; i < p.n; i++ {
			is = append(is, i)
		}
	}
	seen := map[string]bool{}
	add := func(m string) {
		if !seen[m] {
			seen[m] = true
			body = append(body, m)
		}
	}
	for _, i := range is {
		for _, k := range []string{"txdrop", "txdup", "txflip", "txnil", "txtrunc", "txcontent", "txshift", "txins"} {
			add(fmt.Sprintf("%s:%d", k, i))
		}
		j := idx()
		add(fmt.Sprintf("txswap:%d:%d", i, j))
		add(fmt.Sprintf("txswap:%d:%d", i, (i+1)%p.n))
	}
	add(fmt.Sprintf("txins:%d", p.n))
	add("txaddnil")
	for _, m := range body {
		ms = append(ms, m)
		if !strings.HasPrefix(m, "txcontent") {
			ms = append(ms, m+"+fixbody", m+"+inc:txcount", m+"+dec:txcount")
			// coordinated tamper: the body and the carried merkle tree (outside id and signature) are changed together
			ms = append(ms, m+"+fixleaves", m+"+fixtree")
			if strings.HasPrefix(m, "txflip") || strings.HasPrefix(m, "txswap") {
				for k, w := 2, leafCount(p.n)/4; w >= 2; k, w = k+1, w/2 {
					ms = append(ms, fmt.Sprintf("%s+fixlevels:%d", m, k))
				}
			}
		}
	}
	return ms
}

func genC08(tier string, rng *xvlib.Rng, run func(string, bool)) {
	thorough := tier == "thorough"
	// 0. ids computed by several goroutines at once
	for i := 0; i < 3; i++ {
		run(fmt.Sprintf("conc %d %d %d", rng.Intn(1<<30), 12, map[bool]int{false: 150, true: 2000}[thorough]), true)
	}
	for i := 0; i < 3; i++ {
		// the same without barriers: several goroutines per core, each walking all objects, forced preemption (conc.go)
		it := map[bool]int{false: 60, true: 600}[thorough]
		for _, cfg := range []string{"12 %d w=64 big=4096 gc=1", "12 %d w=128 big=0 gc=1 ver=12", "16 %d w=48 big=20000 gc=0 ver=12", "12 %d w=32 big=0 gc=0 ver=21"} {
			run(fmt.Sprintf("conc %d "+cfg, rng.Intn(1<<30), it), true)
		}
	}
	// 1. leaf padding: every n up to 1024 (4096 thorough) and the neighbourhood of every power of two up to 2^12
	maxLeaf := 1024
	if thorough {
		maxLeaf = 4096
	}
	for n := 0; n <= maxLeaf; n++ {
		run(fmt.Sprintf("leaf %d", n), n > 0)
	}
	for e := uint(10); e <= 12 && !thorough; e++ {
		for d := -2; d <= 2; d++ {
			run(fmt.Sprintf("leaf %d", (1<<e)+d), true)
		}
	}
	// 2. whole tree for n = 0..300
	for n := 0; n <= 300; n++ {
		run(fmt.Sprintf("shape %d", n), n > 0)
	}
	// 3. block id pre-image: extracted schema against MakeBlockID, Lean pre-image against the schema bytes
	nPre := 1500
	if thorough {
		nPre = 30000
	}
	for i := 0; i < nPre; i++ {
		l := preLine(randBlock(rng))
		run(l, true)
		if i < 2 {
			out.Sample(map[string]string{"op": l, "impl": execC08(l, false)})
		}
	}
	// 4. VerifyBlock on node-formatted blocks and every single mutation of them
	var ns []int
	perN := 2
	if thorough {
		for n := 1; n <= 40; n++ {
			ns = append(ns, n)
		}
		ns = append(ns, 63, 64, 65, 100)
		perN = 5
	} else {
		ns = []int{1, 2, 3, 4, 5, 6, 7, 8, 9, 12, 16, 17, 33}
	}
	nb := 0
	for _, n := range ns {
		for c := 0; c < perN; c++ {
			p := base{n: n, qc: []int{-1, 0, 1, 3}[rng.Intn(4)], ft: rng.Intn(4), tb: []int32{0, 0, 5, -3, 1}[rng.Intn(5)], ph: 1, k: rng.Intn(3)}
			if c == 0 {
				p.qc, p.ft = 3, 2 // every mutation applicable at least once per n
			}
			if c == 1 && n >= 2 {
				p.d = 1
			}
			for _, m := range mutationsFor(p, rng, n <= 9 || thorough) {
				l := fmt.Sprintf("vb %s m=%s", p, m)
				run(l, m != "none")
				if p.d == 0 && (c == 0 || rng.Intn(3) == 0) {
					// the same mutation of a copy of a block this ledger has already confirmed
					run(l+" known=1", m != "none")
				}
				if p.d == 0 && storedWorthwhile(m) {
					// the mutated block extends the ledger's tip: if it passes it is confirmed and read back from storage
					run(l+" stored=1", true)
				}
				if nb < 2 && strings.HasPrefix(m, "txdup") {
					out.Sample(map[string]string{"op": l, "impl": execC08(l, false)})
					nb++
				}
			}
		}
	}
	// 5. crypto faults under Format*Block / VerifyBlock (fault.go)
	genFault(tier, rng, run)
	// observations: formatted blocks outside the precondition of formatted_verifies
	run(fmt.Sprintf("vb %s m=none", base{n: 0, qc: -1, ph: 1}), true)
	run(fmt.Sprintf("vb %s m=none", base{n: 2, qc: -1, ph: 0}), true)
	out.Stats.Exhaustive = false
	out.Stats.Rule = fmt.Sprintf("leaf: every n ≤ %d (+ neighbours of 2^10..2^12); shape: whole MakeMerkleTree array for every n ≤ 300; pre: %d random header field assignments (extracted schema bytes, double-SHA-256 checked against MakeBlockID); vb: node-formatted blocks with n ∈ %v transactions × %d parameter draws (justify none/0/1/3 signatures, 0–3 failed txs, target bits 0/5/-3/1, 3 proposer keys) × every single mutation of each header field, justify/failed-tx structure, body (drop/insert/duplicate/swap/alter/nil/truncate/shift at every position for n ≤ 9, else first/last/random) and signature, each alone and followed by the recomputations a forger can do (id, count, root; the leaves / the k lowest levels / all nodes below the root of the carried merkle tree, which is outside id and signature); the carried tree alone (leaves swapped / doubled / altered, tree dropped); blocks that may still pass are also confirmed on a second ledger and read back from storage (stored=1); fb / vf: Format(Miner)Block and VerifyBlock on a ledger whose crypto client fails its i-th request (every request position, every entry point; vf over signature / key / proposer / body / header mutants); a case is non-trivial unless it is leaf 0 / shape 0 / an unmutated block; distinct by op line", maxLeaf, nPre, ns, perN)
	out.Stats.Notes = append(out.Stats.Notes,
		"observations (distribution keys observation:*): fields outside the id — Height, FailedTxs keys, TargetBits ≤ 0 — and two-field boundary shifts (jshift, fshift) are accepted unchanged; the carried MerkleTree is outside the id but must be the tree of the body (mtree: its top node altered, rejected since the repair); a consistent block re-issued under another proposer+key (takeover) verifies (proposer entitlement is C16); transaction content with unchanged Txid (txcontent) is not seen by VerifyBlock (txid recomputation is C07); a formatted block with 0 transactions or empty PreHash does not verify",
		"not covered: consensus CheckMinerMatch wrappers (C16 / C14)")
}
