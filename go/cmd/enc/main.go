// Engine `enc` (C08 block integrity, C07 transaction integrity): drives the real
// ledger.MakeMerkleTree / MakeBlockID / Ledger.VerifyBlock / FormatMinerBlock and
// txhash.MakeTxDigestHash / MakeTransactionID / the signature checks of
// tx_verification.go in-process.
//
// C08 op lines (also the input of the Lean driver `xvdriver enc`):
//
//	leaf <n>            number of leaves MakeMerkleTree pads n transactions to      -> <int>
//	shape <n>           the array MakeMerkleTree returns for n distinct txids, each node named by how it was
//	                    obtained: L<i> leaf, - missing, <i>,<j> = DoubleSha256(node i ‖ node j)   -> <size> <tok>... root=<tok>
//	pre <block>         the byte string hashed into the block id (hex); the harness answers with the bytes its
//	                    interpreter of the *extracted* schema produces, after checking that their double SHA-256
//	                    is what ledger.MakeBlockID returns                             -> <hex>
//	vb <base> m=<mut>   Ledger.VerifyBlock on a node-formatted block after one mutation -> accept|reject|n/a
//	                    known=1: the honest block was confirmed on this ledger before; stored=1: the mutated block
//	                    extends the tip of the ledger and, if it passes, is confirmed and read back from storage
//	fb <base> via=miner|block f=<i>   Format(Miner)Block with the i-th crypto request failing -> refused|verifies|unverifiable
//	vf <base> m=<mut> f=<i>           VerifyBlock with the i-th crypto request failing          -> accept|reject|n/a  (fault.go)
//
// C07 op lines: see tx.go.
package main

import (
	"fmt"
	"io/ioutil"
	"log"
	"os"
	"path/filepath"
	"sort"
	"strings"

	"xv/xvlib"
)

var (
	schemas *Schemas
	out     *xvlib.Out
	scratch string
)

func main() {
	args := xvlib.ParseArgs()
	log.SetOutput(ioutil.Discard) // the crypto library prints every aggregated signature
	scratch = args.Scratch
	var err error
	schemas, err = loadSchemas()
	if err != nil {
		xvlib.Die("cannot load extracted schemas: %v", err)
	}
	out = xvlib.NewOut(args.Out)
	defer out.Close()
	defer os.RemoveAll(scratch + "/data")
	var exec func(line string, oracle bool) string
	var gen func(tier string, rng *xvlib.Rng, run func(line string, nontrivial bool))
	switch args.Prop {
	case "C08":
		exec, gen = execC08, genC08
	case "C07":
		exec, gen = execC07, genC07
	default:
		xvlib.Die("engine enc serves C08 and C07, not %q", args.Prop)
	}
	run := func(line string, nontrivial bool) {
		r := safeExec(exec, line)
		out.Emit(line, r)
		out.Case(line, nontrivial)
		kind := strings.Fields(line)[0]
		if kind == "vb" || kind == "fb" || kind == "vf" || kind == "vt" || kind == "sig" || kind == "vc" || kind == "sx" {
			out.Count(kind + ":" + r)
		} else {
			out.Count(kind)
		}
	}
	if args.Replay != "" {
		for _, l := range xvlib.ReadLines(args.Replay) {
			run(l, true)
		}
		return
	}
	// minimised past failures and hand-written corner cases run first
	if files, _ := filepath.Glob(filepath.Join("corpus", args.Prop, "*.ops")); len(files) > 0 {
		sort.Strings(files)
		for _, f := range files {
			for _, l := range xvlib.ReadLines(f) {
				run(l, true)
				out.Count("corpus")
			}
		}
	}
	// xvlib.NewRng(s) walks one global sequence from offset s: neighbouring seeds would meet after a few draws
	// (generation re-synchronises at case boundaries) and produce the same run; keep the seeds 2^32 draws apart
	gen(args.Tier, xvlib.NewRng(args.Seed<<32|0x5eed), run)
}

func safeExec(exec func(string, bool) string, line string) (res string) {
	defer func() {
		if r := recover(); r != nil {
			res = fmt.Sprintf("panic")
			out.Violate(xvlib.Violation{Key: "panic", What: fmt.Sprintf("the implementation panicked: %v", r), Ops: []string{line}, Impl: []string{"panic"}})
		}
	}()
	return exec(line, true)
}
