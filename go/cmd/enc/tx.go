package main

// C07 op lines (also the input of the Lean driver `xvdriver enc`):
//
//	d3 <tx>      byte string hashed into the v3 signing digest (hex); the harness answers with the bytes its
//	             interpreter of the *extracted* schema produces, after checking that their double SHA-256 is
//	             txhash.MakeTxDigestHash                                   -> <hex>
//	i3 <tx>      same for the id pre-image (signatures included) / txhash.MakeTransactionID   -> <hex>
//	d1 <tx>      v1/v2 JSON stream: the extracted schema's interpreter reproduces MakeTxDigestHash and
//	             MakeTransactionID                                          -> ok
//	k1 <ver> addr-amount   two transactions differing in (FromAddr, Amount) of an input: do their digests collide?
//	                                                                        -> collide|distinct
//	vt txid=<B|M|X> base=<tx> mut=<tx>   State.VerifyTx on the transaction `mut`, obtained from the accepted
//	             transaction `base` by one mutation; txid B = the id of base is kept, M = recomputed, X = garbage.
//	             The base itself is verified first in the same step (same signature bytes), then the mutant.
//	             Compared with the Lean decision model when base is a v3 transaction, else "-".   -> accept|reject
//
// <tx> is one token: fields joined by ';' (see specOf).  In vt lines byte strings may be symbolic:
// A<i> address of account i, C<n> account name n, C<n>/A<i> signer uri, K<i> public key of account i,
// S<k>.<r> signature by key k over the digest of r (B base, M this transaction, O another transaction),
// X<k>_<k>….<r> aggregated signature of keys k… over that digest.

import (
	"bytes"
	"crypto/ecdsa"
	"encoding/hex"
	"fmt"
	"os"
	"reflect"
	"sort"
	"strconv"
	"strings"
	"unicode/utf8"

	"github.com/golang/protobuf/proto"

	"github.com/xuperchain/xupercore/bcs/ledger/xledger/state"
	sctx "github.com/xuperchain/xupercore/bcs/ledger/xledger/state/context"
	"github.com/xuperchain/xupercore/bcs/ledger/xledger/state/utxo/txhash"
	txn "github.com/xuperchain/xupercore/bcs/ledger/xledger/tx"
	pb "github.com/xuperchain/xupercore/bcs/ledger/xledger/xldgpb"
	"github.com/xuperchain/xupercore/kernel/mock"
	"github.com/xuperchain/xupercore/lib/crypto/hash"
	"github.com/xuperchain/xupercore/protos"
	"xv/xvlib"
)

// ---------------------------------------------------------------- symbolic byte strings

func acctName(n int) string { return fmt.Sprintf("XC%016d@xuper", n) }

var symTab map[string]string // real bytes -> symbolic token (for printing)

func initSymTab() {
	if symTab != nil {
		return
	}
	symTab = map[string]string{}
	for i := 0; i < 8; i++ {
		symTab[acct(i).Address] = "A" + strconv.Itoa(i)
		symTab[acct(i).PubJSON] = "K" + strconv.Itoa(i)
		symTab[acctName(i)] = "C" + strconv.Itoa(i)
		for j := 0; j < 8; j++ {
			symTab[acctName(i)+"/"+acct(j).Address] = fmt.Sprintf("C%d/A%d", i, j)
		}
	}
}

func symOut(b []byte) string {
	if len(b) == 0 {
		return "-"
	}
	if t, ok := symTab[string(b)]; ok {
		return t
	}
	return hex.EncodeToString(b)
}

func symIn(tok string) []byte {
	if tok == "-" || tok == "" {
		return nil
	}
	c := tok[0]
	if c >= 'A' && c <= 'Z' {
		num := func(s string) int { n, err := strconv.Atoi(s); must(err); return n }
		switch {
		case c == 'A':
			return []byte(acct(num(tok[1:])).Address)
		case c == 'K':
			return []byte(acct(num(tok[1:])).PubJSON)
		case c == 'C':
			if i := strings.Index(tok, "/A"); i > 0 {
				return []byte(acctName(num(tok[1:i])) + "/" + acct(num(tok[i+2:])).Address)
			}
			return []byte(acctName(num(tok[1:])))
		case c == 'S' || c == 'X':
			return []byte(symPrefix + tok) // resolved in the second pass
		}
		panic("bad symbolic token " + tok)
	}
	return unhx(tok)
}

func must(err error) {
	if err != nil {
		panic(err)
	}
}

// ---------------------------------------------------------------- tx <-> spec

func joinOr(xs []string, sep string) string {
	if len(xs) == 0 {
		return "~"
	}
	return strings.Join(xs, sep)
}

func splitOr(s, sep string) []string {
	if s == "~" || s == "" {
		return nil
	}
	return strings.Split(s, sep)
}

// sigOut prints a signature: symbolic placeholders as their token.  In a mutant, a signature inherited from the
// base (".M" = made over the base's digest) is printed ".B"; one made for the mutant itself is marked ".N" -> ".M".
var printingMutant bool

func sigOut(b []byte) string {
	if bytes.HasPrefix(b, []byte(symPrefix)) {
		tok := string(b[len(symPrefix):])
		if printingMutant {
			switch {
			case strings.HasSuffix(tok, ".M"):
				tok = strings.TrimSuffix(tok, ".M") + ".B"
			case strings.HasSuffix(tok, ".N"):
				tok = strings.TrimSuffix(tok, ".N") + ".M"
			}
		}
		return tok
	}
	return symOut(b)
}

func specOf(tx *pb.Transaction) string {
	initSymTab()
	var f []string
	add := func(k, v string) { f = append(f, k+"="+v) }
	var xs []string
	for _, i := range tx.TxInputs {
		xs = append(xs, fmt.Sprintf("%s/%d/%s/%s/%d", symOut(i.RefTxid), i.RefOffset, symOut(i.FromAddr), symOut(i.Amount), i.FrozenHeight))
	}
	add("in", joinOr(xs, ","))
	xs = nil
	for _, o := range tx.TxOutputs {
		xs = append(xs, fmt.Sprintf("%s/%s/%d", symOut(o.Amount), symOut(o.ToAddr), o.FrozenHeight))
	}
	add("out", joinOr(xs, ","))
	b2i := func(b bool) int {
		if b {
			return 1
		}
		return 0
	}
	add("desc", symOut(tx.Desc))
	add("cb", strconv.Itoa(b2i(tx.Coinbase)))
	add("nonce", symOut([]byte(tx.Nonce)))
	add("ts", strconv.FormatInt(tx.Timestamp, 10))
	add("ver", strconv.Itoa(int(tx.Version)))
	add("ag", strconv.Itoa(b2i(tx.Autogen)))
	xs = nil
	for _, i := range tx.TxInputsExt {
		xs = append(xs, fmt.Sprintf("%s/%s/%s/%d", symOut([]byte(i.Bucket)), symOut(i.Key), symOut(i.RefTxid), i.RefOffset))
	}
	add("inx", joinOr(xs, ","))
	xs = nil
	for _, o := range tx.TxOutputsExt {
		xs = append(xs, fmt.Sprintf("%s/%s/%s", symOut([]byte(o.Bucket)), symOut(o.Key), symOut(o.Value)))
	}
	add("outx", joinOr(xs, ","))
	xs = nil
	for _, r := range tx.ContractRequests {
		var as, ls []string
		var ks []string
		for k := range r.Args {
			ks = append(ks, k)
		}
		sort.Strings(ks)
		for _, k := range ks {
			as = append(as, symOut([]byte(k))+":"+symOut(r.Args[k]))
		}
		for _, l := range r.ResourceLimits {
			ls = append(ls, fmt.Sprintf("%d:%d", int32(l.Type), l.Limit))
		}
		xs = append(xs, fmt.Sprintf("%s/%s/%s/%s/%s/%s", symOut([]byte(r.ModuleName)), symOut([]byte(r.ContractName)), symOut([]byte(r.MethodName)),
			joinOr(as, "+"), joinOr(ls, "+"), symOut([]byte(r.Amount))))
	}
	add("req", joinOr(xs, ","))
	add("init", symOut([]byte(tx.Initiator)))
	xs = nil
	for _, a := range tx.AuthRequire {
		xs = append(xs, strings.Replace(symOut([]byte(a)), "/", "|", -1))
	}
	add("auth", joinOr(xs, ","))
	sigs := func(ss []*protos.SignatureInfo) string {
		var xs []string
		for _, s := range ss {
			xs = append(xs, symOut([]byte(s.PublicKey))+"/"+sigOut(s.Sign))
		}
		return joinOr(xs, ",")
	}
	add("isig", sigs(tx.InitiatorSigns))
	add("asig", sigs(tx.AuthRequireSigns))
	if tx.XuperSign != nil {
		add("xs", "1")
		xs = nil
		for _, k := range tx.XuperSign.PublicKeys {
			xs = append(xs, symOut(k))
		}
		add("xpk", joinOr(xs, ","))
		add("xsg", sigOut(tx.XuperSign.Signature))
	} else {
		add("xs", "0")
		add("xpk", "~")
		add("xsg", "-")
	}
	if tx.HDInfo != nil {
		add("hd", "1")
		add("hdpk", symOut(tx.HDInfo.HdPublicKey))
		add("hdoh", symOut(tx.HDInfo.OriginalHash))
	} else {
		add("hd", "0")
		add("hdpk", "-")
		add("hdoh", "-")
	}
	// fields outside digest and id
	add("bid", symOut(tx.Blockid))
	add("rts", strconv.FormatInt(tx.ReceivedTimestamp, 10))
	if tx.ModifyBlock != nil {
		add("mb", fmt.Sprintf("%d/%s", b2i(tx.ModifyBlock.Marked), symOut([]byte(tx.ModifyBlock.EffectiveTxid))))
	} else {
		add("mb", "~")
	}
	return strings.Join(f, ";")
}

func parseSpec(s string) *pb.Transaction {
	m := map[string]string{}
	for _, f := range strings.Split(s, ";") {
		if i := strings.Index(f, "="); i > 0 {
			m[f[:i]] = f[i+1:]
		}
	}
	tx := &pb.Transaction{}
	for _, e := range splitOr(m["in"], ",") {
		p := strings.Split(e, "/")
		tx.TxInputs = append(tx.TxInputs, &protos.TxInput{RefTxid: symIn(p[0]), RefOffset: int32(atoi(p[1])), FromAddr: symIn(p[2]), Amount: symIn(p[3]), FrozenHeight: atoi(p[4])})
	}
	for _, e := range splitOr(m["out"], ",") {
		p := strings.Split(e, "/")
		tx.TxOutputs = append(tx.TxOutputs, &protos.TxOutput{Amount: symIn(p[0]), ToAddr: symIn(p[1]), FrozenHeight: atoi(p[2])})
	}
	tx.Desc = symIn(m["desc"])
	tx.Coinbase = m["cb"] == "1"
	tx.Nonce = string(symIn(m["nonce"]))
	tx.Timestamp = atoi(m["ts"])
	tx.Version = int32(atoi(m["ver"]))
	tx.Autogen = m["ag"] == "1"
	for _, e := range splitOr(m["inx"], ",") {
		p := strings.Split(e, "/")
		tx.TxInputsExt = append(tx.TxInputsExt, &protos.TxInputExt{Bucket: string(symIn(p[0])), Key: symIn(p[1]), RefTxid: symIn(p[2]), RefOffset: int32(atoi(p[3]))})
	}
	for _, e := range splitOr(m["outx"], ",") {
		p := strings.Split(e, "/")
		tx.TxOutputsExt = append(tx.TxOutputsExt, &protos.TxOutputExt{Bucket: string(symIn(p[0])), Key: symIn(p[1]), Value: symIn(p[2])})
	}
	for _, e := range splitOr(m["req"], ",") {
		p := strings.Split(e, "/")
		r := &protos.InvokeRequest{ModuleName: string(symIn(p[0])), ContractName: string(symIn(p[1])), MethodName: string(symIn(p[2])), Amount: string(symIn(p[5]))}
		for _, a := range splitOr(p[3], "+") {
			kv := strings.Split(a, ":")
			if r.Args == nil {
				r.Args = map[string][]byte{}
			}
			r.Args[string(symIn(kv[0]))] = symIn(kv[1])
		}
		for _, l := range splitOr(p[4], "+") {
			kv := strings.Split(l, ":")
			r.ResourceLimits = append(r.ResourceLimits, &protos.ResourceLimit{Type: protos.ResourceType(atoi(kv[0])), Limit: atoi(kv[1])})
		}
		tx.ContractRequests = append(tx.ContractRequests, r)
	}
	tx.Initiator = string(symIn(m["init"]))
	for _, a := range splitOr(m["auth"], ",") {
		tx.AuthRequire = append(tx.AuthRequire, string(symIn(strings.Replace(a, "|", "/", -1))))
	}
	sigs := func(s string) []*protos.SignatureInfo {
		var out []*protos.SignatureInfo
		for _, e := range splitOr(s, ",") {
			p := strings.Split(e, "/")
			out = append(out, &protos.SignatureInfo{PublicKey: string(symIn(p[0])), Sign: symIn(p[1])})
		}
		return out
	}
	tx.InitiatorSigns = sigs(m["isig"])
	tx.AuthRequireSigns = sigs(m["asig"])
	if m["xs"] == "1" {
		tx.XuperSign = &pb.XuperSignature{Signature: symIn(m["xsg"])}
		for _, k := range splitOr(m["xpk"], ",") {
			tx.XuperSign.PublicKeys = append(tx.XuperSign.PublicKeys, symIn(k))
		}
	}
	if m["hd"] == "1" {
		tx.HDInfo = &pb.HDInfo{HdPublicKey: symIn(m["hdpk"]), OriginalHash: symIn(m["hdoh"])}
	}
	tx.Blockid = symIn(m["bid"])
	if m["rts"] != "" {
		tx.ReceivedTimestamp = atoi(m["rts"])
	}
	if mb := m["mb"]; mb != "~" && mb != "" {
		p := strings.Split(mb, "/")
		tx.ModifyBlock = &pb.ModifyBlock{Marked: p[0] == "1", EffectiveTxid: string(symIn(p[1]))}
	}
	return tx
}

// resolveSigs replaces the symbolic signatures of tx (second pass).  Digest refs: B = digest of the base
// (the recorded bytes of the base's own signature are reused, signatures are part of the id), M = digest of this
// transaction, O = another transaction.  made records token -> bytes.
func resolveSigs(tx *pb.Transaction, baseDigest []byte, made map[string][][]byte, reuse map[string][][]byte) {
	self, err := txhash.MakeTxDigestHash(tx)
	must(err)
	res := func(b []byte) []byte {
		if !bytes.HasPrefix(b, []byte(symPrefix)) {
			return b
		}
		tok := string(b[len(symPrefix):])
		dot := strings.LastIndex(tok, ".")
		var d []byte
		switch tok[dot+1:] {
		case "B":
			// the k-th use of a token in the mutant is the k-th signature the base made with it
			if r := reuse[tok[:dot]+".M"]; len(r) > 0 {
				reuse[tok[:dot]+".M"] = append(r[1:], r[0])
				return r[0]
			}
			d = baseDigest
		case "M":
			d = self
		case "O":
			d = sha("xv-other-tx")
		default:
			panic("bad digest ref in " + tok)
		}
		var sig []byte
		if tok[0] == 'S' {
			k, err := strconv.Atoi(tok[1:dot])
			must(err)
			sig = signBy(k, d)
		} else {
			var keys []*ecdsa.PrivateKey
			for _, ks := range strings.Split(tok[1:dot], "_") {
				k, err := strconv.Atoi(ks)
				must(err)
				keys = append(keys, acct(k).Pri)
			}
			sig, err = xvlib.Crypto().MultiSign(keys, d)
			must(err)
		}
		if made != nil {
			made[tok] = append(made[tok], sig)
		}
		return sig
	}
	for _, s := range tx.InitiatorSigns {
		s.Sign = res(s.Sign)
	}
	for _, s := range tx.AuthRequireSigns {
		s.Sign = res(s.Sign)
	}
	if tx.XuperSign != nil {
		tx.XuperSign.Signature = res(tx.XuperSign.Signature)
	}
}

const symPrefix = "\x00sym:"

// ---------------------------------------------------------------- real state

type fakeAcl struct{}

func (fakeAcl) GetAccountACL(name string) (*protos.Acl, error) {
	for n := 0; n < 8; n++ {
		if name == acctName(n) {
			return &protos.Acl{Pm: &protos.PermissionModel{Rule: protos.PermissionRule_SIGN_THRESHOLD, AcceptValue: 1},
				AksWeight: map[string]float64{acct(n).Address: 1}}, nil
		}
	}
	return nil, nil
}
func (fakeAcl) GetContractMethodACL(c, m string) (*protos.Acl, error) { return nil, nil }
func (fakeAcl) GetAccountAddresses(name string) ([]string, error) {
	for n := 0; n < 8; n++ {
		if name == acctName(n) {
			return []string{acct(n).Address}, nil
		}
	}
	return nil, nil
}

var theState *state.State

func getState() *state.State {
	if theState != nil {
		return theState
	}
	l := getLedger()
	rootTx, err := txn.GenerateRootTx(genesisConf)
	must(err)
	rb, err := l.FormatRootBlock([]*pb.Transaction{rootTx})
	must(err)
	if st := l.ConfirmBlock(rb, true); !st.Succ {
		xvlib.Die("confirm root block: %v", st.Error)
	}
	econf, err := mock.NewEnvConfForTest()
	must(err)
	c, err := sctx.NewStateCtx(econf, "xuper", l, xvlib.Crypto())
	must(err)
	c.EnvCfg = ledgerEnv
	s, err := state.NewState(c)
	if err != nil {
		xvlib.Die("new state: %v", err)
	}
	s.SetAclMG(fakeAcl{})
	attachContracts(s)
	if err := s.Play(rb.Blockid); err != nil {
		xvlib.Die("play root: %v", err)
	}
	theState = s
	return s
}

// ---------------------------------------------------------------- d3 / i3 / d1 / k1

func schemaTxHashes(tx *pb.Transaction) (dpre, ipre []byte, err error) {
	items := schemas.TxDigestV3
	if tx.Version < 3 {
		items = schemas.TxDigestV1
	}
	dpre, err = interp(items, reflect.ValueOf(tx), map[string]bool{"includeSigns": false})
	if err != nil {
		return
	}
	ipre, err = interp(items, reflect.ValueOf(tx), map[string]bool{"includeSigns": true})
	return
}

func execDigest(kind string, tx *pb.Transaction) string {
	dpre, ipre, err := schemaTxHashes(tx)
	if err != nil {
		return "schema-mismatch(" + err.Error() + ")"
	}
	rd, err1 := txhash.MakeTxDigestHash(tx)
	ri, err2 := txhash.MakeTransactionID(tx)
	if err1 != nil || err2 != nil {
		return "error"
	}
	if !bytes.Equal(hash.DoubleSha256(dpre), rd) || !bytes.Equal(hash.DoubleSha256(ipre), ri) {
		return "schema-mismatch"
	}
	switch kind {
	case "d3":
		return hx(dpre)
	case "i3":
		return hx(ipre)
	}
	return "ok"
}

func k1Pair(ver int32) (*pb.Transaction, *pb.Transaction) {
	mk := func(from, amt []byte) *pb.Transaction {
		return &pb.Transaction{Version: ver, Nonce: "n", Timestamp: 5, Initiator: acct(0).Address,
			TxInputs:  []*protos.TxInput{{RefTxid: sha("xv-ref"), RefOffset: 0, FromAddr: from, Amount: amt}},
			TxOutputs: []*protos.TxOutput{{Amount: []byte{9}, ToAddr: []byte(acct(1).Address)}}}
	}
	x := []byte(acct(0).Address)
	return mk(x, nil), mk(nil, x)
}

func execK1(w []string, oracle bool) string {
	ver := int32(atoi(w[1]))
	a, b := k1Pair(ver)
	da, _ := txhash.MakeTxDigestHash(a)
	db, _ := txhash.MakeTxDigestHash(b)
	ia, _ := txhash.MakeTransactionID(a)
	ib, _ := txhash.MakeTransactionID(b)
	if bytes.Equal(da, db) && bytes.Equal(ia, ib) {
		if oracle {
			out.Violate(xvlib.Violation{Key: "txdigest-v1v2-not-injective",
				What: fmt.Sprintf("two version-%d transactions that differ in covered fields (input FromAddr=X, Amount empty / FromAddr empty, Amount=X) have the same signing digest and the same txid", ver),
				Ops:  []string{strings.Join(w, " ")}, Impl: []string{"collide"}})
		}
		return "collide"
	}
	return "distinct"
}

// dm3 <specA> <specB> cls=<class>: two version-3 transactions that differ in one field.
func execDm3(w []string, oracle bool) string {
	if len(w) < 3 {
		return "bad-op"
	}
	a, b := parseSpec(w[1]), parseSpec(w[2])
	da, e1 := txhash.MakeTxDigestHash(a)
	db, e2 := txhash.MakeTxDigestHash(b)
	ia, e3 := txhash.MakeTransactionID(a)
	ib, e4 := txhash.MakeTransactionID(b)
	if e1 != nil || e2 != nil || e3 != nil || e4 != nil {
		return "error"
	}
	dd, ii := "distinct", "distinct"
	if bytes.Equal(da, db) {
		dd = "collide"
	}
	if bytes.Equal(ia, ib) {
		ii = "collide"
	}
	cls := ""
	for _, t := range w[3:] {
		if strings.HasPrefix(t, "cls=") {
			cls = t[4:]
		}
	}
	if oracle {
		inSigs := strings.HasPrefix(cls, "InitiatorSigns") || strings.HasPrefix(cls, "AuthRequireSigns") || strings.HasPrefix(cls, "XuperSign") ||
			strings.HasPrefix(cls, "list:InitiatorSigns") || strings.HasPrefix(cls, "list:AuthRequireSigns") || strings.HasPrefix(cls, "sigarea:") || strings.HasPrefix(cls, "signature:")
		if ii == "collide" {
			out.Violate(xvlib.Violation{Key: "txid-v3-collision:" + cls, What: "two version-3 transactions that differ in one field (" + cls + ") have the same txid", Ops: []string{strings.Join(w, " ")}, Impl: []string{"id=collide"}})
		}
		if dd == "collide" && !inSigs {
			out.Violate(xvlib.Violation{Key: "txdigest-v3-collision:" + cls, What: "two version-3 transactions that differ in one field outside the signatures (" + cls + ") have the same signing digest: a signature over one verifies for the other", Ops: []string{strings.Join(w, " ")}, Impl: []string{"digest=collide"}})
		}
	}
	return "digest=" + dd + " id=" + ii
}

// ---------------------------------------------------------------- vt

func execVt(line string, oracle bool) (string, int32) {
	m := parseKV(strings.Fields(line)[1:])
	base := parseSpec(m["base"])
	made := map[string][][]byte{}
	resolveSigs(base, nil, made, nil) // the base is signed over its own digest
	bd, err := txhash.MakeTxDigestHash(base)
	must(err)
	base.Txid, err = txhash.MakeTransactionID(base)
	must(err)
	mut := parseSpec(m["mut"])
	resolveSigs(mut, bd, nil, made)
	switch m["txid"] {
	case "B":
		mut.Txid = base.Txid
	case "M":
		mut.Txid, err = txhash.MakeTransactionID(mut)
		must(err)
	default:
		mut.Txid = sha("xv-garbage-id")
	}
	// the signed base goes through VerifyTx first (with the very signature bytes the mutant inherits): whatever the
	// implementation keeps from one verification to the next (result caches) is part of the input of the second
	if bok, _ := getState().VerifyTx(base); !bok && oracle {
		out.Violate(xvlib.Violation{Key: "signed-tx-rejected", What: "the correctly signed base transaction of a mutation line is rejected by VerifyTx", Ops: []string{line}, Impl: []string{"base: reject"}})
	}
	ok, verr := getState().VerifyTx(mut)
	if !ok && verr == nil && oracle {
		// Chain.SubmitTx (kernel/engines/xuperos/chain.go) consults only the error of VerifyTx before it calls DoTx:
		// a refusal that carries no error is an admission
		out.Violate(xvlib.Violation{Key: "refused-without-error", What: "VerifyTx refuses the transaction (false) but returns no error; Chain.SubmitTx checks only the error and admits it", Ops: []string{line}, Impl: []string{"ok=false err=nil"}})
	}
	if ok {
		return "accept", base.Version
	}
	return "reject", base.Version
}

// ---------------------------------------------------------------- exec

func execC07(line string, oracle bool) string {
	w := strings.Fields(line)
	if len(w) == 0 {
		return "bad-op"
	}
	switch w[0] {
	case "d3", "i3", "d1":
		return execDigest(w[0], parseSpec(w[1]))
	case "dm3":
		return execDm3(w, oracle)
	case "conc":
		return execConc(w, line, "C07")
	case "k1":
		return execK1(w, oracle)
	case "vc":
		return execVc(line, oracle)
	case "sx", "sxf":
		return execSx(line, oracle)
	case "vt":
		res, ver := execVt(line, oracle)
		if oracle {
			judgeVt(line, res)
		}
		out.Count("vt-v" + strconv.Itoa(int(ver)) + ":" + res)
		if ver < 3 {
			return "-" // v1/v2 digests are not modelled byte for byte: judged by the oracle only
		}
		return res
	}
	return "bad-op"
}

// judgeVt: the impl-side oracle.  cls=<class> on the op line says what the mutation touched.
func judgeVt(line, res string) {
	m := parseKV(strings.Fields(line)[1:])
	cls := m["cls"]
	switch {
	case cls == "base":
		if res != "accept" {
			out.Violate(xvlib.Violation{Key: "signed-tx-rejected", What: "a correctly signed transaction is rejected by VerifyTx", Ops: []string{line}, Impl: []string{res}})
		}
	case strings.HasPrefix(cls, "obs:"):
		out.Count("observation:" + cls[4:] + ":" + res)
	case cls == "noop":
		out.Count("noop-mutation:" + res)
	case cls == "resigned:control":
		if res != "accept" {
			out.Violate(xvlib.Violation{Key: "signed-tx-rejected", What: "a correctly re-signed transaction is rejected by VerifyTx", Ops: []string{line}, Impl: []string{res}})
		}
	default:
		if res == "accept" {
			key := "mutant-accepted:" + cls
			switch {
			case strings.HasPrefix(cls, "HDInfo") && strings.Contains(m["base"], ";ver=1;"):
				key = "txdigest-v1-omits-hdinfo"
			case strings.HasPrefix(cls, "sigarea:"):
				key = "signature-area-malleable"
			}
			ops := []string{line}
			out.Violate(xvlib.Violation{Key: key,
				What: fmt.Sprintf("VerifyTx accepts a transaction obtained from a signed one by changing %s (txid %s)", cls, map[string]string{"B": "kept", "M": "recomputed", "X": "garbage"}[m["txid"]]),
				Ops:  ops, Impl: []string{res}})
		}
	}
}

// ---------------------------------------------------------------- generators

func randTx(r *xvlib.Rng, ver int32) *pb.Transaction {
	vl := func(max int) []byte {
		if r.Chance(1, 4) {
			return nil
		}
		if r.Chance(1, 6) {
			// long fields, around the sizes where an encoder's scratch buffers end (wave 7, seed C07-16)
			return randBytes(r, []int{55, 56, 57, 58, 63, 64, 65, 127, 128, 129, 255, 256, 257}[r.Intn(13)])
		}
		return randBytes(r, 1+r.Intn(max))
	}
	tx := &pb.Transaction{Version: ver, Desc: vl(20), Coinbase: r.Chance(1, 5), Nonce: string(vl(10)), Timestamp: randInt(r, 64),
		Autogen: r.Chance(1, 5), Initiator: string(vl(34))}
	for i := r.Intn(3); i > 0; i-- {
		tx.TxInputs = append(tx.TxInputs, &protos.TxInput{RefTxid: vl(32), RefOffset: int32(randInt(r, 32)), FromAddr: vl(34), Amount: vl(8), FrozenHeight: randInt(r, 64)})
	}
	for i := r.Intn(3); i > 0; i-- {
		tx.TxOutputs = append(tx.TxOutputs, &protos.TxOutput{Amount: vl(8), ToAddr: vl(34), FrozenHeight: randInt(r, 64)})
	}
	for i := r.Intn(3); i > 0; i-- {
		tx.TxInputsExt = append(tx.TxInputsExt, &protos.TxInputExt{Bucket: string(vl(6)), Key: vl(8), RefTxid: vl(32), RefOffset: int32(randInt(r, 32))})
	}
	for i := r.Intn(3); i > 0; i-- {
		tx.TxOutputsExt = append(tx.TxOutputsExt, &protos.TxOutputExt{Bucket: string(vl(6)), Key: vl(8), Value: vl(12)})
	}
	for i := r.Intn(3); i > 0; i-- {
		q := &protos.InvokeRequest{ModuleName: string(vl(6)), ContractName: string(vl(8)), MethodName: string(vl(8)), Amount: string(vl(4))}
		for j := r.Intn(3); j > 0; j-- {
			if q.Args == nil {
				q.Args = map[string][]byte{}
			}
			q.Args[hex.EncodeToString(randBytes(r, 1+r.Intn(3)))] = vl(10)
		}
		for j := r.Intn(3); j > 0; j-- {
			q.ResourceLimits = append(q.ResourceLimits, &protos.ResourceLimit{Type: protos.ResourceType(r.Intn(4)), Limit: randInt(r, 64)})
		}
		tx.ContractRequests = append(tx.ContractRequests, q)
	}
	for i := r.Intn(3); i > 0; i-- {
		tx.AuthRequire = append(tx.AuthRequire, string(vl(40)))
	}
	for i := r.Intn(3); i > 0; i-- {
		tx.InitiatorSigns = append(tx.InitiatorSigns, &protos.SignatureInfo{PublicKey: string(vl(30)), Sign: vl(40)})
	}
	for i := r.Intn(3); i > 0; i-- {
		tx.AuthRequireSigns = append(tx.AuthRequireSigns, &protos.SignatureInfo{PublicKey: string(vl(30)), Sign: vl(40)})
	}
	if r.Chance(1, 3) {
		tx.XuperSign = &pb.XuperSignature{Signature: vl(40)}
		for i := r.Intn(3); i > 0; i-- {
			tx.XuperSign.PublicKeys = append(tx.XuperSign.PublicKeys, vl(30))
		}
	}
	if r.Chance(1, 2) {
		tx.HDInfo = &pb.HDInfo{HdPublicKey: vl(20), OriginalHash: vl(32)}
	}
	return tx
}

// base forms, as specs with symbolic signers
func baseSpecs(ver int) map[string]string {
	in := func(owner string, i int) string {
		return fmt.Sprintf("%s/%d/%s/64/0", hex.EncodeToString(sha("xv-ref"+strconv.Itoa(i))), i, owner)
	}
	common := func(ins []string, init, auth, isig, asig, xs string) string {
		hd := "hd=0;hdpk=-;hdoh=-"
		if ver >= 2 {
			hd = "hd=1;hdpk=6864706b;hdoh=" + hex.EncodeToString(sha("xv-oh"))
		}
		return fmt.Sprintf("in=%s;out=3c/A5/0,28/A0/7;desc=7472616e73666572;cb=0;nonce=6e31;ts=1700000001;ver=%d;ag=0;inx=~;outx=~;req=~;init=%s;auth=%s;isig=%s;asig=%s;%s;%s;bid=-;rts=0;mb=~",
			strings.Join(ins, ","), ver, init, auth, isig, asig, xs, hd)
	}
	noX := "xs=0;xpk=~;xsg=-"
	return map[string]string{
		"ak": common([]string{in("A0", 0), in("A0", 1)}, "A0", "~", "K0/S0.M", "~", noX),
		// the initiator owns nothing and A2 is a pure co-signer: editing the signer list is not masked by the owner check
		"cosign":  common([]string{in("A1", 0), in("A1", 1)}, "A0", "A1,A2", "K0/S0.M", "K1/S1.M,K2/S2.M", noX),
		"multi":   common([]string{in("A0", 0), in("A1", 1), in("A2", 2)}, "A0", "A1,A2", "K0/S0.M", "K1/S1.M,K2/S2.M", noX),
		"account": common([]string{in("C1", 0), in("A0", 1)}, "A0", "C1|A1", "K0/S0.M", "K1/S1.M", noX),
		"acctini": common([]string{in("C1", 0)}, "C1", "C1|A1", "K1/S1.M", "K1/S1.M", noX),
		"xuper":   common([]string{in("A0", 0), in("A1", 1)}, "A0", "A1", "~", "~", "xs=1;xpk=K0,K1;xsg=X0_1.M"),
	}
}

type txMutant struct {
	cls string
	tx  *pb.Transaction
}

func isSym(b []byte) bool { return bytes.HasPrefix(b, []byte(symPrefix)) }

// mutateBytes: the ways a byte string is changed
func mutateBytes(v []byte) map[string][]byte {
	if isSym(v) {
		return map[string][]byte{"corrupt": {0xde, 0xad, 0xbe, 0xef}, "clear": nil}
	}
	res := map[string][]byte{"append": append(append([]byte{}, v...), 1)}
	if len(v) > 0 {
		f, _ := flipLast(v)
		res["flip"] = f
		res["trunc"] = append([]byte{}, v[:len(v)-1]...)
		res["clear"] = nil
	}
	return res
}

// schemaMutants walks the leaf paths of the Transaction message (extracted from the .pb.go struct tags) and
// produces every single-field mutant of tx.
func schemaMutants(tx *pb.Transaction, form string) []txMutant {
	var res []txMutant
	emit := func(cls string, f func(t *pb.Transaction)) {
		t := proto.Clone(tx).(*pb.Transaction)
		applied := func() (ok bool) {
			// some mutators assume the symbolic signatures of the base forms: on a random transaction they do not apply
			defer func() {
				if recover() != nil {
					ok = false
				}
			}()
			f(t)
			return true
		}()
		if applied {
			res = append(res, txMutant{cls, t})
		}
	}
	excluded := map[string]bool{"Blockid": true, "ReceivedTimestamp": true}
	for _, path := range schemas.TxFields {
		if path == "Txid" {
			continue
		}
		cls := path
		if excluded[path] || strings.HasPrefix(path, "ModifyBlock.") {
			cls = "obs:outside-id:" + path
		}
		if form == "acctini" && strings.HasPrefix(path, "AuthRequireSigns[]") {
			cls = "sigarea:" + path // the address is already verified through InitiatorSigns
		}
		path := path
		nIdx := strings.Count(path, "[]")
		// which index vectors exist on the base
		var idxs [][]int
		switch nIdx {
		case 0:
			idxs = [][]int{nil}
		case 1:
			c, ok := evalPath(reflect.ValueOf(tx), path[:strings.Index(path, "[]")], nil)
			for i := 0; i < lenOf(c, ok) && i < 3; i++ {
				idxs = append(idxs, []int{i})
			}
		default:
			continue // nested leaves (ResourceLimits) are reached when the outer container is grown below
		}
		for _, idx := range idxs {
			idx := idx
			leaf := func(t *pb.Transaction) reflect.Value {
				v, ok := evalPathAlloc(reflect.ValueOf(t), path, idx)
				if !ok {
					panic("cannot reach " + path)
				}
				return v
			}
			v0 := leaf(proto.Clone(tx).(*pb.Transaction))
			switch v0.Kind() {
			case reflect.Slice: // []byte
				for way, nv := range mutateBytes(v0.Bytes()) {
					nv := nv
					emit(cls+":"+way, func(t *pb.Transaction) { leaf(t).SetBytes(nv) })
				}
			case reflect.String:
				for way, nv := range mutateBytes([]byte(v0.String())) {
					nv := nv
					emit(cls+":"+way, func(t *pb.Transaction) { leaf(t).SetString(string(nv)) })
				}
			case reflect.Int32, reflect.Int64:
				emit(cls+":inc", func(t *pb.Transaction) { l := leaf(t); l.SetInt(l.Int() + 1) })
			case reflect.Bool:
				emit(cls+":toggle", func(t *pb.Transaction) { l := leaf(t); l.SetBool(!l.Bool()) })
			case reflect.Map:
				emit(cls+":addkey", func(t *pb.Transaction) {
					l := leaf(t)
					if l.IsNil() {
						l.Set(reflect.MakeMap(l.Type()))
					}
					l.SetMapIndex(reflect.ValueOf("zz"), reflect.ValueOf([]byte{1}))
				})
				// entries with an EMPTY value: adding one, renaming one, emptying one must each change digest and id
				emit(cls+":add-empty-valued-key", func(t *pb.Transaction) {
					l := leaf(t)
					if l.IsNil() {
						l.Set(reflect.MakeMap(l.Type()))
					}
					l.SetMapIndex(reflect.ValueOf("ze"), reflect.ValueOf([]byte{}))
				})
				emit(cls+":rename-empty-valued-key", func(t *pb.Transaction) {
					l := leaf(t)
					if l.IsNil() {
						l.Set(reflect.MakeMap(l.Type()))
					}
					// the base carries the empty-valued entry "ek" (see below); it is renamed
					if v := l.MapIndex(reflect.ValueOf("ek")); v.IsValid() {
						l.SetMapIndex(reflect.ValueOf("ek"), reflect.Value{})
						l.SetMapIndex(reflect.ValueOf("el"), v)
					} else {
						l.SetMapIndex(reflect.ValueOf("el"), reflect.ValueOf([]byte{}))
					}
				})
				if l := leaf(tx); !l.IsNil() && l.Len() > 0 {
					emit(cls+":empty-a-value", func(t *pb.Transaction) {
						l := leaf(t)
						ks := l.MapKeys()
						sort.Slice(ks, func(i, j int) bool { return ks[i].String() < ks[j].String() })
						for _, k := range ks {
							if l.MapIndex(k).Len() > 0 {
								l.SetMapIndex(k, reflect.ValueOf([]byte{}))
								return
							}
						}
						l.SetMapIndex(ks[0], reflect.ValueOf([]byte{9}))
					})
				}
			}
		}
	}
	// containers: grow by a zero element, drop / duplicate the first element, swap the first two
	for _, c := range []string{"TxInputs", "TxOutputs", "TxInputsExt", "TxOutputsExt", "ContractRequests", "AuthRequire", "InitiatorSigns", "AuthRequireSigns"} {
		c := c
		cls := "list:" + c
		if form == "acctini" && c == "AuthRequireSigns" {
			continue
		}
		if c == "InitiatorSigns" && form == "acctini" {
			cls = "sigarea:" + c // a valid entry of an account initiator can be repeated
		}
		if (c == "InitiatorSigns" && form != "acctini") || ((c == "InitiatorSigns" || c == "AuthRequireSigns") && form == "xuper") {
			// entries beyond the first of an address initiator, and all classic entries beside a XuperSign, are never read
			cls = "sigarea:" + c
		}
		get := func(t *pb.Transaction) reflect.Value { return reflect.ValueOf(t).Elem().FieldByName(c) }
		n := get(tx).Len()
		emit(cls+":grow", func(t *pb.Transaction) {
			l := get(t)
			et := l.Type().Elem()
			var z reflect.Value
			if et.Kind() == reflect.Ptr {
				z = reflect.New(et.Elem())
			} else {
				z = reflect.Zero(et)
			}
			l.Set(reflect.Append(l, z))
		})
		if n > 0 {
			emit(cls+":drop", func(t *pb.Transaction) { l := get(t); l.Set(l.Slice(1, l.Len())) })
			emit(cls+":dup", func(t *pb.Transaction) { l := get(t); l.Set(reflect.Append(l, l.Index(0))) })
		}
		if n > 1 {
			emit(cls+":swap", func(t *pb.Transaction) {
				l := get(t)
				a, b := l.Index(0).Interface(), l.Index(1).Interface()
				l.Index(0).Set(reflect.ValueOf(b))
				l.Index(1).Set(reflect.ValueOf(a))
			})
		}
	}
	emit("list:ContractRequests:grow-with-limit", func(t *pb.Transaction) {
		t.ContractRequests = append(t.ContractRequests, &protos.InvokeRequest{ModuleName: "xkernel", ResourceLimits: []*protos.ResourceLimit{{Type: 1, Limit: 5}}})
	})
	emit("XuperSign:add-empty", func(t *pb.Transaction) {
		if t.XuperSign == nil {
			t.XuperSign = &pb.XuperSignature{}
		} else {
			t.XuperSign = nil
		}
	})
	emit("HDInfo:presence", func(t *pb.Transaction) {
		if t.HDInfo == nil {
			t.HDInfo = &pb.HDInfo{HdPublicKey: []byte("k")}
		} else {
			t.HDInfo = nil
		}
	})
	// signatures and signers: another key signs, key and signature both replaced, replay from another transaction
	symSig := func(tok string) []byte { return []byte(symPrefix + tok) }
	slots := func(t *pb.Transaction) []*protos.SignatureInfo {
		return append(append([]*protos.SignatureInfo{}, t.InitiatorSigns...), t.AuthRequireSigns...)
	}
	for i := range slots(tx) {
		i := i
		name := "InitiatorSigns"
		if i >= len(tx.InitiatorSigns) {
			name = "AuthRequireSigns"
			if form == "acctini" {
				continue
			}
		}
		emit("signature:"+name+":other-key-signs", func(t *pb.Transaction) { slots(t)[i].Sign = symSig("S6.N") })
		emit("signature:"+name+":other-key-and-pubkey", func(t *pb.Transaction) {
			slots(t)[i].PublicKey = acct(6).PubJSON
			slots(t)[i].Sign = symSig("S6.N")
		})
		emit("signature:"+name+":replayed-from-other-tx", func(t *pb.Transaction) {
			tok := string(slots(t)[i].Sign[len(symPrefix):])
			slots(t)[i].Sign = symSig(tok[:strings.LastIndex(tok, ".")] + ".O")
		})
	}
	// a VALID entry of another signer of the same transaction (same digest, public key and signature both copied)
	// presented in this signer's slot: the key does not hash to the address being identified.  Whatever the
	// implementation remembers about entries it has already checked (the base is verified first, the initiator
	// before the listed signers) must not stand in for the address <-> key binding.
	slotName := func(i int) string {
		if i >= len(tx.InitiatorSigns) {
			return "AuthRequireSigns"
		}
		return "InitiatorSigns"
	}
	for i := range slots(tx) {
		if form == "acctini" {
			break // account initiator: entries are identified by their own key (the ACL decides), listed signer already verified
		}
		for j := range slots(tx) {
			i, j := i, j
			if i == j || slots(tx)[i].PublicKey == slots(tx)[j].PublicKey {
				continue
			}
			emit("signature:"+slotName(i)+":valid-entry-of-other-signer", func(t *pb.Transaction) {
				src, dst := slots(t)[j], slots(t)[i]
				dst.PublicKey, dst.Sign = src.PublicKey, append([]byte{}, src.Sign...)
			})
		}
	}
	if tx.XuperSign != nil && len(tx.XuperSign.PublicKeys) > 1 {
		emit("signature:XuperSign:pubkeys-swapped", func(t *pb.Transaction) {
			t.XuperSign.PublicKeys[0], t.XuperSign.PublicKeys[1] = t.XuperSign.PublicKeys[1], t.XuperSign.PublicKeys[0]
		})
	}
	if len(tx.InitiatorSigns) > 0 && len(tx.AuthRequireSigns) > 0 && form != "acctini" {
		emit("signature:swap-initiator-and-signer", func(t *pb.Transaction) {
			t.InitiatorSigns[0], t.AuthRequireSigns[0] = t.AuthRequireSigns[0], t.InitiatorSigns[0]
		})
	}
	if tx.XuperSign != nil {
		emit("signature:XuperSign:other-keys-sign", func(t *pb.Transaction) { t.XuperSign.Signature = symSig("X0_6.N") })
		emit("signature:XuperSign:replayed-from-other-tx", func(t *pb.Transaction) { t.XuperSign.Signature = symSig("X0_1.O") })
		emit("signature:XuperSign:other-keys-and-pubkeys", func(t *pb.Transaction) {
			t.XuperSign.PublicKeys[1] = []byte(acct(6).PubJSON)
			t.XuperSign.Signature = symSig("X0_6.N")
		})
	}
	// the signer list edited after signing, each entry TOGETHER with its signature slot, so that the edit is consistent
	// (lengths agree, every entry that is present is a valid signature of its address over the transaction as it now
	// is); the other signers' signatures are the ones they gave for the base.  Only the digest — which must cover
	// Initiator and AuthRequire — stands between such an edit and acceptance.
	if tx.XuperSign == nil && form != "acctini" {
		own := func(k int) *protos.SignatureInfo {
			return &protos.SignatureInfo{PublicKey: acct(k).PubJSON, Sign: symSig("S" + strconv.Itoa(k) + ".N")}
		}
		emit("signer-list:AuthRequire:append-with-own-signature", func(t *pb.Transaction) {
			t.AuthRequire = append(t.AuthRequire, acct(6).Address)
			t.AuthRequireSigns = append(t.AuthRequireSigns, own(6))
		})
		emit("signer-list:AuthRequire:prepend-with-own-signature", func(t *pb.Transaction) {
			t.AuthRequire = append([]string{acct(6).Address}, t.AuthRequire...)
			t.AuthRequireSigns = append([]*protos.SignatureInfo{own(6)}, t.AuthRequireSigns...)
		})
		emit("signer-list:AuthRequire:append-account-signer-with-own-signature", func(t *pb.Transaction) {
			t.AuthRequire = append(t.AuthRequire, acctName(6)+"/"+acct(6).Address)
			t.AuthRequireSigns = append(t.AuthRequireSigns, own(6))
		})
		emit("signer-list:Initiator:replace-with-own-signature", func(t *pb.Transaction) {
			t.Initiator = acct(6).Address
			t.InitiatorSigns[0] = own(6)
		})
		if n := len(tx.AuthRequire); n > 0 && n == len(tx.AuthRequireSigns) {
			emit("signer-list:AuthRequire:remove-last-with-signature", func(t *pb.Transaction) {
				t.AuthRequire, t.AuthRequireSigns = t.AuthRequire[:n-1], t.AuthRequireSigns[:n-1]
			})
			emit("signer-list:AuthRequire:remove-first-with-signature", func(t *pb.Transaction) {
				t.AuthRequire, t.AuthRequireSigns = t.AuthRequire[1:], t.AuthRequireSigns[1:]
			})
			emit("signer-list:AuthRequire:replace-last-with-own-signature", func(t *pb.Transaction) {
				t.AuthRequire[n-1] = acct(6).Address
				t.AuthRequireSigns[n-1] = own(6)
			})
			emit("signer-list:AuthRequire:account-prefix-added", func(t *pb.Transaction) {
				// same last component, so the entry's own signature check is the same: only the digest sees the change
				if !strings.Contains(t.AuthRequire[n-1], "/") {
					t.AuthRequire[n-1] = acctName(2) + "/" + t.AuthRequire[n-1]
				} else {
					t.AuthRequire[n-1] = t.AuthRequire[n-1][strings.LastIndex(t.AuthRequire[n-1], "/")+1:]
				}
			})
			if n > 1 {
				emit("signer-list:AuthRequire:swap-with-signatures", func(t *pb.Transaction) {
					t.AuthRequire[0], t.AuthRequire[1] = t.AuthRequire[1], t.AuthRequire[0]
					t.AuthRequireSigns[0], t.AuthRequireSigns[1] = t.AuthRequireSigns[1], t.AuthRequireSigns[0]
				})
			}
		}
	}
	emit("signer:Initiator:other", func(t *pb.Transaction) { t.Initiator = acct(6).Address })
	if len(tx.AuthRequire) > 0 {
		emit("signer:AuthRequire:other", func(t *pb.Transaction) { t.AuthRequire[0] = acct(6).Address })
	}
	// the signers sign the changed transaction again (valid signatures, txid recomputed): spending an output whose
	// owner is not among them must still be rejected
	resign := func(t *pb.Transaction) {
		re := func(b []byte) []byte {
			if isSym(b) && strings.HasSuffix(string(b), ".M") {
				return []byte(strings.TrimSuffix(string(b), ".M") + ".N")
			}
			return b
		}
		for _, s := range t.InitiatorSigns {
			s.Sign = re(s.Sign)
		}
		for _, s := range t.AuthRequireSigns {
			s.Sign = re(s.Sign)
		}
		if t.XuperSign != nil {
			t.XuperSign.Signature = re(t.XuperSign.Signature)
		}
	}
	emit("resigned:owner-is-unsigned-address", func(t *pb.Transaction) { t.TxInputs[0].FromAddr = []byte(acct(6).Address); resign(t) })
	emit("resigned:owner-is-foreign-account", func(t *pb.Transaction) { t.TxInputs[0].FromAddr = []byte(acctName(2)); resign(t) })
	emit("resigned:owner-is-unknown-account", func(t *pb.Transaction) { t.TxInputs[0].FromAddr = []byte("XC7777777777777777@xuper"); resign(t) })
	emit("resigned:owner-is-empty", func(t *pb.Transaction) { t.TxInputs[0].FromAddr = nil; resign(t) })
	emit("resigned:input-added-of-unsigned-address", func(t *pb.Transaction) {
		t.TxInputs = append(t.TxInputs, &protos.TxInput{RefTxid: sha("xv-victim"), FromAddr: []byte(acct(6).Address), Amount: []byte{9}})
		resign(t)
	})
	if form == "multi" || form == "account" {
		emit("resigned:signer-dropped", func(t *pb.Transaction) {
			// the last listed signer (who owns an input) disappears together with its signature
			t.AuthRequire = t.AuthRequire[:len(t.AuthRequire)-1]
			t.AuthRequireSigns = t.AuthRequireSigns[:len(t.AuthRequireSigns)-1]
			resign(t)
		})
	}
	emit("resigned:control", func(t *pb.Transaction) { t.Desc = []byte("another valid transaction"); resign(t) })
	emit("owner:TxInputs:other", func(t *pb.Transaction) { t.TxInputs[0].FromAddr = []byte(acct(6).Address) })
	emit("owner:TxInputs:other-account", func(t *pb.Transaction) { t.TxInputs[0].FromAddr = []byte(acctName(2)) })
	return res
}

// evalPathAlloc is evalPath that allocates nil messages on the way (mutating a field below a nil sub-message)
func evalPathAlloc(root reflect.Value, path string, idx []int) (reflect.Value, bool) {
	v := root
	ii := 0
	for _, seg := range strings.Split(path, ".") {
		isIdx := strings.HasSuffix(seg, "[]")
		name := strings.TrimSuffix(seg, "[]")
		for v.Kind() == reflect.Ptr {
			if v.IsNil() {
				v.Set(reflect.New(v.Type().Elem()))
			}
			v = v.Elem()
		}
		v = v.FieldByName(name)
		if isIdx {
			if ii >= len(idx) || idx[ii] >= v.Len() {
				return v, false
			}
			v = v.Index(idx[ii])
			ii++
		}
	}
	return v, true
}

func genC07(tier string, rng *xvlib.Rng, run func(string, bool)) {
	thorough := tier == "thorough"
	initSymTab()
	// 0. ids and digests computed by several goroutines at once
	for i := 0; i < 3; i++ {
		run(fmt.Sprintf("conc %d %d %d", rng.Intn(1<<30), 12, map[bool]int{false: 150, true: 2000}[thorough]), true)
	}
	for i := 0; i < 3; i++ {
		// the same without barriers: several goroutines per core, each walking all objects, forced preemption (conc.go)
		it := map[bool]int{false: 60, true: 600}[thorough]
		for _, cfg := range []string{"12 %d w=64 big=4096 gc=1", "12 %d w=128 big=0 gc=1 ver=12", "16 %d w=48 big=20000 gc=0 ver=12", "12 %d w=32 big=0 gc=0 ver=21"} {
			run(fmt.Sprintf("conc %d "+cfg, rng.Intn(1<<30), it), true)
		}
	}
	// 1. pre-images: extracted schemas against the real hashes (all versions); Lean bytes against the schema bytes (v3)
	nPre := 600
	if thorough {
		nPre = 12000
	}
	for i := 0; i < nPre; i++ {
		tx := randTx(rng, []int32{3, 3, 3, 4, 100}[rng.Intn(5)])
		s := specOf(tx)
		run("d3 "+s, true)
		run("i3 "+s, true)
		if i < 1 {
			out.Sample(map[string]string{"op": "d3 " + s, "impl": execC07("d3 "+s, false)})
		}
		run("d1 "+specOf(randTx(rng, int32(1+rng.Intn(2)))), true)
		// pairs: every single-field mutant of a random version-3 transaction (contract requests with arguments,
		// empty-valued ones included) must differ from it in the digest (fields outside the signatures) and in the id
		if i%6 == 0 && tx.Version >= 3 {
			if len(tx.ContractRequests) > 0 && rng.Bool() {
				q := tx.ContractRequests[0]
				if q.Args == nil {
					q.Args = map[string][]byte{}
				}
				q.Args["ek"] = []byte{}
				s = specOf(tx)
			}
			ms0 := schemaMutants(tx, "random")
			if os.Getenv("XV_DEBUG") != "" {
				fmt.Fprintf(os.Stderr, "dm3: tx %d has %d mutants\n", i, len(ms0))
			}
			for _, m := range ms0 {
				if strings.HasPrefix(m.cls, "obs:") || strings.HasPrefix(m.cls, "signature:") || strings.HasPrefix(m.cls, "signer-list:") ||
					m.cls == "XuperSign:add-empty" || m.cls == "HDInfo:presence" {
					// observations; mutators that assume the symbolic signatures of the base forms; presence of a
					// sub-message WITHOUT content (not hashed, judged by what VerifyTx does with it: vt lines)
					continue
				}
				ms := specOf(m.tx)
				if !utf8.ValidString(ms) {
					continue
				}
				// an absent sub-message and a present one without content are the same transaction on the wire
				// (Marshal refuses strings that are not UTF-8: then nothing is known, the pair is kept)
				if wa, ea := proto.Marshal(tx); ea == nil {
					if wb, eb := proto.Marshal(m.tx); eb == nil && bytes.Equal(wa, wb) {
						continue
					}
				}
				if ms == s {
					continue
				}
				run("dm3 "+s+" "+ms+" cls="+m.cls, true)
			}
		}
	}
	// 2. the v1/v2 collision (known finding) and its v3 control
	for _, v := range []int{1, 2, 3} {
		run(fmt.Sprintf("k1 %d addr-amount", v), true)
	}
	// 3. schema-walking mutation of accepted transactions of every form and version
	forms := []string{"ak", "multi", "cosign", "account", "acctini", "xuper"}
	nm := 0
	for _, ver := range []int{3, 2, 1} {
		specs := baseSpecs(ver)
		for _, form := range forms {
			bs := specs[form]
			base := parseSpec(bs)
			printingMutant = false
			run(fmt.Sprintf("vt cls=base txid=M base=%s mut=%s", bs, strings.Replace(bs, ".M", ".B", -1)), true)
			run(fmt.Sprintf("vt cls=txid:garbage txid=X base=%s mut=%s", bs, strings.Replace(bs, ".M", ".B", -1)), true)
			muts := schemaMutants(base, form)
			sort.SliceStable(muts, func(i, j int) bool { return muts[i].cls < muts[j].cls })
			for _, mu := range muts {
				cls := mu.cls
				if proto.Equal(mu.tx, base) {
					cls = "noop"
				}
				printingMutant = true
				ms := specOf(mu.tx)
				printingMutant = false
				for _, id := range []string{"B", "M"} {
					if id == "B" && strings.HasPrefix(cls, "resigned:") {
						continue
					}
					c := cls
					if id == "B" && strings.HasPrefix(cls, "sigarea:") {
						c = strings.TrimPrefix(cls, "sigarea:") // with the old id kept, the id check must fire
					}
					l := fmt.Sprintf("vt cls=%s txid=%s base=%s mut=%s", c, id, bs, ms)
					run(l, true)
					if nm < 2 && strings.HasPrefix(cls, "Desc") {
						out.Sample(map[string]string{"op": l, "impl": execC07(l, false)})
						nm++
					}
				}
			}
		}
	}
	// 4. outputs spent by the contract code the transaction carries
	genVc(thorough, rng, run)
	// 5. the admission entry: {signature form} x {initiator kind} x {signers} x {owner kinds} x {invocation}
	genSx(thorough, rng, run)
	genSxf(thorough, rng, run)
	out.Stats.Exhaustive = false
	out.Stats.Rule = fmt.Sprintf("d3/i3/d1: %d random transactions per encoder (all fields, empty/nil variants, versions 3,4,100 / 1,2), extracted schema bytes double-SHA-256 checked against MakeTxDigestHash and MakeTransactionID; vt: accepted transactions of 6 forms (address initiator, 2 extra signers, 2 pure co-signers with an initiator that owns nothing, account-owned input via ACL, account initiator, aggregated XuperSign) × versions 3,2,1 × every single-field mutation reached by walking the %d leaf paths of the Transaction message (flip/truncate/append/clear, +1, toggle, map key), list grow/drop/dup/swap, signature by another key / with another public key / replayed from another transaction / swapped, signer and owner replaced — each once with the old txid kept and once with the txid recomputed —, plus re-signed variants (the signers sign again) whose spent output belongs to an address/account that did not sign — through the real State.VerifyTx; signature slots also receive a valid entry of another signer of the same transaction, and the signer list is edited after signing together with its signature slots (newcomer with its own signature appended / prepended, entry removed with its signature, replaced, account prefix, swap, initiator replaced); vc: correctly signed transactions carrying $xvvault.withdraw (payer = contract | initiator; 1–3 payer outputs, 1–3 transfers, change, own input alongside; 4 signer sets; versions 3, 1) × every tamper of the owner of a spent output / the declared contract inputs / the payments / the request (forged view, riding-along outputs with fresh / same-txid / same-offset / same reference, declared set dropped / extended / reordered / not in the tx, payments redirected / raised / dropped, request amount / payer changed) and random pairs of them, judged on content; sx: a structurally described transaction through the real State.VerifyTx and Chain.SubmitTx of a real node (both results of VerifyTx, SubmitTx's error and the pool observed): {per-signer | aggregated form x scheme of the signature in the XuperSign slot: multi-signature, ECDSA raw / wrapped, Schnorr, ring} x {address | account | rule-less account initiator, signed for by its key / a stranger / both / nobody} x 12 signer lists x 10 owner lists (address, account, rule-less account, pairs, repeated) x 9 invocations (none, harmless call, guarded method, SetAccountAcl own / foreign, NewAccount, SetMethodAcl owned / foreign / without owner entry) - quick: about half of the product, thorough: all -, every single signature fault on top (entry spoiled / by another key / dropped; aggregate by other keys / missing / with one more key / a listed key not signing; one key signing alone in every scheme, spending what the non-signing listed address and its account own), all of it again on a chain whose funding transaction the operator marked and under version 1; judged on content; distinct by op line", nPre, len(schemas.TxFields))
	out.Stats.Notes = append(out.Stats.Notes,
		"covered entry point: State.VerifyTx (ImmediateVerifyTx: txid recomputation, verifySignatures/verifyXuperSign, verifyUTXOPermission) on a real State over a real ledger with an in-memory ACL table (account Cn is controlled by address An, threshold 1); the state machine has a real contract manager with the harness kernel contract $xvvault (vc lines: contract-justified inputs, isContractUtxoEffective, token side of the RWSet re-execution); the key/value side of contract re-execution (C09) and the block path (verifyDAGTxs) are not driven",
		"sx lines run on real nodes (go/chainlib: real acl manager reading the tip snapshot, $acl kernel contract; accounts C0..C3 controlled by A0..A3, contract1/2 owned by C1/C2, $xvgate.guarded ruled {A3, C2}); one node per chain kind (plain / funding transaction marked by Ledger.UpdateBlockChainData), a fresh Chain.SubmitTx entry per line, the pool rolled back after every line (a node that cannot be cleaned is dropped and rebuilt)",
		"every vt line verifies its signed base first and then the mutant (same signature bytes): what the implementation keeps between two verifications is part of the input",
		"observations (distribution keys observation:*): Blockid, ReceivedTimestamp and ModifyBlock.* are outside digest and id, so changing them is accepted",
		"v1/v2 transactions: vt lines are judged by the oracle only (the Lean model has the v3 encoder byte for byte and the v1/v2 stream abstractly)")
}
