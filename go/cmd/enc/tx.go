package main

import "xv/xvlib"

func execC07(line string, oracle bool) string { return "bad-op" }

func genC07(tier string, rng *xvlib.Rng, run func(string, bool)) {}
