package main

// Crypto faults under FormatBlock / FormatMinerBlock / VerifyBlock (C08).
//
// The ledger takes its crypto client from the registry of lib/crypto/client by the name the genesis configuration
// carries.  The harness registers the type `xvfault`: the real default client, except that the f-th request the ledger
// makes (all request kinds counted in the order they are made: public key to JSON, signature, public key from JSON,
// address check, signature check) reports failure the way that method can (an error; `false` for the address check,
// which has no error result).  A third ledger is created with that type.
//
//	fb <base> via=miner|block f=<i>   Format*Block on the fault ledger with the i-th crypto request failing (0 = none)
//	                                  -> refused | verifies | unverifiable
//	     property: "a block formatted by the node itself always verifies" - a format call either reports an error
//	     (and hands out no block) or hands out a block that passes VerifyBlock on a healthy node.
//	vf <base> m=<mut> f=<i>           VerifyBlock (fault ledger) on a mutated node-formatted block with the i-th crypto
//	                                  request failing -> accept | reject | n/a
//	     property: "a block passes verification only if ..." - a failing key parser / address check / signature
//	     check never makes a block pass: a mutant is refused under every fault, and whatever is accepted under a
//	     fault is accepted by the healthy node.

import (
	"crypto/ecdsa"
	"errors"
	"fmt"
	"math/big"
	"os"
	"path/filepath"
	"strings"

	"github.com/golang/protobuf/proto"
	"github.com/xuperchain/xupercore/bcs/ledger/xledger/ledger"
	pb "github.com/xuperchain/xupercore/bcs/ledger/xledger/xldgpb"
	cryptoClient "github.com/xuperchain/xupercore/lib/crypto/client"
	cbase "github.com/xuperchain/xupercore/lib/crypto/client/base"
	"github.com/xuperchain/xupercore/kernel/mock"
	"xv/xvlib"
)

type faultClient struct {
	cbase.CryptoClient
	calls  int      // requests since arm()
	failAt int      // 0 = none
	log    []string // the requests made since arm(), "!" appended to the failed one
}

var errCryptoFault = errors.New("xv: crypto service unavailable")

func (f *faultClient) arm(at int) { f.calls, f.failAt, f.log = 0, at, nil }

func (f *faultClient) hit(kind string) bool {
	f.calls++
	if f.failAt > 0 && f.calls == f.failAt {
		f.log = append(f.log, kind+"!")
		return true
	}
	f.log = append(f.log, kind)
	return false
}

func (f *faultClient) GetEcdsaPublicKeyJsonFormatStr(k *ecdsa.PrivateKey) (string, error) {
	if f.hit("pubjson") {
		return "", errCryptoFault
	}
	return f.CryptoClient.GetEcdsaPublicKeyJsonFormatStr(k)
}

func (f *faultClient) SignECDSA(k *ecdsa.PrivateKey, msg []byte) ([]byte, error) {
	if f.hit("sign") {
		return nil, errCryptoFault
	}
	return f.CryptoClient.SignECDSA(k, msg)
}

func (f *faultClient) GetEcdsaPublicKeyFromJsonStr(s string) (*ecdsa.PublicKey, error) {
	if f.hit("pubparse") {
		return nil, errCryptoFault
	}
	return f.CryptoClient.GetEcdsaPublicKeyFromJsonStr(s)
}

func (f *faultClient) VerifyAddressUsingPublicKey(address string, pub *ecdsa.PublicKey) (bool, uint8) {
	if f.hit("addr") {
		return false, 0
	}
	return f.CryptoClient.VerifyAddressUsingPublicKey(address, pub)
}

func (f *faultClient) VerifyECDSA(k *ecdsa.PublicKey, sig, msg []byte) (bool, error) {
	if f.hit("verify") {
		return false, errCryptoFault
	}
	return f.CryptoClient.VerifyECDSA(k, sig, msg)
}

var theFault = &faultClient{}

func init() {
	cryptoClient.Register("xvfault", func() cbase.CryptoClient {
		if theFault.CryptoClient == nil {
			theFault.CryptoClient = xvlib.Crypto()
		}
		return theFault
	})
}

var faultLedger *ledger.Ledger

func getFaultLedger() *ledger.Ledger {
	if faultLedger != nil {
		return faultLedger
	}
	getLedger()
	econf, err := mock.NewEnvConfForTest()
	if err != nil {
		xvlib.Die("env conf: %v", err)
	}
	lctx, err := ledger.NewLedgerCtx(econf, "xuper")
	if err != nil {
		xvlib.Die("ledger ctx: %v", err)
	}
	ec := *ledgerEnv
	ec.ChainDir = "chain-fault"
	lctx.EnvCfg = &ec
	os.RemoveAll(filepath.Join(ec.RootPath, ec.DataDir, ec.ChainDir))
	conf := strings.Replace(string(genesisConf), `{"version":"1",`, `{"version":"1","crypto":"xvfault",`, 1)
	l, err := ledger.CreateLedger(lctx, []byte(conf))
	if err != nil {
		xvlib.Die("create fault ledger: %v", err)
	}
	if l.GenesisBlock.GetConfig().GetCryptoType() != "xvfault" {
		xvlib.Die("the fault ledger does not run on the fault-injecting crypto client")
	}
	faultLedger = l
	return l
}

// formatOn formats the base block through the named entry point of l
func formatOn(l *ledger.Ledger, p base, via string) (*pb.InternalBlock, error) {
	var pre []byte
	if p.ph == 1 {
		pre = sha("xv-pre")
	}
	a := acct(p.k)
	txs := mkTxs(p.n, "b")
	if p.d == 1 && p.n >= 2 {
		txs[p.n-1] = txs[p.n-2]
	}
	if via == "block" {
		return l.FormatBlock(txs, []byte(a.Address), a.Pri, 1700000000, 3, 7, pre, big.NewInt(0))
	}
	var qc *pb.QuorumCert
	if p.qc >= 0 {
		qc = stdJustify(p.qc)
	}
	var failed map[string]string
	if p.ft > 0 {
		failed = map[string]string{}
		for i := 0; i < p.ft; i++ {
			failed["f"+fmt.Sprint(i)] = "err" + fmt.Sprint(i)
		}
	}
	return l.FormatMinerBlock(txs, []byte(a.Address), a.Pri, 1700000000, 3, 7, pre, p.tb, big.NewInt(0), qc, failed, 5)
}

func execFb(line string, oracle bool) string {
	m := parseKV(strings.Fields(line)[1:])
	p := parseBase(m)
	via := m["via"]
	if via != "miner" && via != "block" {
		return "bad-op"
	}
	at := int(atoi(m["f"]))
	fl := getFaultLedger()
	theFault.arm(at)
	b, err := formatOn(fl, p, via)
	reqs := strings.Join(theFault.log, ",")
	theFault.arm(0)
	out.Count("fb-requests:" + reqs)
	if err != nil {
		if b != nil && oracle {
			out.Count("observation:format-error-with-block")
		}
		return "refused"
	}
	if b == nil {
		if oracle {
			out.Violate(xvlib.Violation{Key: "format-neither-block-nor-error", What: "Format" + via + " returned neither a block nor an error", Ops: []string{line}, Impl: []string{"requests " + reqs}})
		}
		return "refused"
	}
	// the judge is a healthy node (another ledger, the unwrapped client)
	ok, _ := getLedger().VerifyBlock(proto.Clone(b).(*pb.InternalBlock), "xv")
	if ok {
		return "verifies"
	}
	if oracle {
		if p.n >= 1 && p.ph == 1 {
			out.Violate(xvlib.Violation{Key: "formatted-under-crypto-fault-unverifiable",
				What: fmt.Sprintf("the node's own Format%sBlock reported no error and handed out a block that VerifyBlock refuses (crypto requests made: %s; '!' = the one that reported failure; sign=%q pubkey %d bytes)", map[string]string{"miner": "Miner", "block": ""}[via], reqs, hx(b.Sign), len(b.Pubkey)),
				Ops:  []string{line}, Impl: []string{"unverifiable"}})
		} else {
			out.Count("observation:fb-formatted(n=0 or empty prehash):unverifiable")
		}
	}
	return "unverifiable"
}

func execVf(line string, oracle bool) string {
	m := parseKV(strings.Fields(line)[1:])
	p := parseBase(m)
	at := int(atoi(m["f"]))
	orig, err := formatBase(p)
	if err != nil {
		return "format-error"
	}
	b := proto.Clone(orig).(*pb.InternalBlock)
	class := mutate(b, p, m["m"])
	if class == "" {
		return "n/a"
	}
	if class == "reject" && proto.Equal(orig, b) {
		class = "noop"
	}
	healthy, _ := getLedger().VerifyBlock(proto.Clone(b).(*pb.InternalBlock), "xv")
	fl := getFaultLedger()
	theFault.arm(at)
	ok, _ := fl.VerifyBlock(b, "xv")
	log := theFault.log
	theFault.arm(0)
	reqs := strings.Join(log, ",")
	res := "reject"
	if ok {
		res = "accept"
	}
	out.Count("vf-requests:" + reqs)
	if !oracle {
		return res
	}
	name := mutName(m["m"])
	switch {
	case ok && class == "reject":
		out.Violate(xvlib.Violation{Key: "mutant-accepted-under-crypto-fault:" + name,
			What: fmt.Sprintf("VerifyBlock accepts a block whose hashed header, body or signature was changed after the proposer signed it while a crypto request fails (mutation %s; requests %s)", m["m"], reqs),
			Ops:  []string{line}, Impl: []string{res}})
	case ok && !healthy:
		out.Violate(xvlib.Violation{Key: "crypto-fault-makes-block-pass",
			What: fmt.Sprintf("VerifyBlock accepts under a failing crypto request (%s) a block that the healthy node refuses", reqs),
			Ops:  []string{line}, Impl: []string{res}})
	}
	return res
}

// genFault: for the shapes of the vb pass, every entry point × every request position (0 = none .. one past the last)
func genFault(tier string, rng *xvlib.Rng, run func(string, bool)) {
	ns := []int{1, 2, 3, 5, 8, 17}
	if tier == "thorough" {
		ns = nil
		for n := 1; n <= 40; n++ {
			ns = append(ns, n)
		}
	}
	for _, n := range ns {
		for c := 0; c < 2; c++ {
			p := base{n: n, qc: []int{-1, 0, 1, 3}[rng.Intn(4)], ft: rng.Intn(4), tb: []int32{0, 0, 5, -3, 1}[rng.Intn(5)], ph: 1, k: rng.Intn(3)}
			for _, via := range []string{"miner", "block"} {
				for f := 0; f <= 3; f++ {
					run(fmt.Sprintf("fb %s via=%s f=%d", p, via, f), f > 0)
				}
			}
			ms := []string{"none", "flip:sign", "clear:sign", "signother", "pkother", "pkother+signother", "proposerother", "flip:pubkey", "clear:pubkey",
				"flip:proposer", "takeover", "flip:blockid", "txdrop:0", "txflip:0+fixbody", "inc:timestamp", "inc:timestamp+reid", "inc:height"}
			for _, mu := range ms {
				for f := 0; f <= 4; f++ {
					run(fmt.Sprintf("vf %s m=%s f=%d", p, mu, f), true)
				}
			}
		}
	}
	// outside the precondition (no parent: unsigned; no transaction): observations
	for f := 0; f <= 2; f++ {
		run(fmt.Sprintf("fb %s via=miner f=%d", base{n: 2, qc: -1, ph: 0}, f), true)
		run(fmt.Sprintf("fb %s via=block f=%d", base{n: 0, qc: -1, ph: 1}, f), true)
	}
}
