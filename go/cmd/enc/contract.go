package main

// C07, the third way an output may be spent (tx_verification.go, verifyUTXOPermission): "contract logic
// transferring from contract".  An input is exempted from the owner check if the contract execution the
// transaction carries declares it — same owner, same txid, same offset — among the inputs it spent
// (`$transient/ContractUtxo.Inputs` of TxOutputsExt); verifyTxRWSets then re-executes the carried requests over
// exactly the declared inputs and accepts only if the execution spends and pays what was declared, and
// isContractUtxoEffective demands that what was declared is part of the transaction.
//
// The harness registers one kernel contract, `$xvvault`, through the public KernRegistry:
//
//	withdraw(amounts = "a1,a2,...", from = V|I)   for each a: ctx.Transfer(<from>, initiator, a)
//	                                              from V = the contract's own balance, I = the initiator's
//
// Op line (also input of the Lean driver `xvdriver enc`):
//
//	vc cls=<label> ver=<1|3> from=<V|I> sg=<signer>,... amts=<a>,... in=<input>,... cin=<input>,... cout=<output>,... out=<output>,... [req=0]
//	   -> accept|reject
//
//	signer   A<i> (the first one is the initiator) | C<n>|A<i> (listed signer of account n); every signer signs validly,
//	         the txid is recomputed: nothing is wrong with this transaction except, possibly, whose outputs it spends
//	input    <t>.<o>/<owner>/<amount>   txid number t, offset o, owner V (= $xvvault) | A<i> | C<n>
//	output   <amount>/<to>
//	in/out   TxInputs / TxOutputs;  cin/cout: what the pre-execution is said to have spent / paid
//	amts     argument of the carried request;  req=0: the transaction carries no request at all (and so no code that
//	         could spend anything), whatever it declares
//
// cls is a label for the statistics only: the oracle judges the content of the line.

import (
	"fmt"
	"math/big"
	"path/filepath"
	"strconv"
	"strings"

	"github.com/xuperchain/xupercore/bcs/ledger/xledger/state"
	"github.com/xuperchain/xupercore/bcs/ledger/xledger/state/utxo/txhash"
	"github.com/xuperchain/xupercore/bcs/ledger/xledger/state/xmodel"
	pb "github.com/xuperchain/xupercore/bcs/ledger/xledger/xldgpb"
	"github.com/xuperchain/xupercore/kernel/contract"
	_ "github.com/xuperchain/xupercore/kernel/contract/kernel"
	_ "github.com/xuperchain/xupercore/kernel/contract/manager"
	"github.com/xuperchain/xupercore/kernel/contract/sandbox"
	"github.com/xuperchain/xupercore/protos"
	"xv/xvlib"
)

const vaultName = "$xvvault"

func vaultWithdraw(ctx contract.KContext) (*contract.Response, error) {
	from := vaultName
	if string(ctx.Args()["from"]) == "I" {
		from = ctx.Initiator()
	}
	for _, a := range splitOr(string(ctx.Args()["amounts"]), ",") {
		amount, ok := new(big.Int).SetString(a, 10)
		if !ok {
			return &contract.Response{Status: 500, Message: "bad amount"}, nil
		}
		if err := ctx.Transfer(from, ctx.Initiator(), amount); err != nil {
			return nil, err
		}
	}
	return &contract.Response{Status: 200, Body: []byte("ok")}, nil
}

// attachContracts gives the state machine a real contract manager (kernel contracts only) with `$xvvault`.
func attachContracts(s *state.State) {
	cfg := contract.DefaultContractConfig()
	cfg.Wasm.Enable = false
	cfg.Native.Enable = false
	cfg.EVM.Enable = false
	cfg.EnableDebugLog = false
	abs, _ := filepath.Abs(scratch)
	mgr, err := contract.CreateManager("default", &contract.ManagerConfig{BCName: "xuper", Basedir: filepath.Join(abs, "data", "contract"),
		Core: s, XMReader: s.CreateXMReader(), Config: cfg})
	if err != nil {
		xvlib.Die("contract manager: %v", err)
	}
	mgr.GetKernRegistry().RegisterKernMethod(vaultName, "withdraw", vaultWithdraw)
	s.SetContractMG(mgr)
}

// ---------------------------------------------------------------- the structured line

type vcIn struct {
	t      int
	off    int32
	owner  string // token
	amount string // decimal
}

type vcOut struct {
	amount string
	to     string // token
}

type vcLine struct {
	noReq     bool
	cls, from string
	ver       int32
	sg        []string
	amts      []string
	in, cin   []vcIn
	out, cout []vcOut
}

func (i vcIn) String() string  { return fmt.Sprintf("%d.%d/%s/%s", i.t, i.off, i.owner, i.amount) }
func (o vcOut) String() string { return o.amount + "/" + o.to }

func (l vcLine) String() string {
	ins := func(xs []vcIn) string {
		var s []string
		for _, x := range xs {
			s = append(s, x.String())
		}
		return joinOr(s, ",")
	}
	outs := func(xs []vcOut) string {
		var s []string
		for _, x := range xs {
			s = append(s, x.String())
		}
		return joinOr(s, ",")
	}
	r := fmt.Sprintf("vc cls=%s ver=%d from=%s sg=%s amts=%s in=%s cin=%s cout=%s out=%s", l.cls, l.ver, l.from, strings.Join(l.sg, ","),
		joinOr(l.amts, ","), ins(l.in), ins(l.cin), outs(l.cout), outs(l.out))
	if l.noReq {
		r += " req=0"
	}
	return r
}

func (l vcLine) clone() vcLine {
	c := l
	c.sg = append([]string{}, l.sg...)
	c.amts = append([]string{}, l.amts...)
	c.in = append([]vcIn{}, l.in...)
	c.cin = append([]vcIn{}, l.cin...)
	c.out = append([]vcOut{}, l.out...)
	c.cout = append([]vcOut{}, l.cout...)
	return c
}

func parseVc(line string) vcLine {
	m := parseKV(strings.Fields(line)[1:])
	l := vcLine{noReq: m["req"] == "0", cls: m["cls"], from: m["from"], ver: int32(atoi(m["ver"])), sg: splitOr(m["sg"], ","), amts: splitOr(m["amts"], ",")}
	ins := func(s string) []vcIn {
		var r []vcIn
		for _, e := range splitOr(s, ",") {
			p := strings.Split(e, "/")
			ref := strings.Split(p[0], ".")
			r = append(r, vcIn{t: int(atoi(ref[0])), off: int32(atoi(ref[1])), owner: p[1], amount: p[2]})
		}
		return r
	}
	outs := func(s string) []vcOut {
		var r []vcOut
		for _, e := range splitOr(s, ",") {
			p := strings.Split(e, "/")
			r = append(r, vcOut{amount: p[0], to: p[1]})
		}
		return r
	}
	l.in, l.cin, l.out, l.cout = ins(m["in"]), ins(m["cin"]), outs(m["out"]), outs(m["cout"])
	if len(l.sg) == 0 || l.sg[0][0] != 'A' {
		panic("vc: the first signer is the initiator, an address")
	}
	return l
}

func vcName(tok string) []byte {
	if tok == "V" {
		return []byte(vaultName)
	}
	return symIn(strings.Replace(tok, "|", "/", -1))
}

func dec(s string) *big.Int {
	n, ok := new(big.Int).SetString(s, 10)
	if !ok {
		panic("bad amount " + s)
	}
	return n
}

func vcInputs(xs []vcIn) []*protos.TxInput {
	var r []*protos.TxInput
	for _, x := range xs {
		r = append(r, &protos.TxInput{RefTxid: sha("xv-vc-" + strconv.Itoa(x.t)), RefOffset: x.off, FromAddr: vcName(x.owner), Amount: dec(x.amount).Bytes()})
	}
	return r
}

func vcOutputs(xs []vcOut) []*protos.TxOutput {
	var r []*protos.TxOutput
	for _, x := range xs {
		r = append(r, &protos.TxOutput{Amount: dec(x.amount).Bytes(), ToAddr: vcName(x.to)})
	}
	return r
}

// buildVc assembles and signs the transaction the line describes.
func buildVc(l vcLine) *pb.Transaction {
	tx := &pb.Transaction{Version: l.ver, Nonce: "vc", Timestamp: 1700000002, Desc: []byte("withdraw"),
		TxInputs: vcInputs(l.in), TxOutputs: vcOutputs(l.out)}
	if !l.noReq {
		tx.ContractRequests = []*protos.InvokeRequest{{ModuleName: "xkernel", ContractName: vaultName, MethodName: "withdraw",
			Args: map[string][]byte{"amounts": []byte(strings.Join(l.amts, ",")), "from": []byte(l.from)}}}
	}
	if len(l.cin) > 0 {
		v, err := xmodel.MarshalMessages(vcInputs(l.cin))
		must(err)
		tx.TxOutputsExt = append(tx.TxOutputsExt, &protos.TxOutputExt{Bucket: sandbox.TransientBucket, Key: []byte("ContractUtxo.Inputs"), Value: v})
	}
	if len(l.cout) > 0 {
		v, err := xmodel.MarshalMessages(vcOutputs(l.cout))
		must(err)
		tx.TxOutputsExt = append(tx.TxOutputsExt, &protos.TxOutputExt{Bucket: sandbox.TransientBucket, Key: []byte("ContractUtxo.Outputs"), Value: v})
	}
	keyOf := func(tok string) int { return int(atoi(tok[strings.LastIndex(tok, "A")+1:])) }
	tx.Initiator = string(vcName(l.sg[0]))
	for _, s := range l.sg[1:] {
		tx.AuthRequire = append(tx.AuthRequire, string(vcName(s)))
	}
	d, err := txhash.MakeTxDigestHash(tx)
	must(err)
	tx.InitiatorSigns = []*protos.SignatureInfo{{PublicKey: acct(keyOf(l.sg[0])).PubJSON, Sign: signBy(keyOf(l.sg[0]), d)}}
	for _, s := range l.sg[1:] {
		tx.AuthRequireSigns = append(tx.AuthRequireSigns, &protos.SignatureInfo{PublicKey: acct(keyOf(s)).PubJSON, Sign: signBy(keyOf(s), d)})
	}
	tx.Txid, err = txhash.MakeTransactionID(tx)
	must(err)
	return tx
}

// ---------------------------------------------------------------- the property, evaluated on the line

// specReexec: what the carried code spends and pays when it runs over the declared inputs, by the documented
// semantics of Transfer (inputs are taken in order until the amount is covered, every one must belong to the
// payer; the rest goes back to the payer).  ok=false: the execution fails.
func specReexec(l vcLine) (spent []vcIn, paid []vcOut, ok bool) {
	payer := "V"
	if l.from == "I" {
		payer = l.sg[0]
	}
	rest := l.cin
	if l.noReq {
		return nil, nil, true // no code is carried: nothing is spent, nothing is paid
	}
	for _, a := range l.amts {
		amount := dec(a)
		if amount.Sign() <= 0 {
			return nil, nil, false
		}
		sum := new(big.Int)
		n := 0
		for _, in := range rest {
			n++
			if in.owner != payer {
				return nil, nil, false
			}
			sum.Add(sum, dec(in.amount))
			if sum.Cmp(amount) >= 0 {
				break
			}
		}
		if sum.Cmp(amount) < 0 {
			return nil, nil, false
		}
		spent = append(spent, rest[:n]...)
		rest = rest[n:]
		paid = append(paid, vcOut{amount.String(), l.sg[0]})
		if sum.Cmp(amount) > 0 {
			paid = append(paid, vcOut{new(big.Int).Sub(sum, amount).String(), payer})
		}
	}
	return spent, paid, true
}

// judgeVc: the impl-side oracle.  Every signer of the line signs validly, so an accepted line is a violation
// exactly if it spends an output whose owner is neither a signer, nor an account the signers control, nor the
// payer of a spend the carried code itself makes (and the transaction reproduces) on re-execution.
func judgeVc(line string, l vcLine, res string) {
	spent, paid, ran := specReexec(l)
	reproduced := ran && fmt.Sprint(spent) == fmt.Sprint(l.cin) && fmt.Sprint(paid) == fmt.Sprint(l.cout)
	signed := map[string]bool{}
	for _, s := range l.sg {
		signed[s[strings.LastIndex(s, "A"):]] = true
	}
	for _, s := range l.sg[1:] {
		// the ACL table of the harness: account Cn is controlled by address An
		if i := strings.Index(s, "|A"); i > 0 && s[1:i] == s[i+2:] {
			signed[s[:i]] = true
		}
	}
	why := ""
	for _, in := range l.in {
		if signed[in.owner] {
			continue
		}
		byCode, sameRef := false, false
		for _, c := range l.cin {
			if c.t == in.t && c.off == in.off {
				sameRef = true
				if c.owner == in.owner {
					byCode = reproduced
				}
			}
		}
		if byCode {
			continue
		}
		switch {
		case sameRef:
			why = "declared-as-contract-input-of-another-owner"
			if !reproduced {
				why = "declared-contract-input-not-reproduced"
			}
		case in.owner == "V":
			why = "contract-output-not-spent-by-the-code"
		default:
			why = "owner-did-not-sign"
		}
		break
	}
	// the spend the code performs must be the one the transaction performs: declared outputs are outputs of the tx
	left := map[string]int{}
	for _, o := range l.out {
		left[o.String()]++
	}
	payOk := true
	for _, o := range l.cout {
		if left[o.String()] < 1 {
			payOk = false
		}
		left[o.String()]--
	}
	// ... and every output the code spends is spent by the transaction
	spendOk, exact := true, true
	for _, c := range l.cin {
		sameRef, same := false, false
		for _, in := range l.in {
			if in.t == c.t && in.off == c.off {
				sameRef = true
			}
			if in == c {
				same = true
			}
		}
		spendOk = spendOk && sameRef
		exact = exact && same
	}
	honest := why == "" && reproduced && payOk && exact
	switch {
	case res == "accept" && why != "":
		out.Violate(xvlib.Violation{Key: "unauthorised-spend:" + why,
			What: "VerifyTx accepts a transaction (all listed signers sign, txid recomputed) that spends an output whose owner is not among the signers, is not an account they control, and is not spent from its owner by the contract code the transaction carries when that code is re-executed over the declared inputs: " + why,
			Ops:  []string{line}, Impl: []string{res}})
	case res == "accept" && !reproduced:
		out.Violate(xvlib.Violation{Key: "contract-spend-not-reproduced",
			What: "VerifyTx accepts a transaction whose declared contract inputs / outputs are not what the carried code spends and pays when re-executed over the declared inputs",
			Ops:  []string{line}, Impl: []string{res}})
	case res == "accept" && !payOk:
		out.Violate(xvlib.Violation{Key: "contract-payment-not-in-tx",
			What: "VerifyTx accepts a transaction whose outputs do not contain the payments the carried code makes",
			Ops:  []string{line}, Impl: []string{res}})
	case res == "accept" && !spendOk:
		out.Violate(xvlib.Violation{Key: "contract-spend-not-in-tx",
			What: "VerifyTx accepts a transaction whose inputs do not contain the outputs the carried code spends",
			Ops:  []string{line}, Impl: []string{res}})
	case res == "reject" && honest:
		out.Violate(xvlib.Violation{Key: "contract-spend-rejected",
			What: "VerifyTx rejects a correctly signed transaction that spends exactly what its contract code spends",
			Ops:  []string{line}, Impl: []string{res}})
	}
	switch {
	case honest:
		out.Count("vc-honest:" + res)
	case res == "accept":
		// e.g. a further signer, a further output, an output of a signer spent where the execution saw the contract's
		out.Count("vc-changed-but-authorised:accept")
	default:
		out.Count("vc-tampered:reject")
	}
}

func execVc(line string, oracle bool) string {
	l := parseVc(line)
	tx := buildVc(l)
	ok, verr := getState().VerifyTx(tx)
	res := "reject"
	if ok {
		res = "accept"
	}
	if oracle {
		if !ok && verr == nil {
			out.Violate(xvlib.Violation{Key: "refused-without-error", What: "VerifyTx refuses the transaction (false) but returns no error; Chain.SubmitTx checks only the error and admits it", Ops: []string{line}, Impl: []string{"ok=false err=nil"}})
		}
		judgeVc(line, l, res)
	}
	return res
}

// ---------------------------------------------------------------- generator

// honestVc: a withdrawal as the pre-execution produces it — nv outputs of the payer (100 each), paid out in the
// given amounts; own: the initiator also spends an output of its own in the same transaction.
func honestVc(ver int32, from string, sg []string, nv int, amts []string, own bool) vcLine {
	l := vcLine{cls: "honest", ver: ver, from: from, sg: sg, amts: amts}
	payer := "V"
	if from == "I" {
		payer = sg[0]
	}
	for i := 0; i < nv; i++ {
		l.cin = append(l.cin, vcIn{t: 1 + i, off: int32(i % 2), owner: payer, amount: "100"})
	}
	spent, paid, ok := specReexec(l)
	if !ok {
		panic("honestVc: the amounts exceed the inputs")
	}
	l.cin, l.cout = spent, paid
	l.in = append([]vcIn{}, spent...)
	l.out = append([]vcOut{}, paid...)
	if own {
		l.in = append([]vcIn{{t: 20, off: 3, owner: sg[0], amount: "50"}}, l.in...)
		l.out = append(l.out, vcOut{"50", "A5"})
	}
	return l
}

// tamperVc: the ways the spent outputs, what the execution is said to have spent, and the payments are changed.
func tamperVc(h vcLine) []vcLine {
	var res []vcLine
	emit := func(cls string, f func(l *vcLine)) {
		defer func() { recover() }() // a step that does not apply to this line (nothing declared, nothing paid) is skipped
		l := h.clone()
		l.cls = cls
		f(&l)
		res = append(res, l)
	}
	first := func(l *vcLine) int { // index in l.in of the first input the code spends
		for i, in := range l.in {
			if in == l.cin[0] {
				return i
			}
		}
		panic("no contract input")
	}
	last := func(l *vcLine) int {
		c := l.cin[len(l.cin)-1]
		for i, in := range l.in {
			if in == c {
				return i
			}
		}
		panic("no contract input")
	}
	for _, victim := range []string{"A6", "C3", "A5", "V", h.sg[0]} {
		victim := victim
		if len(h.cin) == 0 || victim != h.cin[0].owner {
			// the output really belongs to someone else; the execution was shown a view in which it is the payer's
			emit("owner:"+victim+":tx-input-only", func(l *vcLine) { l.in[first(l)].owner = victim })
			emit("owner:"+victim+":last-tx-input-only", func(l *vcLine) { l.in[last(l)].owner = victim })
			emit("owner:"+victim+":tx-and-declared", func(l *vcLine) { l.in[first(l)].owner = victim; l.cin[0].owner = victim })
			emit("owner:"+victim+":declared-only", func(l *vcLine) { l.cin[0].owner = victim })
		}
		// a further output (of someone else, or of the payer itself but not spent by the code) rides along
		emit("extra:"+victim+":fresh-ref", func(l *vcLine) { l.in = append(l.in, vcIn{t: 30, off: 0, owner: victim, amount: "70"}) })
		emit("extra:"+victim+":same-txid-other-offset", func(l *vcLine) {
			l.in = append(l.in, vcIn{t: l.cin[0].t, off: l.cin[0].off + 5, owner: victim, amount: "70"})
		})
		emit("extra:"+victim+":same-offset-other-txid", func(l *vcLine) {
			l.in = append(l.in, vcIn{t: 31, off: l.cin[0].off, owner: victim, amount: "70"})
		})
		emit("extra:"+victim+":same-ref-as-declared", func(l *vcLine) {
			l.in = append(l.in, vcIn{t: l.cin[0].t, off: l.cin[0].off, owner: victim, amount: l.cin[0].amount})
		})
		emit("extra:"+victim+":declared-too", func(l *vcLine) {
			x := vcIn{t: 30, off: 0, owner: victim, amount: "70"}
			l.in = append(l.in, x)
			l.cin = append(l.cin, x)
		})
		emit("extra:"+victim+":declared-first", func(l *vcLine) {
			x := vcIn{t: 30, off: 0, owner: victim, amount: "70"}
			l.in = append(l.in, x)
			l.cin = append([]vcIn{x}, l.cin...)
		})
	}
	emit("declared:dropped-first", func(l *vcLine) { l.cin = l.cin[1:] })
	emit("declared:dropped-all", func(l *vcLine) { l.cin = nil })
	emit("declared:dropped-all-and-payments", func(l *vcLine) { l.cin, l.cout = nil, nil })
	emit("declared:not-in-tx", func(l *vcLine) { i := first(l); l.in = append(l.in[:i:i], l.in[i+1:]...) })
	emit("declared:other-txid-in-tx", func(l *vcLine) { l.in[first(l)].t += 40 })
	emit("declared:other-offset-in-tx", func(l *vcLine) { l.in[first(l)].off += 7 })
	emit("declared:other-amount-in-tx", func(l *vcLine) { l.in[first(l)].amount = "1" })
	emit("declared:amount-raised", func(l *vcLine) { l.cin[0].amount = "1" + l.cin[0].amount })
	if len(h.cin) > 1 {
		emit("declared:reordered", func(l *vcLine) { l.cin[0], l.cin[1] = l.cin[1], l.cin[0] })
		emit("tx-inputs:reordered", func(l *vcLine) { i, j := first(l), last(l); l.in[i], l.in[j] = l.in[j], l.in[i] })
	}
	emit("payment:redirected-in-tx", func(l *vcLine) { l.out[0].to = "A5" })
	emit("payment:redirected-in-tx-and-declared", func(l *vcLine) { l.out[0].to = "A5"; l.cout[0].to = "A5" })
	emit("payment:raised-in-tx-and-declared", func(l *vcLine) { l.out[0].amount = "1" + l.out[0].amount; l.cout[0].amount = l.out[0].amount })
	emit("payment:dropped-from-tx", func(l *vcLine) { l.out = l.out[1:] })
	emit("payment:declared-dropped", func(l *vcLine) { l.cout = l.cout[:len(l.cout)-1] })
	emit("payment:extra-tx-output", func(l *vcLine) { l.out = append(l.out, vcOut{"5", "A5"}) })
	emit("request:amount-changed", func(l *vcLine) { l.amts[0] = dec(l.amts[0]).Add(dec(l.amts[0]), big.NewInt(1)).String() })
	emit("request:amount-zero", func(l *vcLine) { l.amts[0] = "0" })
	emit("request:payer-changed", func(l *vcLine) { l.from = map[string]string{"V": "I", "I": "V"}[l.from] })
	emit("request:amount-added", func(l *vcLine) { l.amts = append(l.amts, "1") })
	emit("signer:added", func(l *vcLine) { l.sg = append(l.sg, "A4") })
	// the transaction carries no request at all, but still declares what "the code" spent
	emit("request:dropped", func(l *vcLine) { l.noReq = true })
	emit("request:dropped-declared-cleared", func(l *vcLine) { l.noReq = true; l.cin, l.cout = nil, nil })
	emit("request:dropped-payments-cleared", func(l *vcLine) { l.noReq = true; l.cout = nil })
	emit("request:dropped+owner:A6:tx-and-declared", func(l *vcLine) {
		l.noReq = true
		l.in[first(l)].owner = "A6"
		l.cin[0].owner = "A6"
	})
	emit("request:dropped+owner:A6:tx-and-declared+payments-cleared", func(l *vcLine) {
		l.noReq = true
		l.in[first(l)].owner = "A6"
		l.cin[0].owner = "A6"
		l.cout = nil
	})
	return res
}

func genVc(thorough bool, rng *xvlib.Rng, run func(string, bool)) {
	n := 0
	for _, ver := range []int32{3, 1} {
		for _, from := range []string{"V", "I"} {
			for _, sg := range [][]string{{"A0"}, {"A0", "A1"}, {"A0", "C2|A2"}, {"A1", "C3|A3", "A0"}} {
				for _, shape := range []struct {
					nv   int
					amts []string
					own  bool
				}{{1, []string{"100"}, false}, {1, []string{"30"}, true}, {2, []string{"150"}, false}, {3, []string{"120", "100"}, true}, {3, []string{"100", "100", "100"}, false}} {
					if !thorough && ver == 1 && (len(sg) == 3 || shape.nv == 2) {
						continue
					}
					h := honestVc(ver, from, sg, shape.nv, shape.amts, shape.own)
					run(h.String(), true)
					ts := tamperVc(h)
					for _, t := range ts {
						run(t.String(), true)
						if n < 2 && strings.HasPrefix(t.cls, "owner:A6:tx-input-only") {
							out.Sample(map[string]string{"op": t.String(), "impl": execC07(t.String(), false)})
							n++
						}
					}
					// two changes at once
					k := 6
					if thorough {
						k = 60
					}
					for i := 0; i < k; i++ {
						a := ts[rng.Intn(len(ts))]
						for _, t2 := range tamperVc(a) {
							if rng.Intn(12) == 0 {
								t2.cls = a.cls + "+" + t2.cls
								run(t2.String(), true)
							}
						}
					}
				}
			}
		}
	}
}

