package main

// Go-side interpreter of the encoder schemas extracted from the source
// (lean/XV/Gen/enc_schemas.json, written by go/extract/reg_enc.go).  Hashing the
// bytes it produces must reproduce ledger.MakeBlockID / txhash.MakeTxDigestHash /
// txhash.MakeTransactionID on every generated message: that validates the
// extractor against the real encoders.

import (
	"bytes"
	"encoding/binary"
	"encoding/json"
	"fmt"
	"io/ioutil"
	"os"
	"path/filepath"
	"reflect"
	"sort"
	"strconv"
	"strings"
)

type Item struct {
	Path  string   `json:"path"`
	Kind  string   `json:"kind"`
	Conds []string `json:"conds"`
	Loops []string `json:"loops"`
}

type Schemas struct {
	BlockIdSchema []Item   `json:"blockIdSchema"`
	BlockIdHash   string   `json:"blockIdHash"`
	TxDigestV3    []Item   `json:"txDigestV3"`
	TxDigestV1    []Item   `json:"txDigestV1"`
	BlockFields   []string `json:"blockFields"`
	TxFields      []string `json:"txFields"`
}

func loadSchemas() (*Schemas, error) {
	p := os.Getenv("XV_GEN")
	if p == "" {
		p = filepath.Join("lean", "XV", "Gen", "enc_schemas.json")
	}
	b, err := ioutil.ReadFile(p)
	if err != nil {
		return nil, err
	}
	s := &Schemas{}
	if err := json.Unmarshal(b, s); err != nil {
		return nil, err
	}
	return s, nil
}

// evalPath walks a field path ("A.B[].C") from root using idx for the "[]" positions.
// ok=false: a nil message was met on the way (nil-safe getters yield the zero value).
func evalPath(root reflect.Value, path string, idx []int) (reflect.Value, bool) {
	v := root
	ii := 0
	if path == "" {
		return v, true
	}
	for _, seg := range strings.Split(path, ".") {
		isIdx := strings.HasSuffix(seg, "[]")
		name := strings.TrimSuffix(seg, "[]")
		for v.Kind() == reflect.Ptr || v.Kind() == reflect.Interface {
			if v.IsNil() {
				return reflect.Value{}, false
			}
			v = v.Elem()
		}
		v = v.FieldByName(name)
		if !v.IsValid() {
			panic("schema names unknown field " + path)
		}
		if isIdx {
			if ii >= len(idx) {
				panic("index stack too short for " + path)
			}
			v = v.Index(idx[ii])
			ii++
		}
	}
	return v, true
}

func isNilValue(v reflect.Value, ok bool) bool {
	if !ok {
		return true
	}
	switch v.Kind() {
	case reflect.Ptr, reflect.Slice, reflect.Map, reflect.Interface:
		return v.IsNil()
	}
	return false
}

func intOf(v reflect.Value, ok bool) int64 {
	if !ok {
		return 0
	}
	switch v.Kind() {
	case reflect.Bool:
		if v.Bool() {
			return 1
		}
		return 0
	case reflect.Int, reflect.Int32, reflect.Int64:
		return v.Int()
	}
	panic("not an integer: " + v.Kind().String())
}

func bytesOf(v reflect.Value, ok bool) []byte {
	if !ok {
		return nil
	}
	switch v.Kind() {
	case reflect.String:
		return []byte(v.String())
	case reflect.Slice:
		return v.Bytes()
	}
	panic("not bytes: " + v.Kind().String())
}

func lenOf(v reflect.Value, ok bool) int {
	if !ok {
		return 0
	}
	return v.Len()
}

func evalCond(root reflect.Value, c string, idx []int, flags map[string]bool) bool {
	if v, isFlag := flags[c]; isFlag {
		return v
	}
	for _, op := range []string{"!=", ">=", ">"} {
		if i := strings.Index(c, op); i > 0 {
			lhs, rhs := c[:i], c[i+len(op):]
			if rhs == "nil" {
				v, ok := evalPath(root, lhs, idx)
				return !isNilValue(v, ok)
			}
			n, err := strconv.ParseInt(rhs, 10, 64)
			if err != nil {
				panic("condition " + c)
			}
			var l int64
			if strings.HasPrefix(lhs, "len(") {
				v, ok := evalPath(root, lhs[4:len(lhs)-1], idx)
				l = int64(lenOf(v, ok))
			} else {
				v, ok := evalPath(root, lhs, idx)
				l = intOf(v, ok)
			}
			if op == ">=" {
				return l >= n
			}
			return l > n
		}
	}
	panic("condition not understood: " + c)
}

func be64(x int64) []byte {
	var b [8]byte
	binary.BigEndian.PutUint64(b[:], uint64(x))
	return b[:]
}

// interp produces the byte string the schema's encoder writes for message root.
// trace (optional) receives one token per written item (used for the v1/v2 token comparison).
func interp(items []Item, root reflect.Value, flags map[string]bool) (out []byte, err error) {
	defer func() {
		if r := recover(); r != nil {
			err = fmt.Errorf("%v", r)
		}
	}()
	var buf bytes.Buffer
	var run func(items []Item, depth int, idx []int)
	run = func(items []Item, depth int, idx []int) {
		for i := 0; i < len(items); {
			it := items[i]
			if len(it.Loops) > depth {
				j := i
				for j < len(items) && len(items[j].Loops) > depth && items[j].Loops[depth] == it.Loops[depth] {
					j++
				}
				// guards of the loop statement itself are the guards shared by its first item; evaluate per element below
				c, ok := evalPath(root, it.Loops[depth], idx)
				n := lenOf(c, ok)
				for k := 0; k < n; k++ {
					run(items[i:j], depth+1, append(append([]int{}, idx...), k))
				}
				i = j
				continue
			}
			i++
			hold := true
			for _, c := range it.Conds {
				if !evalCond(root, c, idx, flags) {
					hold = false
					break
				}
			}
			if !hold {
				continue
			}
			v, ok := evalPath(root, it.Path, idx)
			switch it.Kind {
			case "le32":
				binary.Write(&buf, binary.LittleEndian, int32(intOf(v, ok)))
			case "le64":
				binary.Write(&buf, binary.LittleEndian, intOf(v, ok))
			case "raw":
				buf.Write(bytesOf(v, ok))
			case "mapValsSorted":
				if ok && v.Len() > 0 {
					var ks []string
					for _, k := range v.MapKeys() {
						ks = append(ks, k.String())
					}
					sort.Strings(ks)
					for _, k := range ks {
						buf.Write(bytesOf(v.MapIndex(reflect.ValueOf(k)), true))
					}
				}
			case "i64":
				buf.Write(be64(intOf(v, ok)))
			case "lenBytes":
				b := bytesOf(v, ok)
				buf.Write(be64(int64(len(b))))
				buf.Write(b)
			case "count":
				buf.Write(be64(int64(lenOf(v, ok))))
			case "lenMap":
				n := lenOf(v, ok)
				buf.Write(be64(int64(n)))
				if n > 0 {
					var ks []string
					for _, k := range v.MapKeys() {
						ks = append(ks, k.String())
					}
					sort.Strings(ks)
					for _, k := range ks {
						buf.Write(be64(int64(len(k))))
						buf.WriteString(k)
						b := bytesOf(v.MapIndex(reflect.ValueOf(k)), true)
						buf.Write(be64(int64(len(b))))
						buf.Write(b)
					}
				}
			case "json":
				var x interface{}
				if ok {
					x = v.Interface()
				} else {
					panic("json of a field below a nil message: " + it.Path)
				}
				js, e := json.Marshal(x)
				if e != nil {
					panic(e)
				}
				buf.Write(js)
				buf.WriteByte('\n')
			default:
				panic("unknown kind " + it.Kind)
			}
		}
	}
	run(items, 0, nil)
	return buf.Bytes(), nil
}
