package main

// conc <seed> <n> <rounds>: the ids the property speaks of are functions of their argument alone - also when several
// goroutines compute them at once (the miner formats a block or guesses PoW nonces while the sync path verifies a received
// one; transactions are verified in parallel). n random blocks / transactions; block id, merkle root, transaction id and
// digest computed sequentially first, then by n goroutines at once, `rounds` times. Answers are not compared with the model.

import (
	"bytes"
	"fmt"
	"strconv"
	"sync"

	"github.com/xuperchain/xupercore/bcs/ledger/xledger/ledger"
	"github.com/xuperchain/xupercore/bcs/ledger/xledger/state/utxo/txhash"
	pb "github.com/xuperchain/xupercore/bcs/ledger/xledger/xldgpb"
	"xv/xvlib"
)

func execConc(w []string, line string, prop string) string {
	if len(w) != 4 {
		return "bad-op"
	}
	seed, _ := strconv.ParseUint(w[1], 10, 64)
	n := int(atoi(w[2]))
	rounds := int(atoi(w[3]))
	r := xvlib.NewRng(seed)
	type job struct {
		name string
		f    func() ([]byte, error)
		want []byte
	}
	var jobs []*job
	for i := 0; i < n; i++ {
		if prop == "C08" {
			b := randBlock(r)
			txs := mkTxs(1+r.Intn(9), fmt.Sprintf("c%d", i))
			jobs = append(jobs, &job{name: "MakeBlockID", f: func() ([]byte, error) { return ledger.MakeBlockID(b) }})
			jobs = append(jobs, &job{name: "MakeMerkleTree", f: func() ([]byte, error) {
				t := ledger.MakeMerkleTree(txs)
				return bytes.Join(t, nil), nil
			}})
		} else {
			tx := randTx(r, int32(1+r.Intn(3)))
			jobs = append(jobs, &job{name: "MakeTransactionID", f: func() ([]byte, error) { return txhash.MakeTransactionID(tx) }})
			jobs = append(jobs, &job{name: "MakeTxDigestHash", f: func() ([]byte, error) { return txhash.MakeTxDigestHash(tx) }})
		}
	}
	for _, j := range jobs {
		v, err := j.f()
		if err != nil {
			j.f = nil
			continue
		}
		j.want = v
	}
	var mu sync.Mutex
	bad := ""
	for k := 0; k < rounds && bad == ""; k++ {
		var wg sync.WaitGroup
		start := make(chan struct{})
		for _, j := range jobs {
			if j.f == nil {
				continue
			}
			wg.Add(1)
			go func(j *job) {
				defer wg.Done()
				defer func() {
					if p := recover(); p != nil {
						mu.Lock()
						bad = j.name + ":panic"
						mu.Unlock()
					}
				}()
				<-start
				v, err := j.f()
				if err != nil || !bytes.Equal(v, j.want) {
					mu.Lock()
					bad = j.name
					mu.Unlock()
				}
			}(j)
		}
		close(start)
		wg.Wait()
	}
	if bad != "" {
		out.Violate(xvlib.Violation{Key: "id-differs-under-concurrency:" + bad,
			What: fmt.Sprintf("%s computed by several goroutines at once answers differently from the same call made alone: the id is not a function of the hashed fields", bad),
			Ops:  []string{line}, Impl: []string{bad}})
	}
	out.Count("conc")
	return "-"
}

var _ = pb.InternalBlock{}
