package main

// conc <seed> <n> <rounds>: the ids the property speaks of are functions of their argument alone - also when several
// goroutines compute them at once (the miner formats a block or guesses PoW nonces while the sync path verifies a received
// one; transactions are verified in parallel). n random blocks / transactions; block id, merkle root, transaction id and
// digest computed sequentially first, then by n goroutines at once, `rounds` times. Answers are not compared with the model.

import (
	"bytes"
	"fmt"
	"runtime"
	"strconv"
	"strings"
	"sync"
	"sync/atomic"

	"github.com/golang/protobuf/proto"

	"github.com/xuperchain/xupercore/bcs/ledger/xledger/ledger"
	"github.com/xuperchain/xupercore/bcs/ledger/xledger/state/utxo/txhash"
	pb "github.com/xuperchain/xupercore/bcs/ledger/xledger/xldgpb"
	"xv/xvlib"
)

func execConc(w []string, line string, prop string) string {
	if len(w) > 4 {
		return execConcStorm(w, line, prop)
	}
	if len(w) != 4 {
		return "bad-op"
	}
	seed, _ := strconv.ParseUint(w[1], 10, 64)
	n := int(atoi(w[2]))
	rounds := int(atoi(w[3]))
	r := xvlib.NewRng(seed)
	type job struct {
		name string
		f    func() ([]byte, error)
		want []byte
	}
	var jobs []*job
	for i := 0; i < n; i++ {
		if prop == "C08" {
			b := randBlock(r)
			txs := mkTxs(1+r.Intn(9), fmt.Sprintf("c%d", i))
			jobs = append(jobs, &job{name: "MakeBlockID", f: func() ([]byte, error) { return ledger.MakeBlockID(b) }})
			jobs = append(jobs, &job{name: "MakeMerkleTree", f: func() ([]byte, error) {
				t := ledger.MakeMerkleTree(txs)
				return bytes.Join(t, nil), nil
			}})
		} else {
			tx := randTx(r, int32(1+r.Intn(3)))
			jobs = append(jobs, &job{name: "MakeTransactionID", f: func() ([]byte, error) { return txhash.MakeTransactionID(tx) }})
			jobs = append(jobs, &job{name: "MakeTxDigestHash", f: func() ([]byte, error) { return txhash.MakeTxDigestHash(tx) }})
		}
	}
	for _, j := range jobs {
		v, err := j.f()
		if err != nil {
			j.f = nil
			continue
		}
		j.want = v
	}
	var mu sync.Mutex
	bad := ""
	for k := 0; k < rounds && bad == ""; k++ {
		var wg sync.WaitGroup
		start := make(chan struct{})
		for _, j := range jobs {
			if j.f == nil {
				continue
			}
			wg.Add(1)
			go func(j *job) {
				defer wg.Done()
				defer func() {
					if p := recover(); p != nil {
						mu.Lock()
						bad = j.name + ":panic"
						mu.Unlock()
					}
				}()
				<-start
				v, err := j.f()
				if err != nil || !bytes.Equal(v, j.want) {
					mu.Lock()
					bad = j.name
					mu.Unlock()
				}
			}(j)
		}
		close(start)
		wg.Wait()
	}
	if bad != "" {
		out.Violate(xvlib.Violation{Key: "id-differs-under-concurrency:" + bad,
			What: fmt.Sprintf("%s computed by several goroutines at once answers differently from the same call made alone: the id is not a function of the hashed fields", bad),
			Ops:  []string{line}, Impl: []string{bad}})
	}
	out.Count("conc")
	return "-"
}

// conc <seed> <n> <iters> w=<workers> big=<maxlen> gc=<0|1> [ver=<versions>]: the SCHEDULE the barrier form above never
// produces - a goroutine descheduled in the MIDDLE of an id computation while others go on computing. <workers> goroutines
// (several per core) each walk all jobs <iters> times without a barrier, starting at different jobs; with gc=1 a disturber
// goroutine forces garbage collections all the while: every collection stops all goroutines wherever they are, hands them
// to other cores afterwards and ages the sync.Pool caches (what a pooled / cached / package-level buffer needs to change
// hands). The objects: n random ones, of which every other transaction is a SIBLING of its predecessor - same shape, every
// byte string of the same length, other content (json / length-prefixed streams of equal length: a mixed-up buffer yields
// exactly the sibling's digest) - and a third carry fields of up to <maxlen> bytes (streams of very different lengths, long
// hashing times). Versions of the transactions from ver= (default 1,2,3 cycling; "12" = the json digests only).
func execConcStorm(w []string, line string, prop string) string {
	m := parseKV(w[4:])
	seed, _ := strconv.ParseUint(w[1], 10, 64)
	n := int(atoi(w[2]))
	iters := int(atoi(w[3]))
	workers := int(atoi(m["w"]))
	big := int(atoi(m["big"]))
	vers := m["ver"]
	if vers == "" {
		vers = "123"
	}
	if n < 1 || iters < 1 || workers < 1 || workers > 4096 {
		return "bad-op"
	}
	r := xvlib.NewRng(seed)
	type job struct {
		name string
		f    func() ([]byte, error)
		want []byte
	}
	var jobs []*job
	var prev *pb.Transaction
	for i := 0; i < n; i++ {
		if prop == "C08" {
			b := randBlock(r)
			txs := mkTxs(1+r.Intn(9), fmt.Sprintf("c%d", i))
			if big > 0 && i%3 == 2 {
				txs = mkTxs(64+r.Intn(192), fmt.Sprintf("c%d", i))
			}
			jobs = append(jobs, &job{name: "MakeBlockID", f: func() ([]byte, error) { return ledger.MakeBlockID(b) }})
			jobs = append(jobs, &job{name: "MakeMerkleTree", f: func() ([]byte, error) {
				t := ledger.MakeMerkleTree(txs)
				return bytes.Join(t, nil), nil
			}})
			continue
		}
		var tx *pb.Transaction
		switch {
		case i%2 == 1 && prev != nil:
			tx = siblingTx(r, prev)
		default:
			tx = randTx(r, int32(vers[(i/2)%len(vers)]-'0'))
			if big > 0 && (i/2)%3 == 2 {
				tx.Desc = randBytes(r, 1+r.Intn(big))
				for _, o := range tx.TxOutputsExt {
					o.Value = randBytes(r, 1+r.Intn(big))
				}
			}
		}
		prev = tx
		v := fmt.Sprintf(":v%d", tx.Version)
		jobs = append(jobs, &job{name: "MakeTransactionID" + v, f: func() ([]byte, error) { return txhash.MakeTransactionID(tx) }})
		jobs = append(jobs, &job{name: "MakeTxDigestHash" + v, f: func() ([]byte, error) { return txhash.MakeTxDigestHash(tx) }})
	}
	var live []*job
	for _, j := range jobs {
		v, err := j.f()
		if err != nil {
			continue
		}
		j.want = v
		live = append(live, j)
	}
	if len(live) == 0 {
		return "-"
	}
	var mu sync.Mutex
	bad := ""
	var stop int32
	var wg sync.WaitGroup
	start := make(chan struct{})
	for k := 0; k < workers; k++ {
		wg.Add(1)
		go func(k int) {
			defer wg.Done()
			cur := ""
			defer func() {
				if p := recover(); p != nil {
					mu.Lock()
					bad = cur + ":panic"
					mu.Unlock()
					atomic.StoreInt32(&stop, 1)
				}
			}()
			<-start
			for it := 0; it < iters && atomic.LoadInt32(&stop) == 0; it++ {
				for x := range live {
					j := live[(x+k*7)%len(live)]
					cur = j.name
					v, err := j.f()
					if err != nil || !bytes.Equal(v, j.want) {
						what := j.name
						for _, o := range live {
							if o != j && err == nil && bytes.Equal(v, o.want) {
								what += ":answer-of-another-object"
								break
							}
						}
						mu.Lock()
						if bad == "" {
							bad = what
						}
						mu.Unlock()
						atomic.StoreInt32(&stop, 1)
						return
					}
				}
			}
		}(k)
	}
	done := make(chan struct{})
	if m["gc"] == "1" {
		go func() {
			for {
				select {
				case <-done:
					return
				default:
				}
				runtime.GC()
				runtime.Gosched()
			}
		}()
	}
	close(start)
	wg.Wait()
	close(done)
	if bad != "" {
		name := strings.TrimSuffix(bad, ":answer-of-another-object")
		if i := strings.Index(name, ":v"); i >= 0 { // the version is detail, the key names the function
			rest := ""
			if j := strings.Index(name[i+1:], ":"); j >= 0 {
				rest = name[i+1+j:]
			}
			name = name[:i] + rest
		}
		out.Violate(xvlib.Violation{Key: "id-differs-under-concurrency:" + name,
			What: fmt.Sprintf("%s of an unchanged object, computed while other goroutines compute ids / digests of other objects, differs from the same call made alone: the id is not the hash of the object's content", bad),
			Ops:  []string{line}, Impl: []string{bad}})
	}
	out.Count("conc-storm")
	return "-"
}

// siblingTx: a deep copy of t in which every non-empty byte string / string is replaced by other content of the SAME
// length (numbers, flags and text fields kept): the encoded streams of the two transactions have the same length in every version.
func siblingTx(r *xvlib.Rng, t *pb.Transaction) *pb.Transaction {
	c := proto.Clone(t).(*pb.Transaction)
	fb := func(b []byte) []byte {
		if len(b) == 0 {
			return b
		}
		return randBytes(r, len(b))
	}
	c.Desc = fb(c.Desc)
	for _, x := range c.TxInputs {
		x.RefTxid, x.FromAddr, x.Amount = fb(x.RefTxid), fb(x.FromAddr), fb(x.Amount)
	}
	for _, x := range c.TxOutputs {
		x.Amount, x.ToAddr = fb(x.Amount), fb(x.ToAddr)
	}
	for _, x := range c.TxInputsExt {
		x.Key, x.RefTxid = fb(x.Key), fb(x.RefTxid)
	}
	for _, x := range c.TxOutputsExt {
		x.Key, x.Value = fb(x.Key), fb(x.Value)
	}
	for _, q := range c.ContractRequests {
		for k, v := range q.Args {
			q.Args[k] = fb(v)
		}
	}
	for _, x := range c.InitiatorSigns {
		x.Sign = fb(x.Sign)
	}
	for _, x := range c.AuthRequireSigns {
		x.Sign = fb(x.Sign)
	}
	if c.XuperSign != nil {
		c.XuperSign.Signature = fb(c.XuperSign.Signature)
	}
	return c
}
