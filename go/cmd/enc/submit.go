package main

// C07 at the node's admission entry: op `sx` runs a transaction, described structurally, through the real
// State.VerifyTx AND the real Chain.SubmitTx (kernel/engines/xuperos) of a real node (go/chainlib: ledger, state
// machine, contract manager, the real acl.Manager and the `$acl` kernel contract on the in-memory kvdb).
//
//	sx cls=<label> ch=<p|m> ver=<1|3> form=<c|x> init=<name> isg=<e>,.. auth=<uri>,.. asg=<e>,.. xk=<k>,.. xsg=<k>_<k>..
//	   in=<name>,.. act=<T|K|S:C<n>|N:C<n>|M:c<j>>                         -> verify=<accept|reject> pool=<in|out>
//
//	name  A<i> address of key i (0..7) | C<n> contract account n (0..5)
//	uri   A<i> | C<n>|A<i>                       an AuthRequire entry
//	e     <k>  public key of key k with a valid signature of key k over this transaction's digest
//	      <k>x public key of key k with a signature that does not verify
//	form  c: per-signer entries (InitiatorSigns = isg, AuthRequireSigns = asg)
//	      x: the aggregated form: XuperSign.PublicKeys = the keys xk, XuperSign.Signature = MultiSign by the keys xsg
//	         over the digest (it verifies iff xsg names exactly the keys xk)
//	in    the owners of the token inputs: each spends its next unspent genesis output (everything is paid to A7)
//	act   the contract request the transaction carries, pre-executed on the node the way a client does
//	      (Chain.PreExec): T none, K a harmless call ($xvkv.run), G a call of the guarded method $xvgate.guarded,
//	      S:C<n> $acl.SetAccountAcl of account n, N:C<n> $acl.NewAccount, M:c<j> $acl.SetMethodAcl of contract<j>.run
//	ch    the chain: p = accounts C0..C3 exist, account n is controlled by address An (threshold 1); C4, C5 own tokens
//	      but have no rule; contract1 / contract2 are owned by C1 / C2, contract3 has no owner entry; the method
//	      $xvgate.guarded has the rule {A3: 1, C2: 1}, threshold 1.
//	      m = the same, and the operator has marked the transaction that created all the outputs
//	      (Ledger.UpdateBlockChainData: "blocked" transaction)
//
// A refused transaction is submitted a second time to the same entry (its duplicate filter has seen the id by then).
// Every line is self-contained: whatever the submission left in the pool is rolled back afterwards.
// The oracle judges the CONTENT of the line (who signed validly, which accounts they control, whose outputs are
// spent, whose rule is rewritten); cls is a label for the statistics only.

import (
	"crypto/ecdsa"
	"encoding/hex"
	"encoding/json"
	"errors"
	"fmt"
	"math/big"
	"os"
	"strconv"
	"strings"

	"github.com/xuperchain/crypto/core/schnorr_ring_sign"
	"github.com/xuperchain/crypto/core/schnorr_sign"
	csign "github.com/xuperchain/crypto/core/sign"
	"github.com/xuperchain/xupercore/bcs/ledger/xledger/state/utxo/txhash"
	pb "github.com/xuperchain/xupercore/bcs/ledger/xledger/xldgpb"
	xctx "github.com/xuperchain/xupercore/kernel/common/xcontext"
	"github.com/xuperchain/xupercore/kernel/contract"
	"github.com/xuperchain/xupercore/kernel/engines/xuperos"
	aclu "github.com/xuperchain/xupercore/kernel/permission/acl/utils"
	"github.com/xuperchain/xupercore/protos"

	"xv/chainlib"
	"xv/kvmem"
	"xv/xvlib"
)

const (
	sxKeys     = 8
	sxAccts    = 6 // C0..C3 have a rule, C4 and C5 have none
	sxRuled    = 4
	sxUtxos    = 4
	sxContract = "contract"
	// op sxf only: C6 is controlled by the SUB-ACCOUNT C1 (rule {C1: 1}), C7 by the sub-account C6 (two levels)
	sxAcctsExt = 8
	sxGate     = "$xvgate"
)

// ---------------------------------------------------------------- the line

type sxLine struct {
	cls, ch, form, init, act string
	ext                      bool   // op sxf: nested accounts C6 / C7, uris of any depth, read faults
	fault                    string // io:<record>: the storage row of that record cannot be read while the node decides
	xst                      string // scheme of the signature in the XuperSign slot
	ver                      int32
	isg, auth, asg           []string
	xk, xsg                  []int
	in                       []string
}

func ints(xs []int, sep string) string {
	var s []string
	for _, x := range xs {
		s = append(s, strconv.Itoa(x))
	}
	return joinOr(s, sep)
}

func (l sxLine) String() string {
	if l.ext {
		l.ext = false
		return "sxf" + l.String()[2:] + " fault=" + l.fault
	}
	return fmt.Sprintf("sx cls=%s ch=%s ver=%d form=%s init=%s isg=%s auth=%s asg=%s xk=%s xst=%s xsg=%s in=%s act=%s", l.cls, l.ch, l.ver, l.form,
		l.init, joinOr(l.isg, ","), joinOr(l.auth, ","), joinOr(l.asg, ","), ints(l.xk, ","), l.xst, ints(l.xsg, "_"), joinOr(l.in, ","), l.act)
}

func parseInts(s, sep string) []int {
	var r []int
	for _, e := range splitOr(s, sep) {
		r = append(r, int(atoi(e)))
	}
	return r
}

var sxExtNames bool // set while an sxf line is parsed

func sxNameOK(t string, accountsToo bool) bool {
	if len(t) < 2 {
		return false
	}
	n, err := strconv.Atoi(t[1:])
	if err != nil || t[1:] != strconv.Itoa(n) {
		return false
	}
	switch t[0] {
	case 'A':
		return n < sxKeys
	case 'C':
		return accountsToo && (n < sxAccts || (sxExtNames && n < sxAcctsExt))
	}
	return false
}

// sxSub: the sub-account a nested account's rule names (-1: the rule names a key)
func sxSub(n int) int {
	switch n {
	case 6:
		return 1
	case 7:
		return 6
	}
	return -1
}

// sxFaultRow: the (bucket, key) of the record a fault target names: C<n> the rule of account n, G the rule of the
// guarded method, O<j> the owner entry of contract j
func sxFaultRow(t string) (string, string, bool) {
	switch {
	case t == "G":
		return aclu.GetContractBucket(), aclu.MakeContractMethodKey(sxGate, "guarded"), true
	case len(t) == 2 && t[0] == 'O' && t[1] >= '1' && t[1] <= '3':
		return aclu.GetContract2AccountBucket(), sxContract + t[1:], true
	case len(t) == 2 && t[0] == 'C' && t[1] >= '0' && t[1] < '0'+sxAcctsExt:
		return aclu.GetAccountBucket(), acctName(int(t[1] - '0')), true
	}
	return "", "", false
}

func parseSx(line string) (l sxLine, ok bool) {
	m := parseKV(strings.Fields(line)[1:])
	ext := strings.Fields(line)[0] == "sxf"
	sxExtNames = ext
	defer func() { sxExtNames = false; l.ext = ext; l.fault = m["fault"] }()
	if f, has := m["fault"]; has != ext {
		return l, false
	} else if ext && f != "" {
		if _, _, good := sxFaultRow(strings.TrimPrefix(f, "io:")); !good || !strings.HasPrefix(f, "io:") {
			return l, false
		}
	}
	l = sxLine{cls: m["cls"], ch: m["ch"], form: m["form"], init: m["init"], act: m["act"], xst: m["xst"], isg: splitOr(m["isg"], ","), auth: splitOr(m["auth"], ","),
		asg: splitOr(m["asg"], ","), in: splitOr(m["in"], ",")}
	defer func() {
		if recover() != nil {
			ok = false
		}
	}()
	l.ver = int32(atoi(m["ver"]))
	l.xk, l.xsg = parseInts(m["xk"], ","), parseInts(m["xsg"], "_")
	// what the signing library can produce: a multi-signature takes two keys or more, a ring two other members or more
	switch {
	case len(l.xst) != 1 || !strings.Contains("mevsr", l.xst), l.xst == "m" && len(l.xsg) == 1, l.xst != "m" && len(l.xsg) != 1:
		return l, false
	case l.xst == "r":
		others := map[int]bool{}
		for _, k := range l.xk {
			if others[k] {
				return l, false
			}
			others[k] = true
		}
		delete(others, l.xsg[0])
		if len(others) < 2 {
			return l, false
		}
	}
	if (l.ch != "p" && l.ch != "m") || (l.form != "c" && l.form != "x") || l.ver < 1 || l.ver > 3 || !sxNameOK(l.init, true) {
		return l, false
	}
	for _, e := range append(append([]string{}, l.isg...), l.asg...) {
		k, err := strconv.Atoi(strings.TrimSuffix(e, "x"))
		if err != nil || k < 0 || k >= sxKeys {
			return l, false
		}
	}
	for _, k := range append(append([]int{}, l.xk...), l.xsg...) {
		if k < 0 || k >= sxKeys {
			return l, false
		}
	}
	for _, u := range l.auth {
		p := strings.Split(u, "|")
		if (len(p) > 2 && !ext) || len(p) > 5 || !sxNameOK(p[len(p)-1], false) {
			return l, false
		}
		for _, c := range p[:len(p)-1] {
			if c[0] != 'C' || !sxNameOK(c, true) {
				return l, false
			}
		}
	}
	cnt := map[string]int{}
	for _, o := range l.in {
		cnt[o]++
		if !sxNameOK(o, true) || cnt[o] > sxUtxos {
			return l, false
		}
	}
	switch {
	case l.act == "T" || l.act == "K" || l.act == "G":
	case len(l.act) == 4 && (l.act[:2] == "S:" || l.act[:2] == "N:") && l.act[2] == 'C' && sxNameOK(l.act[2:], true):
		exists := int(l.act[3]-'0') < sxRuled || int(l.act[3]-'0') >= sxAccts
		if exists != (l.act[0] == 'S') {
			return l, false // a client can only pre-execute SetAccountAcl on a stored account, NewAccount on a free name
		}
	case len(l.act) == 4 && l.act[:3] == "M:c" && l.act[3] >= '1' && l.act[3] <= '3':
	default:
		return l, false
	}
	return l, true
}

func sxReal(tok string) string {
	var parts []string
	for _, c := range strings.Split(tok, "|") {
		parts = append(parts, string(symIn(c)))
	}
	return strings.Join(parts, "/")
}

// ---------------------------------------------------------------- the chains

type sxImage struct {
	n    *chainlib.Node
	utxo map[string][]chainlib.Utxo
}

var (
	sxImages = map[string]*sxImage{}
	sxSeq    int
)

func sxRule(key int) []byte {
	b, _ := json.Marshal(&protos.Acl{Pm: &protos.PermissionModel{Rule: protos.PermissionRule_SIGN_THRESHOLD, AcceptValue: 1},
		AksWeight: map[string]float64{acct(key).Address: 1}})
	return b
}

func sxOwners() []string {
	var o []string
	for i := 0; i < sxKeys; i++ {
		o = append(o, "A"+strconv.Itoa(i))
	}
	for i := 0; i < sxAcctsExt; i++ {
		o = append(o, "C"+strconv.Itoa(i))
	}
	return o
}

func getSxImage(ch string) *sxImage {
	if im := sxImages[ch]; im != nil {
		return im
	}
	miner := xvlib.NewAccount(99)
	g := &chainlib.Genesis{Alloc: map[string]string{}, NoFee: true, Award: "0"}
	byAddr := map[string]string{}
	for _, o := range sxOwners() {
		g.Alloc[sxReal(o)] = "1000"
		byAddr[sxReal(o)] = o
		for j := 0; j < sxUtxos; j++ {
			g.AllocOrder = append(g.AllocOrder, sxReal(o))
		}
	}
	sxSeq++
	n, err := chainlib.NewNode(scratch, fmt.Sprintf("sx%d", sxSeq), g.JSON(), miner)
	if err != nil {
		xvlib.Die("sx: new node: %v", err)
	}
	n.CM.GetKernRegistry().RegisterKernMethod(sxGate, "guarded", func(ctx contract.KContext) (*contract.Response, error) {
		if err := ctx.Put("xvgate", []byte("k"), []byte("1")); err != nil {
			return nil, err
		}
		return &contract.Response{Status: 200, Body: []byte("ok")}, nil
	})
	im := &sxImage{n: n, utxo: map[string][]chainlib.Utxo{}}
	rb, err := n.L.QueryBlock(n.L.GetMeta().RootBlockid)
	must(err)
	root := rb.Transactions[0]
	for i, o := range root.TxOutputs {
		if t, ok := byAddr[string(o.ToAddr)]; ok {
			im.utxo[t] = append(im.utxo[t], chainlib.Utxo{Addr: string(o.ToAddr), RefTx: root.Txid, Offset: int32(i), Amount: new(big.Int).SetBytes(o.Amount)})
		}
	}
	// block 1: the rules of C0..C3 and the owner entries of contract1 / contract2.  The chain is PREPARED with a
	// transaction admitted by DoTx (which checks no permission); it is never a transaction under test.
	setup := &pb.Transaction{Version: 3, Nonce: "sx-setup", Timestamp: 1600000000, Initiator: acct(0).Address}
	rd := n.S.CreateXMReader()
	put := func(bucket, key string, value []byte) {
		vd, err := rd.Get(bucket, []byte(key))
		must(err)
		setup.TxInputsExt = append(setup.TxInputsExt, &protos.TxInputExt{Bucket: bucket, Key: []byte(key), RefTxid: vd.RefTxid, RefOffset: vd.RefOffset})
		setup.TxOutputsExt = append(setup.TxOutputsExt, &protos.TxOutputExt{Bucket: bucket, Key: []byte(key), Value: value})
	}
	for a := 0; a < sxRuled; a++ {
		put(aclu.GetAccountBucket(), acctName(a), sxRule(a))
	}
	for a := sxAccts; a < sxAcctsExt; a++ {
		nested, _ := json.Marshal(&protos.Acl{Pm: &protos.PermissionModel{Rule: protos.PermissionRule_SIGN_THRESHOLD, AcceptValue: 1},
			AksWeight: map[string]float64{acctName(sxSub(a)): 1}})
		put(aclu.GetAccountBucket(), acctName(a), nested)
	}
	for c := 1; c <= 2; c++ {
		put(aclu.GetContract2AccountBucket(), sxContract+strconv.Itoa(c), []byte(acctName(c)))
	}
	gate, _ := json.Marshal(&protos.Acl{Pm: &protos.PermissionModel{Rule: protos.PermissionRule_SIGN_THRESHOLD, AcceptValue: 1},
		AksWeight: map[string]float64{acct(3).Address: 1, acctName(2): 1}})
	put(aclu.GetContractBucket(), aclu.MakeContractMethodKey(sxGate, "guarded"), gate)
	setup.Txid, err = txhash.MakeTransactionID(setup)
	must(err)
	if err := n.S.DoTx(setup); err != nil {
		xvlib.Die("sx: setup DoTx: %v", err)
	}
	tc := *setup
	tc.ReceivedTimestamp = 0
	blk, err := n.MakeBlock(miner, rb.Blockid, 1, []*pb.Transaction{&tc}, 2e9)
	must(err)
	if st := n.L.ConfirmBlock(chainlib.CloneBlock(blk), false); !st.Succ {
		xvlib.Die("sx: confirm block 1: %v", st.Error)
	}
	if err := n.S.PlayForMiner(blk.Blockid); err != nil {
		xvlib.Die("sx: play block 1: %v", err)
	}
	if ch == "m" {
		// the operator blocks the transaction all outputs come from (public ledger API; key and signature of the
		// marking are not consulted on the paths driven here)
		if err := n.L.UpdateBlockChainData(hex.EncodeToString(root.Txid), hex.EncodeToString(sha("xv-marker")), acct(0).PubJSON, "00", 1); err != nil {
			xvlib.Die("sx: marking the funding transaction: %v", err)
		}
	}
	sxImages[ch] = im
	return im
}

func dropSxImage(ch string) {
	if im := sxImages[ch]; im != nil {
		kvmem.Drop(im.n.Root)
		delete(sxImages, ch)
	}
}

// ---------------------------------------------------------------- the transaction

func sxEntry(e string, digest []byte) *protos.SignatureInfo {
	spoil := strings.HasSuffix(e, "x")
	k := int(atoi(strings.TrimSuffix(e, "x")))
	sig := signBy(k, digest)
	if spoil {
		sig = signBy(k, sha("xv-another-digest"))
	}
	return &protos.SignatureInfo{PublicKey: acct(k).PubJSON, Sign: sig}
}

func buildSx(im *sxImage, ch *xuperos.Chain, l sxLine) (*pb.Transaction, error) {
	tx := &pb.Transaction{Version: l.ver, Nonce: "sx", Timestamp: 1700000003, Desc: []byte("sx"), Initiator: sxReal(l.init)}
	for _, u := range l.auth {
		tx.AuthRequire = append(tx.AuthRequire, sxReal(u))
	}
	cnt := map[string]int{}
	sum := new(big.Int)
	for _, o := range l.in {
		u := im.utxo[o][cnt[o]]
		cnt[o]++
		tx.TxInputs = append(tx.TxInputs, &protos.TxInput{RefTxid: u.RefTx, RefOffset: u.Offset, FromAddr: []byte(u.Addr), Amount: u.Amount.Bytes()})
		sum.Add(sum, u.Amount)
	}
	if sum.Sign() > 0 {
		tx.TxOutputs = []*protos.TxOutput{{ToAddr: []byte(acct(7).Address), Amount: sum.Bytes()}}
	}
	var req *protos.InvokeRequest
	switch l.act[0] {
	case 'K':
		req = &protos.InvokeRequest{ModuleName: "xkernel", ContractName: chainlib.KVContract, MethodName: "run", Args: map[string][]byte{"prog": []byte("put sx 1")}}
	case 'G':
		req = &protos.InvokeRequest{ModuleName: "xkernel", ContractName: sxGate, MethodName: "guarded"}
	case 'S':
		req = &protos.InvokeRequest{ModuleName: "xkernel", ContractName: "$acl", MethodName: "SetAccountAcl",
			Args: map[string][]byte{"account_name": []byte(sxReal(l.act[2:])), "acl": sxRule(6)}}
	case 'N':
		req = &protos.InvokeRequest{ModuleName: "xkernel", ContractName: "$acl", MethodName: "NewAccount",
			Args: map[string][]byte{"account_name": []byte(fmt.Sprintf("%016d", atoi(l.act[3:]))), "acl": sxRule(6)}}
	case 'M':
		req = &protos.InvokeRequest{ModuleName: "xkernel", ContractName: "$acl", MethodName: "SetMethodAcl",
			Args: map[string][]byte{"contract_name": []byte(sxContract + l.act[3:]), "method_name": []byte("run"), "acl": sxRule(6)}}
	}
	if req != nil {
		resp, err := ch.PreExec(&xctx.BaseCtx{XLog: im.n.Ctx.XLog}, []*protos.InvokeRequest{req}, tx.Initiator, tx.AuthRequire)
		if err != nil {
			return nil, fmt.Errorf("pre-execution: %v", err)
		}
		tx.ContractRequests, tx.TxInputsExt, tx.TxOutputsExt = resp.Requests, resp.Inputs, resp.Outputs
	}
	d, err := txhash.MakeTxDigestHash(tx)
	if err != nil {
		return nil, err
	}
	if l.form == "c" {
		for _, e := range l.isg {
			tx.InitiatorSigns = append(tx.InitiatorSigns, sxEntry(e, d))
		}
		for _, e := range l.asg {
			tx.AuthRequireSigns = append(tx.AuthRequireSigns, sxEntry(e, d))
		}
	} else {
		tx.XuperSign = &pb.XuperSignature{}
		for _, k := range l.xk {
			tx.XuperSign.PublicKeys = append(tx.XuperSign.PublicKeys, []byte(acct(k).PubJSON))
		}
		if len(l.xsg) > 0 {
			tx.XuperSign.Signature, err = sxAggregate(l, d)
			if err != nil {
				return nil, err
			}
		}
	}
	tx.Txid, err = txhash.MakeTransactionID(tx)
	return tx, err
}

// sxAggregate: the signature in the XuperSign slot.  The slot takes a "unified" signature whose own type field selects
// the scheme it is verified with: m a multi-signature made by all the keys xsg together, e / v a plain ECDSA
// signature of ONE key (raw / wrapped), s a Schnorr signature of one key, r a Schnorr ring signature made by one key
// with the other listed public keys as the ring (it shows that SOME member of the ring signed).
func sxAggregate(l sxLine, d []byte) ([]byte, error) {
	c := xvlib.Crypto()
	first := acct(l.xsg[0]).Pri
	switch l.xst {
	case "e":
		return c.SignECDSA(first, d)
	case "v":
		return csign.SignV2ECDSA(first, d)
	case "s":
		return schnorr_sign.Sign(first, d)
	case "r":
		var ring []*ecdsa.PublicKey
		for _, k := range l.xk {
			if k != l.xsg[0] {
				ring = append(ring, acct(k).Pub)
			}
		}
		return schnorr_ring_sign.Sign(ring, first, d)
	}
	keys := make([]*ecdsa.PrivateKey, 0, len(l.xsg))
	for _, k := range l.xsg {
		keys = append(keys, acct(k).Pri)
	}
	return c.MultiSign(keys, d)
}

// ---------------------------------------------------------------- the property, evaluated on the line

// sxSigners: the keys that have a VALID signature of this transaction in it.
func sxSigners(l sxLine) map[int]bool {
	signed := map[int]bool{}
	if l.form == "c" {
		for _, e := range append(append([]string{}, l.isg...), l.asg...) {
			if !strings.HasSuffix(e, "x") {
				signed[int(atoi(e))] = true
			}
		}
		return signed
	}
	switch {
	case l.xst == "m":
		// a multi-signature is a signature of every key that took part, valid under exactly that list of keys
		if len(l.xk) > 1 && fmt.Sprint(l.xk) == fmt.Sprint(l.xsg) {
			for _, k := range l.xk {
				signed[k] = true
			}
		}
	case len(l.xsg) == 1:
		// one key signed (a ring signature, too, is the signature of one key); it counts if that key is listed
		for _, k := range l.xk {
			if k == l.xsg[0] {
				signed[k] = true
			}
		}
	}
	return signed
}

// sxVerdict: "" = no clause of the property refuses this transaction; otherwise the first clause that does.
// An account is controlled by the signers iff its rule exists and the key it names signed (that is the most the rule
// can grant; which uris must be listed for the evaluation to see it is C11's business, not judged here).
func sxVerdict(l sxLine) string {
	signed := sxSigners(l)
	num := func(t string) int { return int(atoi(t[1:])) }
	controls := func(acctTok string) bool {
		n := num(acctTok)
		for sxSub(n) >= 0 {
			n = sxSub(n) // a rule that names a sub-account grants what that account's rule grants
		}
		return n < sxRuled && signed[n]
	}
	ruled := func(n int) bool { return n < sxRuled || n >= sxAccts }
	if l.init[0] == 'A' {
		if !signed[num(l.init)] {
			return "initiator-not-signed"
		}
	} else if ruled(num(l.init)) && !controls(l.init) {
		// (a name without stored rule is open to everybody: documented behaviour of IdentifyAccount, see C11; what such
		// a name owns cannot be spent, below)
		return "initiator-account-rule-not-satisfied"
	}
	for _, u := range l.auth {
		if !signed[num(u[strings.LastIndex(u, "A"):])] {
			return "listed-signer-not-signed"
		}
	}
	for _, o := range l.in {
		switch {
		case o[0] == 'A' && !signed[num(o)]:
			return "owner-not-signed:address"
		case o[0] == 'C' && !ruled(num(o)):
			return "owner-account-without-rule"
		case o[0] == 'C' && !controls(o):
			return "owner-not-signed:account"
		}
	}
	switch l.act[0] {
	case 'G':
		if !signed[3] && !signed[2] {
			return "method-rule-not-satisfied"
		}
	case 'S':
		if !controls(l.act[2:]) {
			return "acl-change-not-by-owner:account"
		}
	case 'M':
		if l.act[3] == '3' {
			return "acl-change-not-by-owner:method-without-owner-entry"
		}
		if !controls("C" + l.act[3:]) {
			return "acl-change-not-by-owner:method"
		}
	}
	return ""
}

// sxCanonical: the transaction is built the way an honest client builds it (so the code must accept it): every
// listed signer signs in its own slot, every account that is needed is named by a uri <account>/<its key>.
func sxCanonical(l sxLine) bool {
	if sxVerdict(l) != "" {
		return false
	}
	num := func(t string) int { return int(atoi(t[1:])) }
	listed := map[string]bool{}
	var lastKeys []int
	seen := map[int]bool{}
	for _, u := range l.auth {
		listed[u] = true
		k := num(u[strings.LastIndex(u, "A"):])
		listed["A"+strconv.Itoa(k)] = true
		if !seen[k] {
			seen[k] = true
			lastKeys = append(lastKeys, k)
		}
	}
	if l.form == "c" {
		if len(l.asg) != len(l.auth) {
			return false
		}
		for i, u := range l.auth {
			if l.asg[i] != strconv.Itoa(num(u[strings.LastIndex(u, "A"):])) {
				return false
			}
		}
		if l.init[0] == 'A' {
			if len(l.isg) != 1 || l.isg[0] != l.init[1:] {
				return false
			}
			listed[l.init] = true
		} else if len(l.isg) != 1 || l.isg[0] != l.init[1:] {
			return false
		}
	} else {
		if l.init[0] != 'A' {
			return false // the aggregated form has no way to sign for an account initiator
		}
		want := []int{num(l.init)}
		for _, k := range lastKeys {
			if k != num(l.init) {
				want = append(want, k)
			}
		}
		if fmt.Sprint(want) != fmt.Sprint(l.xk) || fmt.Sprint(want) != fmt.Sprint(l.xsg) || (len(want) > 1) != (l.xst == "m") || l.xst == "r" {
			return false
		}
		listed[l.init] = true
	}
	need := func(a string) bool {
		uri, n := a, num(a)
		for sxSub(n) >= 0 {
			n = sxSub(n)
			uri += "|C" + strconv.Itoa(n)
		}
		return listed[uri+"|A"+strconv.Itoa(n)]
	}
	for _, o := range l.in {
		if (o[0] == 'A' && !listed[o]) || (o[0] == 'C' && !need(o)) {
			return false
		}
	}
	switch l.act[0] {
	case 'G':
		return l.init == "A3" || (listed["A3"] && func() bool {
			for _, u := range l.auth {
				if u == "A3" {
					return true
				}
			}
			return false
		}()) || need("C2")
	case 'S':
		return need(l.act[2:])
	case 'M':
		return need("C" + l.act[3:])
	}
	return true
}

func judgeSx(line string, l sxLine, ok bool, verr error, admitted bool) {
	why := sxVerdict(l)
	impl := []string{fmt.Sprintf("State.VerifyTx = (%v, %v)", ok, verr), fmt.Sprintf("Chain.SubmitTx admitted = %v", admitted)}
	desc := map[string]string{
		"initiator-not-signed":                               "the initiator has no valid signature in it",
		"initiator-account-rule-not-satisfied":               "its initiator is an account whose rule the keys that signed do not satisfy",
		"listed-signer-not-signed":                           "a listed signer has no valid signature in it",
		"owner-not-signed:address":                           "it spends an output of an address that did not sign",
		"owner-not-signed:account":                           "it spends an output of an account whose rule the keys that signed do not satisfy",
		"owner-account-without-rule":                         "it spends an output of an account name that has no rule",
		"method-rule-not-satisfied":                          "it calls a method whose rule the keys that signed do not satisfy",
		"acl-change-not-by-owner:account":                    "it invokes a change of the rule of an account whose rule the keys that signed do not satisfy",
		"acl-change-not-by-owner:method":                     "it invokes a change of a method rule of a contract whose owning account's rule the keys that signed do not satisfy",
		"acl-change-not-by-owner:method-without-owner-entry": "it invokes a change of a method rule of a contract that has no owning account",
	}[why]
	switch {
	case ok && why != "":
		out.Violate(xvlib.Violation{Key: "sx-accepted:" + why, What: "State.VerifyTx accepts a transaction although " + desc + " (all other signatures are valid, txid computed)", Ops: []string{line}, Impl: impl})
	case admitted && why != "":
		out.Violate(xvlib.Violation{Key: "sx-admitted:" + why, What: "Chain.SubmitTx admits a transaction into the pool although " + desc + "; State.VerifyTx had refused it", Ops: []string{line}, Impl: impl})
	case admitted && !ok:
		out.Violate(xvlib.Violation{Key: "admitted-although-verification-refused", What: "Chain.SubmitTx admits a transaction that State.VerifyTx refuses", Ops: []string{line}, Impl: impl})
	}
	if !ok && verr == nil {
		// Chain.SubmitTx (kernel/engines/xuperos/chain.go) consults only the error of VerifyTx before it calls DoTx
		out.Violate(xvlib.Violation{Key: "refused-without-error", What: "VerifyTx refuses the transaction (false) but returns no error; Chain.SubmitTx checks only the error and admits it", Ops: []string{line}, Impl: impl})
	}
	if l.fault != "" {
		// the property does not change with the health of the storage: what it refuses above it refuses here; whether an
		// authorised transaction gets through while a record it relies on is unreadable is not its business
		out.Count("sxf-under-fault:" + map[bool]string{true: "authorised", false: "unauthorised"}[why == ""] + ":" + map[bool]string{true: "accept", false: "reject"}[ok])
	}
	if sxCanonical(l) {
		out.Count("sx-honestly-built:" + map[bool]string{true: "accept", false: "reject"}[ok])
	}
	if !ok && sxCanonical(l) && l.fault == "" {
		out.Violate(xvlib.Violation{Key: "signed-tx-rejected", What: "a correctly signed and authorised transaction is rejected by VerifyTx", Ops: []string{line}, Impl: impl})
	}
	switch {
	case why == "" && ok:
		out.Count("sx-authorised:accept")
	case why == "":
		out.Count("sx-authorised-but-not-as-the-code-wants-it:reject")
	case !ok && !admitted:
		out.Count("sx-unauthorised:" + strings.SplitN(why, ":", 2)[0] + ":reject")
	}
}

// ---------------------------------------------------------------- executor

func execSx(line string, oracle bool) string {
	l, good := parseSx(line)
	if !good {
		return "bad-op"
	}
	im := getSxImage(l.ch)
	ch := xuperos.VerifNewChain(im.n.Ctx) // a fresh admission entry: its duplicate filter knows no transaction
	tx, err := buildSx(im, ch, l)
	if err != nil {
		if os.Getenv("XV_DEBUG") != "" {
			fmt.Fprintf(os.Stderr, "sx: no transaction for %q: %v\n", line, err)
		}
		return "no-tx"
	}
	hits := 0
	if l.fault != "" {
		// the row of one record of the state database cannot be read (an error that is NOT "not found") from here on,
		// whoever asks: tip snapshot reader of the acl manager, the sandbox of the re-execution, the commit
		bucket, key, _ := sxFaultRow(strings.TrimPrefix(l.fault, "io:"))
		raw := pb.ExtUtxoTablePrefix + bucket + "/" + key
		store := im.n.StatePath()
		kvmem.SetReadFault(func(st, k string) error {
			if st == store && k == raw {
				hits++
				return errors.New("verifmem: injected read error (input/output error)")
			}
			return nil
		})
		defer kvmem.SetReadFault(nil)
	}
	ok, verr := im.n.S.VerifyTx(tx)
	serr := ch.SubmitTx(&xctx.BaseCtx{XLog: im.n.Ctx.XLog}, tx)
	kvmem.SetReadFault(nil)
	pending, _ := im.n.S.HasTx(tx.Txid)
	if serr != nil && !pending {
		// a refused transaction is sent again to the same entry (which remembers the ids it has seen): still no
		serr = ch.SubmitTx(&xctx.BaseCtx{XLog: im.n.Ctx.XLog}, tx)
		pending, _ = im.n.S.HasTx(tx.Txid)
	}
	if l.fault != "" {
		out.Count("sxf-fault-" + map[bool]string{true: "hit", false: "never-consulted"}[hits > 0])
	}
	admitted := serr == nil || pending
	// leave the chain as it was
	clean := true
	if pending {
		if _, _, err := im.n.S.RollBackUnconfirmedTx(); err != nil {
			clean = false
		}
	}
	if txs, err := im.n.S.GetUnconfirmedTx(false); err != nil || len(txs) != 0 {
		clean = false
	}
	if !clean {
		dropSxImage(l.ch)
	}
	if oracle {
		judgeSx(line, l, ok, verr, admitted)
	}
	if l.ext {
		out.Count("sxf:" + map[bool]string{true: "accept", false: "reject"}[ok])
		return "-" // nested accounts and read faults: judged by the oracle on the line's content, not modelled
	}
	res := "verify=reject"
	if ok {
		res = "verify=accept"
	}
	if admitted {
		return res + " pool=in"
	}
	return res + " pool=out"
}

// ---------------------------------------------------------------- generator

func sxLastKey(u string) int { return int(atoi(u[strings.LastIndex(u, "A")+1:])) }

// sxSigned: the signing part of a line, every listed signer signing in its own slot.  iv selects, for an account
// initiator, who signs for it: 0 the key its rule names, 1 a stranger (key 5), 2 both (classic form); aggregated
// form: 0 the listed signers only, 1 the key its rule names in the initiator's place.
func sxSigned(form, init string, auth []string, iv int) (l sxLine, ok bool) {
	l = sxLine{cls: "nat", ch: "p", ver: 3, form: form, init: init, auth: auth, act: "T", xst: "m"}
	n := int(atoi(init[1:]))
	var last []int
	seen := map[int]bool{}
	for _, u := range auth {
		if k := sxLastKey(u); !seen[k] {
			seen[k] = true
			last = append(last, k)
		}
	}
	if form == "c" {
		for _, u := range auth {
			l.asg = append(l.asg, strconv.Itoa(sxLastKey(u)))
		}
		switch {
		case init[0] == 'A':
			if iv > 0 {
				return l, false
			}
			l.isg = []string{strconv.Itoa(n)}
		case iv == 0:
			l.isg = []string{strconv.Itoa(n)}
		case iv == 1:
			l.isg = []string{"5"}
		default:
			l.isg = []string{strconv.Itoa(n), "5"}
		}
		return l, true
	}
	switch {
	case init[0] == 'A' && iv > 0, iv > 1:
		return l, false
	case init[0] == 'A' || iv == 1:
		l.xk = []int{n}
		for _, k := range last {
			if k != n {
				l.xk = append(l.xk, k)
			}
		}
	default:
		l.xk = last
	}
	l.xsg = append([]int{}, l.xk...)
	if len(l.xk) == 1 {
		l.xst = "e" // one signer: its plain signature in the slot
	}
	return l, true
}

func genSx(thorough bool, rng *xvlib.Rng, run func(string, bool)) {
	inits := []string{"A0", "A1", "C1", "C2", "C4"}
	auths := [][]string{nil, {"A2"}, {"C1|A1"}, {"A2", "C1|A1"}, {"C2|A2"}, {"C1|A2"}, {"C1|A1", "C2|A2"}, {"A1"}, {"C4|A2"}, {"A5", "A6"}, {"A3"}, {"C3|A3"}}
	ins := [][]string{nil, {"A0"}, {"A2"}, {"A5"}, {"C1"}, {"C2"}, {"C4"}, {"C1", "A0"}, {"A1", "C2"}, {"C1", "C1"}}
	acts := []string{"T", "K", "S:C1", "S:C2", "N:C5", "M:c1", "M:c2", "M:c3", "G"}
	var signed []sxLine
	for _, form := range []string{"c", "x"} {
		for _, init := range inits {
			for _, auth := range auths {
				for iv := 0; iv < 3; iv++ {
					if l, ok := sxSigned(form, init, auth, iv); ok {
						signed = append(signed, l)
					}
				}
			}
		}
	}
	emit := func(l sxLine) { run(l.String(), true) }
	n := 0
	for _, s := range signed {
		// 1. nothing is wrong with the signatures: is the authorisation sufficient?
		for ii, in := range ins {
			for ai, act := range acts {
				if !(thorough || ai == 0 || ii == 0 || ii == 1 || ii == 4 || rng.Intn(8) == 0) {
					continue
				}
				l := s
				l.in, l.act = in, act
				emit(l)
				if n < 2 && l.form == "x" && l.init == "C1" && len(in) > 0 && in[0] == "C1" {
					out.Sample(map[string]string{"op": l.String(), "impl": func() (r string) {
						defer func() {
							if recover() != nil {
								r = "panic"
							}
						}()
						return execC07(l.String(), false)
					}()})
					n++
				}
			}
		}
		// 2. one signature is not what it should be
		own := []string{"A5"}
		if s.init[0] == 'A' {
			own = []string{s.init}
		} else if int(atoi(s.init[1:])) < sxRuled {
			own = []string{s.init}
		}
		var faults []sxLine
		add := func(cls string, f func(l *sxLine)) {
			l := s
			l.isg, l.asg, l.xk, l.xsg = append([]string{}, s.isg...), append([]string{}, s.asg...), append([]int{}, s.xk...), append([]int{}, s.xsg...)
			l.cls = "fault:" + cls
			f(&l)
			faults = append(faults, l)
		}
		if s.form == "c" {
			for i := range s.isg {
				i := i
				add("initiator-entry-spoiled", func(l *sxLine) { l.isg[i] += "x" })
				add("initiator-entry-by-other-key", func(l *sxLine) { l.isg[i] = "6" })
			}
			add("initiator-entries-dropped", func(l *sxLine) { l.isg = nil })
			for i := range s.asg {
				i := i
				add("signer-entry-spoiled", func(l *sxLine) { l.asg[i] += "x" })
				add("signer-entry-by-other-key", func(l *sxLine) { l.asg[i] = "6" })
			}
			if len(s.asg) > 0 {
				add("signer-entry-dropped", func(l *sxLine) { l.asg = l.asg[1:] })
			}
		} else {
			multi := func(l *sxLine) bool {
				// keep the line buildable: one key signs plainly, several sign together
				switch len(l.xsg) {
				case 0:
					l.xst = "m"
				case 1:
					l.xst = "e"
				default:
					l.xst = "m"
				}
				return true
			}
			add("aggregate-by-other-keys", func(l *sxLine) {
				if len(l.xsg) == 0 {
					l.xsg = []int{6}
				} else {
					l.xsg[0] = 6
				}
				multi(l)
			})
			add("aggregate-missing", func(l *sxLine) { l.xsg = nil; multi(l) })
			add("aggregate-with-one-more-key", func(l *sxLine) { l.xk = append(l.xk, 6); l.xsg = append(l.xsg, 6); multi(l) })
			if len(s.xk) > 0 {
				add("aggregate-first-key-replaced", func(l *sxLine) { l.xk[0] = 6; l.xsg[0] = 6 })
				add("aggregate-without-first-key", func(l *sxLine) { l.xk = l.xk[1:]; l.xsg = l.xsg[1:]; multi(l) })
				add("aggregate-key-listed-but-not-signing", func(l *sxLine) { l.xsg = l.xsg[1:]; multi(l) })
			}
			// the slot takes a signature of any scheme: one key signs alone, all listed addresses ride along
			if len(s.xk) > 1 {
				lastK := s.xk[len(s.xk)-1]
				for _, st := range []string{"e", "v", "s"} {
					st := st
					add("scheme:"+st+":first-key-alone", func(l *sxLine) { l.xst, l.xsg = st, []int{l.xk[0]} })
					add("scheme:"+st+":last-key-alone", func(l *sxLine) { l.xst, l.xsg = st, []int{lastK} })
				}
				if len(s.xk) > 2 {
					add("scheme:r:first-key-alone", func(l *sxLine) { l.xst, l.xsg = "r", []int{l.xk[0]} })
					add("scheme:r:last-key-alone", func(l *sxLine) { l.xst, l.xsg = "r", []int{lastK} })
					add("scheme:r:outsider-alone", func(l *sxLine) { l.xst, l.xsg = "r", []int{7} })
				}
			}
		}
		for _, f := range faults {
			for _, in := range [][]string{own, nil} {
				for _, act := range []string{"T", "S:C1"} {
					if (len(in) == 0) == (act == "T") {
						continue
					}
					l := f
					l.in, l.act = in, act
					emit(l)
				}
			}
			if strings.HasPrefix(f.cls, "fault:scheme:") {
				// what a listed signer that did not take part owns, directly and through its account
				k := f.xk[len(f.xk)-1]
				if f.xsg[0] == k {
					k = f.xk[0]
				}
				l := f
				l.in = []string{"A" + strconv.Itoa(k)}
				emit(l)
				if k < sxRuled {
					l.in = []string{"C" + strconv.Itoa(k)}
					emit(l)
				}
			}
		}
		// 3. the same on a chain whose funding transaction the operator has marked, and under version 1
		for _, v := range []struct {
			ch  string
			ver int32
		}{{"m", 3}, {"p", 1}, {"m", 1}} {
			if v.ch == "m" && v.ver == 1 && !thorough {
				continue
			}
			for _, in := range [][]string{{"A5"}, own, {"C1"}, {"C2", "A0"}} {
				for _, act := range []string{"T", "S:C2", "M:c1"} {
					if !thorough && act != "T" && rng.Intn(3) != 0 {
						continue
					}
					l := s
					l.cls, l.ch, l.ver, l.in, l.act = "nat:"+v.ch+strconv.Itoa(int(v.ver)), v.ch, v.ver, in, act
					emit(l)
				}
			}
			for _, f := range faults {
				if thorough || rng.Intn(4) == 0 {
					l := f
					l.ch, l.ver, l.in = v.ch, v.ver, own
					emit(l)
				}
			}
		}
	}
}

// genSxf: accounts controlled through SUB-ACCOUNTS (uris of depth 3 and 4) and the storage failing to read ONE record
// (the rule of an account on the path, of the owner, of the called method, the owner entry of a contract) while the node
// decides.  Who signs: the key the innermost rule names (authorised) or a stranger that only puts itself at the end of
// the path; every record on the path and beside it is made unreadable in turn.
func genSxf(thorough bool, rng *xvlib.Rng, run func(string, bool)) {
	type who struct {
		key  int
		path string // the uri up to the key
	}
	paths := map[string][]string{"C1": {"C1"}, "C2": {"C2"}, "C6": {"C6|C1", "C6"}, "C7": {"C7|C6|C1", "C7|C6", "C7|C1", "C7"}}
	faults := []string{"", "io:C1", "io:C2", "io:C6", "io:C7", "io:G", "io:O1", "io:C0"}
	emit := func(l sxLine) { l.ext = true; run(l.String(), true) }
	for _, ver := range []int32{3, 1} {
		for _, ch := range []string{"p", "m"} {
			if ch == "m" && ver == 1 && !thorough {
				continue
			}
			for _, own := range []string{"C6", "C7", "C1", "C2"} {
				for _, pth := range paths[own] {
					for _, k := range []int{1, 5, 2} {
						for _, ft := range faults {
							base := sxLine{cls: "nested", ch: ch, ver: ver, form: "c", init: "A" + strconv.Itoa(k), isg: []string{strconv.Itoa(k)},
								auth: []string{pth + "|A" + strconv.Itoa(k)}, asg: []string{strconv.Itoa(k)}, xst: "m", act: "T", fault: ft}
							// the account's tokens, its rule, a method rule of a contract it owns, the guarded method
							l := base
							l.in = []string{own}
							emit(l)
							if ch == "m" && !thorough && rng.Intn(3) != 0 {
								continue
							}
							l = base
							l.act = "S:" + own
							emit(l)
							l = base
							l.init, l.in = own, []string{own} // the account itself initiates
							emit(l)
							if own == "C1" || own == "C2" {
								l = base
								l.act = "M:c" + own[1:]
								emit(l)
								l = base
								l.act = "G"
								emit(l)
							}
						}
					}
				}
			}
			// the aggregated form with a nested path
			for _, ft := range faults {
				for _, k := range []int{1, 5} {
					l := sxLine{cls: "nested:x", ch: ch, ver: ver, form: "x", init: "A" + strconv.Itoa(k), auth: []string{"C6|C1|A" + strconv.Itoa(k)},
						xk: []int{k}, xsg: []int{k}, xst: "e", in: []string{"C6"}, act: "T", fault: ft}
					emit(l)
				}
			}
		}
	}
}
