package main

// Stub ledger / block / network used to instantiate the real consensus plugins
// through their public constructors.  Unlike kernel/consensus/mock.FakeLedger the
// stub ledger reports an error for unknown blocks (the mock returns a typed nil).

import (
	"errors"
	"fmt"

	xctx "github.com/xuperchain/xupercore/kernel/common/xcontext"
	"github.com/xuperchain/xupercore/kernel/contract"
	"github.com/xuperchain/xupercore/kernel/ledger"
	nctx "github.com/xuperchain/xupercore/kernel/network/context"
	"github.com/xuperchain/xupercore/kernel/network/p2p"
	pb "github.com/xuperchain/xupercore/protos"
)

var errNotFound = errors.New("block not found")

type blk struct {
	proposer string
	height   int64
	id       []byte
	madeID   []byte // what MakeBlockId recomputes (nil: same as id)
	storage  []byte
	ts       int64
	pub      string
	sign     []byte
	pre      []byte
}

func (b *blk) GetProposer() []byte                  { return []byte(b.proposer) }
func (b *blk) GetHeight() int64                     { return b.height }
func (b *blk) GetBlockid() []byte                   { return b.id }
func (b *blk) GetConsensusStorage() ([]byte, error) { return b.storage, nil }
func (b *blk) GetTimestamp() int64                  { return b.ts }
func (b *blk) SetItem(string, interface{}) error    { return errors.New("immutable") }
func (b *blk) GetPreHash() []byte                   { return b.pre }
func (b *blk) GetNextHash() []byte                  { return nil }
func (b *blk) GetPublicKey() string                 { return b.pub }
func (b *blk) GetSign() []byte                      { return b.sign }
func (b *blk) GetTxIDs() []string                   { return nil }
func (b *blk) GetInTrunk() bool                     { return true }
func (b *blk) MakeBlockId() ([]byte, error) {
	if b.madeID != nil {
		return b.madeID, nil
	}
	return b.id, nil
}

type stubLedger struct {
	chain []*blk // by height
	byID  map[string]*blk
	snap  map[string][]byte // bucket/key -> value, same for every snapshot
	conf  []byte            // genesis consensus configuration (GetConsensusConf)
	kv    map[string][]byte // contract storage as of the tip (bucket/key -> value), read by the tip reader first
	// per-block snapshots (op tdel): the contract state as of block h, and injected storage faults
	// (op = "snapshot" for CreateSnapshot, "get" for a read through a snapshot reader)
	state func(h int64, bucket, key string) ([]byte, bool)
	fault func(op, bucket, key string) error
}

func newStubLedger() *stubLedger {
	return &stubLedger{byID: map[string]*blk{}, snap: map[string][]byte{}}
}

func (l *stubLedger) put(b *blk) {
	l.chain = append(l.chain, b)
	l.byID[string(b.id)] = b
}

// putSide stores a block that is not on the main chain: found by id, never by height
func (l *stubLedger) putSide(b *blk) { l.byID[string(b.id)] = b }

func (l *stubLedger) GetConsensusConf() ([]byte, error) { return l.conf, nil }
func (l *stubLedger) QueryBlock(id []byte) (ledger.BlockHandle, error) {
	if b, ok := l.byID[string(id)]; ok {
		return b, nil
	}
	return nil, errNotFound
}
func (l *stubLedger) QueryBlockByHeight(h int64) (ledger.BlockHandle, error) {
	if h < 0 || h >= int64(len(l.chain)) {
		return nil, errNotFound
	}
	return l.chain[h], nil
}
func (l *stubLedger) GetTipBlock() ledger.BlockHandle { return l.chain[len(l.chain)-1] }
func (l *stubLedger) GetTipXMSnapshotReader() (ledger.XMSnapshotReader, error) {
	return tipReader{l}, nil
}
func (l *stubLedger) CreateSnapshot(id []byte) (ledger.XMReader, error) {
	b, ok := l.byID[string(id)]
	if !ok {
		return nil, errNotFound
	}
	if l.fault != nil {
		if err := l.fault("snapshot", "", ""); err != nil {
			return nil, err
		}
	}
	return snapReader{l, b.height}, nil
}
func (l *stubLedger) GetTipSnapshot() (ledger.XMReader, error) {
	return snapReader{l, int64(len(l.chain) - 1)}, nil
}

type tipReader struct{ l *stubLedger }

func (r tipReader) Get(bucket string, key []byte) ([]byte, error) {
	if v, ok := r.l.kv[bucket+"/"+string(key)]; ok {
		return v, nil
	}
	return r.l.snap[bucket+"/"+string(key)], nil
}

type snapReader struct {
	l *stubLedger
	h int64
}

func (r snapReader) Get(bucket string, key []byte) (*ledger.VersionedData, error) {
	if r.l.fault != nil {
		if err := r.l.fault("get", bucket, string(key)); err != nil {
			return nil, err
		}
	}
	v, ok := r.l.snap[bucket+"/"+string(key)]
	if r.l.state != nil {
		v, ok = r.l.state(r.h, bucket, string(key))
	}
	if !ok {
		return nil, nil
	}
	return &ledger.VersionedData{PureData: &ledger.PureData{Bucket: bucket, Key: key, Value: v}}, nil
}
func (r snapReader) Select(string, []byte, []byte) (ledger.XMIterator, error) {
	return nil, fmt.Errorf("not supported")
}

// ---- network stub (the plugins only ask for PeerInfo().Account without bft)

type stubNet struct{ account string }

func (n *stubNet) Start() {}
func (n *stubNet) Stop()  {}
func (n *stubNet) SendMessage(xctx.XContext, *pb.XuperMessage, ...p2p.OptionFunc) error {
	return nil
}
func (n *stubNet) SendMessageWithResponse(xctx.XContext, *pb.XuperMessage, ...p2p.OptionFunc) ([]*pb.XuperMessage, error) {
	return nil, nil
}
func (n *stubNet) NewSubscriber(pb.XuperMessage_MessageType, interface{}, ...p2p.SubscriberOption) p2p.Subscriber {
	return nil
}
func (n *stubNet) Register(p2p.Subscriber) error   { return nil }
func (n *stubNet) UnRegister(p2p.Subscriber) error { return nil }
func (n *stubNet) Context() *nctx.NetCtx           { return nil }
func (n *stubNet) PeerInfo() pb.PeerInfo           { return pb.PeerInfo{Account: n.account} }

// ---- contract manager stub (kernel method registration is a no-op)

type stubMgr struct{}

func (stubMgr) NewContext(*contract.ContextConfig) (contract.Context, error) { return nil, nil }
func (stubMgr) NewStateSandbox(*contract.SandboxConfig) (contract.StateSandbox, error) {
	return nil, nil
}
func (stubMgr) GetKernRegistry() contract.KernRegistry { return stubReg{} }

type stubReg struct{}

func (stubReg) RegisterKernMethod(string, string, contract.KernMethod) {}
func (stubReg) RegisterShortcut(string, string, string)                {}
func (stubReg) GetKernMethod(string, string) (contract.KernMethod, error) {
	return nil, errors.New("none")
}
