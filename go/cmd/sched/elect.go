package main

// Op `tdel`: tdpos vote-based election of the proposers of a term and the producer check built on it.
//
//	tdel <pn> <bn> <start> <init> <terms> <snaps> <fault> <h> <term> <pos> <bp> <prop>   -> accept | reject | panic
//
//	pn, bn   proposer_num, block_num (period = alternate_interval = term_interval = 1000 ms)
//	start    StartHeight of the tdpos instance (>= 1)
//	init     configured initial proposers, e.g. 0,1 (address tokens)
//	terms    curTerm stored in ledger blocks 0..tip, e.g. 0,1,1,2 (0 below start; block h takes the next free slot of its term)
//	snaps    `-` or E@rec/E@rec...: from the post-state of block E on the contract state holds the election record rec
//	         (later entries win).  rec = `!` nominate record that does not decode | `~` empty nominate record |
//	         c=v;c=v...: candidates c with vote record v = `-` none | `!` does not decode | a+b+... ballots by voter
//	fault    `-` | n: reading the nominate key fails | v<c>: reading the vote key of candidate c fails | s: CreateSnapshot fails
//	         (injected into the stub ledger's snapshot reader for the duration of the check)
//	h        height of the candidate block (its timestamp lies in slot (term, pos, bp) of the schedule)
//	prop     proposer: address token, 99 = outsider
//
// Address tokens 0..7 name eight accounts in the order of their address strings (ties in the ballot count are
// broken by address).

import (
	"encoding/json"
	"errors"
	"fmt"
	"sort"
	"strconv"
	"strings"

	"github.com/xuperchain/xupercore/bcs/consensus/tdpos"
	"github.com/xuperchain/xupercore/kernel/consensus/base"
	"github.com/xuperchain/xupercore/kernel/consensus/def"
	"xv/xvlib"
)

const (
	elPoolBase = 50
	elPoolSize = 8
	elInitMs   = int64(1600000000000)
	elPeriod   = int64(1000)
)

var elPool []int // address token -> account number

func elAcct(tok int) *xvlib.Account {
	if elPool == nil {
		for i := 0; i < elPoolSize; i++ {
			elPool = append(elPool, elPoolBase+i)
		}
		sort.Slice(elPool, func(i, j int) bool { return acct(elPool[i]).Address < acct(elPool[j]).Address })
	}
	if tok == 99 {
		return acct(outsider)
	}
	return acct(elPool[tok])
}

type vRec struct {
	kind    byte // '-' absent, '!' corrupt, 'b' ballots
	ballots []int64
}

type nRec struct {
	kind  byte // '!' corrupt, 'c' candidates
	cands []int
	votes map[int]vRec
}

type elSnap struct {
	e   int64
	rec nRec
}

func parseNatList(s string, max int64) []int64 {
	var r []int64
	for _, t := range strings.Split(s, ",") {
		v := atoi(t)
		if v < 0 || v > max {
			panic("bad-list")
		}
		r = append(r, v)
	}
	return r
}

func parseSnaps(s string) []elSnap {
	if s == "-" {
		return nil
	}
	var res []elSnap
	for _, ent := range strings.Split(s, "/") {
		p := strings.Split(ent, "@")
		if len(p) != 2 {
			panic("bad-snap")
		}
		sn := elSnap{e: atoi(p[0])}
		if sn.e < 0 {
			panic("bad-snap")
		}
		switch p[1] {
		case "!":
			sn.rec = nRec{kind: '!'}
		case "~":
			sn.rec = nRec{kind: 'c', votes: map[int]vRec{}}
		default:
			sn.rec = nRec{kind: 'c', votes: map[int]vRec{}}
			for _, cv := range strings.Split(p[1], ";") {
				q := strings.Split(cv, "=")
				if len(q) != 2 {
					panic("bad-cand")
				}
				c := int(atoi(q[0]))
				if _, dup := sn.rec.votes[c]; dup || c < 0 || c >= elPoolSize {
					panic("bad-cand")
				}
				var v vRec
				switch q[1] {
				case "-":
					v.kind = '-'
				case "!":
					v.kind = '!'
				default:
					v.kind = 'b'
					for _, b := range strings.Split(q[1], "+") {
						x := atoi(b)
						if x > 1<<40 || x < -(1<<40) {
							panic("bad-ballot")
						}
						v.ballots = append(v.ballots, x)
					}
				}
				sn.rec.cands = append(sn.rec.cands, c)
				sn.rec.votes[c] = v
			}
		}
		res = append(res, sn)
	}
	return res
}

// recAt: the record visible in the snapshot of block h (nil: none)
func recAt(snaps []elSnap, h int64) *nRec {
	var r *nRec
	for i := range snaps {
		if snaps[i].e <= h {
			r = &snaps[i].rec
		}
	}
	return r
}

var errInjected = errors.New("injected fault: query tx fail")

const (
	elBucket   = "$tdpos"
	elNominate = "tdpos_0_nominate"
	elVotePfx  = "tdpos_0_vote_"
)

// elState: the contract state of the snapshot of block h as bytes
func elState(snaps []elSnap) func(h int64, bucket, key string) ([]byte, bool) {
	return func(h int64, bucket, key string) ([]byte, bool) {
		if bucket != elBucket {
			return nil, false
		}
		r := recAt(snaps, h)
		if r == nil {
			return nil, false
		}
		if key == elNominate {
			if r.kind == '!' {
				return []byte("{not json"), true
			}
			m := map[string]map[string]int64{}
			for _, c := range r.cands {
				m[elAcct(c).Address] = map[string]int64{elAcct(c).Address: 1}
			}
			v, _ := json.Marshal(m)
			return v, true
		}
		if r.kind != 'c' {
			return nil, false
		}
		for _, c := range r.cands {
			if key == elVotePfx+elAcct(c).Address {
				v := r.votes[c]
				switch v.kind {
				case '-':
					return nil, false
				case '!':
					return []byte("[1,2"), true
				}
				m := map[string]int64{}
				for i, b := range v.ballots {
					m[fmt.Sprintf("voter%d", i)] = b
				}
				js, _ := json.Marshal(m)
				return js, true
			}
		}
		return nil, false
	}
}

func elFault(f string) func(op, bucket, key string) error {
	return func(op, bucket, key string) error {
		switch {
		case f == "s" && op == "snapshot":
			return errInjected
		case f == "n" && op == "get" && bucket == elBucket && key == elNominate:
			return errInjected
		case strings.HasPrefix(f, "v") && op == "get" && bucket == elBucket:
			c, err := strconv.Atoi(f[1:])
			if err == nil && c >= 0 && c < elPoolSize && key == elVotePfx+elAcct(c).Address {
				return errInjected
			}
		}
		return nil
	}
}

// elTs: a timestamp (ns) in the middle of slot (term, pos, bp)
func elTs(pn, bn, term, pos, bp int64) int64 {
	termTime := pn * bn * elPeriod
	return (elInitMs + (term-1)*termTime + pos*bn*elPeriod + bp*elPeriod + elPeriod/2) * 1000000
}

func elTermsOK(start, slots int64, terms []int64) bool {
	cnt := map[int64]int64{}
	for h, t := range terms {
		if int64(h) < start {
			if t != 0 {
				return false
			}
			continue
		}
		if t < 1 || (int64(h) > start && t < terms[h-1]) {
			return false
		}
		cnt[t]++
		if cnt[t] > slots {
			return false
		}
	}
	return true
}

type elInstT struct {
	impl base.ConsensusImplInterface
	l    *stubLedger
}

var elInsts = map[string]*elInstT{}

func elInst(pn, bn, start int64, init, terms []int64) *elInstT {
	key := fmt.Sprintf("%d %d %d %v %v", pn, bn, start, init, terms)
	if i, ok := elInsts[key]; ok {
		return i
	}
	if len(elInsts) > 4000 {
		elInsts = map[string]*elInstT{}
	}
	l := newStubLedger()
	idx := map[int64]int64{}
	for h := int64(0); h < int64(len(terms)); h++ {
		b := &blk{proposer: elAcct(int(init[0])).Address, height: h, id: []byte{byte(h), 0x7}, pre: []byte{byte(h - 1), 0x7}}
		if h >= start {
			t := terms[h]
			slot := idx[t]
			idx[t]++
			b.ts = elTs(pn, bn, t, slot/bn, slot%bn)
			b.storage, _ = json.Marshal(map[string]int64{"curTerm": t, "curBlockNum": slot % bn})
		} else {
			b.ts = (elInitMs - 1000000 + h*1000) * 1000000
			b.storage = []byte("{}")
		}
		l.put(b)
	}
	var vals []string
	for _, v := range init {
		vals = append(vals, elAcct(int(v)).Address)
	}
	ks := func(v int64) string { return strconv.FormatInt(v, 10) }
	cfg := map[string]interface{}{
		"timestamp": ks(elInitMs * 1000000), "proposer_num": ks(pn), "period": ks(elPeriod), "alternate_interval": ks(elPeriod),
		"term_interval": ks(elPeriod), "block_num": ks(bn), "vote_unit_price": "1", "init_proposer": map[string][]string{"1": vals},
	}
	js, _ := json.Marshal(cfg)
	impl := tdpos.NewTdposConsensus(newCtx(l, elPool[0]), def.ConsensusConfig{ConsensusName: "tdpos", Config: string(js), StartHeight: start, Index: 0})
	if impl == nil {
		panic("NewTdposConsensus returned nil for " + key)
	}
	i := &elInstT{impl, l}
	elInsts[key] = i
	return i
}

// ---- the election as the property reads it (independent of schedule.go): the proposers of a term are the
// proposer_num candidates with the most ballots (positive totals only; ties: larger address first) in the
// snapshot the term was opened under; fewer eligible candidates -> the initial proposers.  decodable=false:
// a record needed for the count does not decode, so the chain's own state names nobody.
func elSpec(rec *nRec, init []int64, pn int64) (set []int64, decodable bool) {
	if rec == nil {
		return init, true
	}
	if rec.kind == '!' {
		return nil, false
	}
	type tb struct {
		c int
		n int64
	}
	var el []tb
	for _, c := range rec.cands {
		v := rec.votes[c]
		switch v.kind {
		case '!':
			return nil, false
		case 'b':
			var n int64
			for _, b := range v.ballots {
				n += b
			}
			if n > 0 {
				el = append(el, tb{c, n})
			}
		}
	}
	if int64(len(el)) < pn {
		return init, true
	}
	for len(set) < int(pn) {
		best := 0
		for i := range el {
			if el[i].n > el[best].n || (el[i].n == el[best].n && el[i].c > el[best].c) {
				best = i
			}
		}
		set = append(set, int64(el[best].c))
		el = append(el[:best], el[best+1:]...)
	}
	return set, true
}

func execTdel(line string, w []string) string {
	if len(w) != 13 {
		return "bad-op"
	}
	pn, bn, start := atoi(w[1]), atoi(w[2]), atoi(w[3])
	elAcct(0)
	init := parseNatList(w[4], elPoolSize-1)
	terms := parseNatList(w[5], 1<<30)
	snaps := parseSnaps(w[6])
	fault := w[7]
	h, term, pos, bp, prop := atoi(w[8]), atoi(w[9]), atoi(w[10]), atoi(w[11]), atoi(w[12])
	switch {
	case fault == "-" || fault == "n" || fault == "s":
	case strings.HasPrefix(fault, "v"):
		if c, err := strconv.Atoi(fault[1:]); err != nil || c < 0 {
			return "bad-op"
		}
	default:
		return "bad-op"
	}
	if pn < 1 || pn > 8 || bn < 1 || bn > 8 || start < 1 || int64(len(terms)) < start+1 || len(terms) > 200 || h < 1 || term < 1 || pos < 0 || pos >= pn || bp < 0 || bp >= bn ||
		!elTermsOK(start, pn*bn, terms) || (prop != 99 && (prop < 0 || prop >= elPoolSize)) {
		return "bad-op"
	}
	in := elInst(pn, bn, start, init, terms)
	in.l.state = elState(snaps)
	in.l.fault = elFault(fault)
	defer func() { in.l.state, in.l.fault = nil, nil }()
	tip := int64(len(terms) - 1)
	ts := elTs(pn, bn, term, pos, bp)
	st, _ := json.Marshal(map[string]int64{"curTerm": term, "curBlockNum": bp})
	b := &blk{proposer: elAcct(int(prop)).Address, height: h, id: []byte{0xC, 0x7}, storage: st, ts: ts}
	if h-1 <= tip {
		b.pre = in.l.chain[h-1].id
	}
	ok, _ := in.impl.CheckMinerMatch(bctx, b)
	if ok {
		// property: the proposer is the validator the schedule names at the block's own timestamp among the proposers
		// ELECTED for the block's term by the chain's own state (the true records, whatever the storage did during
		// the check).  Judged when the block extends the tip (it continues the tip's term, opens a later one, or is
		// stamped in an earlier term the ledger holds a block of), or competes with a ledger block of its own term, or
		// lies below start+3 (initial proposers).
		var rec *nRec
		judged, backdated, F := true, false, int64(0)
		switch {
		case h < start+3:
			F = 0
		case h == tip+1 && term == terms[tip], h <= tip && term == terms[h]:
			hh := h
			if hh > tip {
				hh = tip
			}
			for F = hh; F > start && terms[F-1] == terms[hh]; F-- {
			}
		case h == tip+1 && term > terms[tip]:
			F = h
		case h == tip+1 && term < terms[tip]:
			// a block stamped in an EARLIER term than the tip's: the proposers of that term are those it was opened
			// under, if the ledger holds a block of it (otherwise nothing on the chain says who they are: not judged)
			judged = false
			for j := start; j <= tip; j++ {
				if terms[j] == term {
					judged, backdated, F = true, true, j
					break
				}
			}
		default:
			judged = false
		}
		if judged {
			set, decodable := init, true
			if F-1 >= start+3 {
				rec = recAt(snaps, F-4)
				set, decodable = elSpec(rec, init, pn)
			}
			sched := tdCfg{alt: elPeriod, bn: bn, init: elInitMs * 1000000, period: elPeriod, pn: pn, term: elPeriod}
			want, inSlot := sched.spec(ts)
			entitled := decodable && pos < int64(len(set)) && set[pos] == prop
			// known finding: the block's term is over and the code elects anew from the tip instead of looking that term's
			// proposers up.  Only that behaviour - the accepted proposer is the one a fresh election names - goes under the
			// known key, whatever the term's own records are like.
			knownBackdated := false
			if backdated && !entitled {
				fresh, dec := init, true
				if tip >= start+3 {
					fresh, dec = elSpec(recAt(snaps, tip-3), init, pn)
				}
				knownBackdated = dec && pos < int64(len(fresh)) && fresh[pos] == prop
			}
			switch {
			case !inSlot || want != [3]int64{term, pos, bp}:
				out.Violate(xvlib.Violation{Key: "tdpos-accept-outside-slot", What: fmt.Sprintf("tdpos CheckMinerMatch accepted a block whose timestamp %d the schedule maps to %v (in slot: %v), not to (%d,%d,%d)", ts, want, inSlot, term, pos, bp),
					Ops: []string{line}, Impl: []string{"accept"}})
			case entitled:
			case knownBackdated:
				out.Violate(xvlib.Violation{Key: "tdpos-accept-backdated-term", What: fmt.Sprintf("tdpos CheckMinerMatch accepted a block of address #%d stamped in slot (term %d, pos %d) of a term that is over (tip term %d): it is the proposer a fresh election from the tip names, not the one that term was opened with (snapshot of block %d: %v, decodable %v)",
					prop, term, pos, terms[tip], F-4, set, decodable), Ops: []string{line}, Impl: []string{"accept"}})
			case !decodable:
				out.Violate(xvlib.Violation{Key: "tdpos-accept-undecodable-election", What: fmt.Sprintf("tdpos CheckMinerMatch accepted a block of term %d although an election record of the snapshot of block %d, under which the term was opened, does not decode: the chain's state names no proposers", term, F-4),
					Ops: []string{line}, Impl: []string{"accept"}})
			default:
				who := "nobody"
				if pos < int64(len(set)) {
					who = fmt.Sprintf("address #%d", set[pos])
				}
				key := "tdpos-accept-not-elected"
				if fault != "-" {
					key = "tdpos-accept-not-elected-under-read-fault"
				}
				out.Violate(xvlib.Violation{Key: key, What: fmt.Sprintf("tdpos CheckMinerMatch accepted a block of address #%d for slot (term %d, pos %d): the proposers elected for that term (snapshot of block %d, storage fault during the check: %q) are %v, the slot belongs to %s",
					prop, term, pos, F-4, fault, set, who), Ops: []string{line}, Impl: []string{"accept"}})
			}
		}
	}
	return verdict(ok)
}

// ------------------------------------------------------------------ generator

func elRecString(r nRec) string {
	if r.kind == '!' {
		return "!"
	}
	if len(r.cands) == 0 {
		return "~"
	}
	var parts []string
	for _, c := range r.cands {
		v := r.votes[c]
		s := ""
		switch v.kind {
		case '-', '!':
			s = string(v.kind)
		default:
			var bs []string
			for _, b := range v.ballots {
				bs = append(bs, strconv.FormatInt(b, 10))
			}
			s = strings.Join(bs, "+")
		}
		parts = append(parts, fmt.Sprintf("%d=%s", c, s))
	}
	return strings.Join(parts, ";")
}

func elRandRec(rng *xvlib.Rng, pn int) nRec {
	switch rng.Intn(24) {
	case 0:
		return nRec{kind: '!'}
	case 1:
		return nRec{kind: 'c', votes: map[int]vRec{}}
	}
	r := nRec{kind: 'c', votes: map[int]vRec{}}
	n := pn - 1 + rng.Intn(5)
	if n > elPoolSize {
		n = elPoolSize
	}
	perm := []int{0, 1, 2, 3, 4, 5, 6, 7}
	for i := len(perm) - 1; i > 0; i-- {
		j := rng.Intn(i + 1)
		perm[i], perm[j] = perm[j], perm[i]
	}
	vals := []int64{-2, 0, 1, 2, 3, 3, 5, 5, 8}
	for _, c := range perm[:n] {
		var v vRec
		switch x := rng.Intn(50); {
		case x < 6:
			v.kind = '-'
		case x < 8:
			v.kind = '!'
		default:
			v.kind = 'b'
			for k := 0; k <= rng.Intn(2); k++ {
				v.ballots = append(v.ballots, vals[rng.Intn(len(vals))])
			}
		}
		r.cands = append(r.cands, c)
		r.votes[c] = v
	}
	return r
}

func joinInts(v []int64) string {
	var s []string
	for _, x := range v {
		s = append(s, strconv.FormatInt(x, 10))
	}
	return strings.Join(s, ",")
}

// genTdel emits the op lines of one random election scenario: one ledger, one record history, one storage fault,
// one candidate height / term, every position of the term and every plausible proposer.
func genTdel(rng *xvlib.Rng, emit func(string)) {
	elAcct(0)
	pn, bn, start := int64(1+rng.Intn(3)), int64(1+rng.Intn(2)), int64(1+rng.Intn(2))
	perm := []int64{0, 1, 2, 3, 4, 5, 6, 7}
	for i := len(perm) - 1; i > 0; i-- {
		j := rng.Intn(i + 1)
		perm[i], perm[j] = perm[j], perm[i]
	}
	init := append([]int64{}, perm[:pn]...)
	var terms []int64
	for h := int64(0); h < start; h++ {
		terms = append(terms, 0)
	}
	t := int64(1 + rng.Intn(2))
	for k := 0; k <= rng.Intn(3); k++ {
		for j := int64(0); j <= int64(rng.Intn(int(pn*bn))); j++ {
			terms = append(terms, t)
		}
		t += int64(1 + rng.Intn(2))
	}
	tip := int64(len(terms) - 1)
	tipTerm := terms[tip]
	h, term := tip+1, tipTerm+1
	switch rng.Intn(12) {
	case 0:
		term = tipTerm + 2
	case 1, 2, 3:
		term = tipTerm
	case 4:
		h = start + int64(rng.Intn(int(tip-start+1)))
		term = terms[h]
	case 5:
		h = start + int64(rng.Intn(int(tip-start+1)))
		term = terms[h] + 1
	case 6:
		h = tip + 2
	case 7:
		if tipTerm > 1 {
			term = tipTerm - 1
		}
	}
	// the snapshots that matter: the one the election of the candidate's term reads, the ones the tip's term and the
	// candidate's own (possibly earlier) term were opened under, and the one a fresh election from the tip reads
	firstOf := func(j int64) int64 {
		F := j
		for ; F > start && terms[F-1] == terms[j]; F-- {
		}
		return F
	}
	F := h
	if hh := mini(h, tip); term == terms[hh] {
		F = firstOf(hh)
	}
	anchors := []int64{F - 4, F - 4, firstOf(tip) - 4, tip - 3}
	for j := start; j <= tip; j++ {
		if terms[j] == term {
			anchors = append(anchors, firstOf(j)-4)
			break
		}
	}
	S := F - 4
	if S < 0 {
		S = 0
	}
	var snaps []string
	var recs []elSnap
	for k := 0; k <= rng.Intn(4); k++ {
		e := anchors[rng.Intn(len(anchors))] + int64(rng.Intn(4)) - 2
		if e < 0 {
			e = 0
		}
		recs = append(recs, elSnap{e, elRandRec(rng, int(pn))})
	}
	sort.SliceStable(recs, func(i, j int) bool { return recs[i].e < recs[j].e })
	for _, r := range recs {
		snaps = append(snaps, fmt.Sprintf("%d@%s", r.e, elRecString(r.rec)))
	}
	snapTok := strings.Join(snaps, "/")
	if rng.Chance(1, 12) {
		snapTok, recs = "-", nil
	}
	rec := recAt(recs, S)
	fault := "-"
	if rec != nil && len(rec.cands) > 0 {
		switch x := rng.Intn(20); {
		case x < 7:
			fault = fmt.Sprintf("v%d", rec.cands[rng.Intn(len(rec.cands))])
		case x < 8:
			fault = fmt.Sprintf("v%d", rng.Intn(elPoolSize))
		case x < 9:
			fault = "n"
		case x < 10:
			fault = "s"
		}
	} else if rng.Chance(1, 6) {
		fault = []string{"n", "s", "v0"}[rng.Intn(3)]
	}
	props := map[int64]bool{99: true}
	for _, v := range init {
		props[v] = true
	}
	for _, sn := range recs {
		for _, c := range sn.rec.cands {
			props[int64(c)] = true
		}
	}
	var pl []int64
	for p := range props {
		pl = append(pl, p)
	}
	sort.Slice(pl, func(i, j int) bool { return pl[i] < pl[j] })
	for pos := int64(0); pos < pn; pos++ {
		bp := int64(rng.Intn(int(bn)))
		for _, p := range pl {
			emit(fmt.Sprintf("tdel %d %d %d %s %s %s %s %d %d %d %d %d", pn, bn, start, joinInts(init), joinInts(terms), snapTok, fault, h, term, pos, bp, p))
		}
	}
}

func mini(a, b int64) int64 {
	if a < b {
		return a
	}
	return b
}
