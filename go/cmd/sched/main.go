// Engine `sched` (C16): only the entitled producer's block is accepted.
//
// op lines (also the input of the Lean driver `xvdriver sched`):
//
//	td  <alt> <bn> <init> <period> <pn> <term> <ts>        real tdpos minerScheduling(ts)           -> "<term> <pos> <blockPos>"
//	tdr <alt> <bn> <init> <period> <pn> <term> <T0> <n>    the same at ts = T*1e6 for T0 <= T < T0+n -> run-length list "t,p,b*len ..."
//	xp  <period> <bn> <n> <ts>                              real xpoa minerScheduling(ts, n)         -> "<term> <pos> <blockPos>"
//	xpr <period> <bn> <n> <T0> <cnt>                        run-length list as for tdr
//	gc  <number>                                            pow.GetCompact                           -> "<compact> <ok>"
//	sc  <compact>                                           pow.SetCompact                           -> "<value> <neg> <ovf>"
//	tdacc <alt> <bn> <init> <period> <pn> <term> <nvals> <hmode> <ts> <prop>   tdpos CheckMinerMatch -> accept|reject|panic
//	xpacc <period> <bn> <nvals> <mode> <ts> <prop>                             xpoa CheckMinerMatch  -> accept|reject|panic
//	single <idok> <prop> <key> <sig>                                           single CheckMinerMatch
//	pow <D> <G> <E> <M> <n> (<bits|x> <ts>){n} <height> <parent> <bits|x> <ts> <hash> <idok> <key> <sig>   pow CheckMinerMatch
//	powf ...   pow CheckMinerMatch on a ledger with side branches (format in powcase.go)
//	plug <genesis> <upgrades|-> <events|-> <cand>   pluggable-consensus layer: upgrades, restarts, dispatch (format in plug.go)
//	tdel <pn> <bn> <start> <init> <terms> <snaps> <fault> <h> <term> <pos> <bp> <prop>   tdpos vote-based election (format in elect.go)
//
// proposer tokens (tdacc/xpacc): k = k-th validator of the list in force, 50+k = k-th validator of the
// list NOT in force (xpacc mode 2), 99 = outsider, -1 = empty proposer field.
// tdacc hmode: 0 = block at height 2 (init validators), 1 = block at height 5 on a 5-block ledger (ledger path).
// xpacc mode 3: as mode 2, the contract snapshot holding nvals+1 validators (the node's in-memory list holds nvals).
// xpacc mode: 0 = validator set unavailable (height far above the tip), 1 = height 2 (init validators),
// 2 = height 5, validators taken from the contract snapshot; 4 / 5 / 6 = as 2, while the block is checked every read through a
// snapshot reader fails / CreateSnapshot fails / the validator record does not decode.
package main

import (
	"encoding/json"
	"fmt"
	"math/big"
	"os"
	"sort"
	"strconv"
	"strings"

	"github.com/xuperchain/xupercore/bcs/consensus/pow"
	"github.com/xuperchain/xupercore/bcs/consensus/single"
	"github.com/xuperchain/xupercore/bcs/consensus/tdpos"
	"github.com/xuperchain/xupercore/bcs/consensus/xpoa"
	"github.com/xuperchain/xupercore/kernel/common/xcontext"
	"github.com/xuperchain/xupercore/kernel/consensus/base"
	cctx "github.com/xuperchain/xupercore/kernel/consensus/context"
	"github.com/xuperchain/xupercore/kernel/consensus/def"
	"xv/xvlib"
)

var (
	accts  = map[int]*xvlib.Account{}
	out    *xvlib.Out
	bctx   *xcontext.BaseCtx
	sigMem = map[string][]byte{}
)

func acct(i int) *xvlib.Account {
	if a, ok := accts[i]; ok {
		return a
	}
	a := xvlib.NewAccount(i)
	accts[i] = a
	return a
}

func sign(i int, msg []byte) []byte {
	k := fmt.Sprintf("%d/%x", i, msg)
	if s, ok := sigMem[k]; ok {
		return s
	}
	s, err := xvlib.Crypto().SignECDSA(acct(i).Pri, msg)
	if err != nil {
		panic(err)
	}
	sigMem[k] = s
	return s
}

func atoi(s string) int64 {
	v, err := strconv.ParseInt(s, 10, 64)
	if err != nil {
		panic("bad-int " + s)
	}
	return v
}

func newCtx(l cctx.LedgerRely, self int) cctx.ConsensusCtx {
	a := acct(self)
	return cctx.ConsensusCtx{
		BaseCtx:  xcontext.BaseCtx{XLog: xvlib.Logger("sched")},
		BcName:   "xuper",
		Address:  &cctx.Address{Address: a.Address, PrivateKeyStr: a.PriJSON, PublicKeyStr: a.PubJSON, PrivateKey: a.Pri, PublicKey: a.Pub},
		Crypto:   xvlib.Crypto(),
		Contract: stubMgr{},
		Ledger:   l,
		Network:  &stubNet{account: a.Address},
	}
}

// ------------------------------------------------------------------ schedules

type tdCfg struct{ alt, bn, init, period, pn, term int64 }

func (c tdCfg) String() string {
	return fmt.Sprintf("%d %d %d %d %d %d", c.alt, c.bn, c.init, c.period, c.pn, c.term)
}
func (c tdCfg) wf() bool {
	return c.period > 0 && c.bn >= 1 && c.pn >= 1 && c.alt >= c.period && c.term >= c.alt && c.init >= 0
}
func (c tdCfg) termTime() int64 { return c.term + (c.bn-1)*c.pn*c.period + (c.pn-1)*c.alt }
func (c tdCfg) posTime() int64  { return c.alt + c.period*(c.bn-1) }

func parseTd(w []string) tdCfg {
	return tdCfg{atoi(w[0]), atoi(w[1]), atoi(w[2]), atoi(w[3]), atoi(w[4]), atoi(w[5])}
}

func (c tdCfg) real(ts int64) [3]int64 {
	t, p, b := tdpos.VerifMinerScheduling(c.period, c.bn, c.pn, c.alt, c.term, c.init, ts)
	return [3]int64{t, p, b}
}

// specTd is the slot layout the source comment of minerScheduling draws, written as an explicit
// search over the slots of one term (no division by slot lengths):
//
//	|<- termInterval ->|<- (blockNum-1)*period ->|<- alternateInterval ->|<- (blockNum-1)*period ->| ...
//
// slot k of proposer p covers the term offsets [termInterval + p*posTime + (k-1)*period, +period); the very
// first millisecond of slot 0 belongs to the hand-over gap.  inSlot=false in hand-over gaps
// (then pos names the proposer whose turn comes next and blockPos is -1).
func (c tdCfg) spec(ts int64) (r [3]int64, inSlot bool) {
	if ts < c.init {
		return [3]int64{0, 0, 0}, false
	}
	d := ts/1000000 - c.init/1000000
	tt := c.termTime()
	t := d/tt + 1
	off := d % tt
	for p := int64(0); p < c.pn; p++ {
		for k := int64(0); k < c.bn; k++ {
			lo := c.term + p*c.posTime() + (k-1)*c.period
			hi := lo + c.period
			if k == 0 {
				lo++
			}
			if lo <= off && off < hi {
				return [3]int64{t, p, k}, true
			}
		}
	}
	for p := int64(0); p < c.pn; p++ {
		if off <= c.term-c.period+p*c.posTime() {
			return [3]int64{t, p, -1}, false
		}
	}
	return [3]int64{t, c.pn, -1}, false
}

func xpReal(period, bn, ts int64, n int) [3]int64 {
	t, p, b := xpoa.VerifMinerScheduling(period, bn, ts, n)
	return [3]int64{t, p, b}
}

// xpSpec: terms of length period*n*blockNum from the epoch; inside a term validator p owns
// [p*period*blockNum, (p+1)*period*blockNum), cut into blockNum slots numbered from 1.
func xpSpec(period, bn, ts int64, n int) [3]int64 {
	T := ts / 1000000
	tt := period * int64(n) * bn
	t := T/tt + 1
	off := T % tt
	for p := int64(0); p < int64(n); p++ {
		for k := int64(1); k <= bn; k++ {
			lo := p*period*bn + (k-1)*period
			if lo <= off && off < lo+period {
				return [3]int64{t, p, k}
			}
		}
	}
	return [3]int64{t, -1, -1}
}

func fmt3(r [3]int64) string { return fmt.Sprintf("%d %d %d", r[0], r[1], r[2]) }

func lexLE(a, b [3]int64) bool {
	for i := 0; i < 3; i++ {
		if a[i] != b[i] {
			return a[i] < b[i]
		}
	}
	return true
}

type rle struct {
	sb   strings.Builder
	cur  [3]int64
	n    int64
	some bool
}

func (r *rle) add(v [3]int64) {
	if r.some && v == r.cur {
		r.n++
		return
	}
	r.flush()
	r.cur, r.n, r.some = v, 1, true
}
func (r *rle) flush() {
	if r.some {
		if r.sb.Len() > 0 {
			r.sb.WriteByte(' ')
		}
		fmt.Fprintf(&r.sb, "%d,%d,%d*%d", r.cur[0], r.cur[1], r.cur[2], r.n)
	}
}
func (r *rle) String() string { r.flush(); r.some = false; return r.sb.String() }

// checkTdPoint: the schedule properties at one timestamp of a well-formed configuration, evaluated on
// what the real function returned.
func checkTdPoint(c tdCfg, ts int64, got [3]int64, prev *[3]int64) {
	op := fmt.Sprintf("td %s %d", c, ts)
	if ts >= c.init {
		if got[1] < 0 || got[1] >= c.pn || got[2] < -1 || got[2] >= c.bn || got[0] < 1 {
			out.Violate(xvlib.Violation{Key: "tdpos-schedule-range", What: fmt.Sprintf("tdpos minerScheduling returned (term,pos,blockPos)=%v outside 1<=term, 0<=pos<%d, -1<=blockPos<%d", got, c.pn, c.bn),
				Ops: []string{op}, Impl: []string{fmt3(got)}})
		}
	}
	if prev != nil && ts-1000000 >= c.init && !lexLE(*prev, got) {
		out.Violate(xvlib.Violation{Key: "tdpos-schedule-order", What: fmt.Sprintf("tdpos schedule goes backwards: %v one millisecond before, %v now", *prev, got),
			Ops: []string{fmt.Sprintf("td %s %d", c, ts-1000000), op}, Impl: []string{fmt3(*prev), fmt3(got)}})
	}
	want, _ := c.spec(ts)
	if want != got {
		out.Violate(xvlib.Violation{Key: "tdpos-schedule-tiling", What: fmt.Sprintf("tdpos minerScheduling returned %v where the slot layout (term = termInterval, then per proposer blockNum slots of one period separated by alternateInterval) gives %v", got, want),
			Ops: []string{op}, Impl: []string{fmt3(got)}})
	}
}

func checkXpPoint(period, bn int64, n int, ts int64, got [3]int64, prev *[3]int64) {
	op := fmt.Sprintf("xp %d %d %d %d", period, bn, n, ts)
	if got[1] < 0 || got[1] >= int64(n) || got[2] < 1 || got[2] > bn || got[0] < 1 {
		out.Violate(xvlib.Violation{Key: "xpoa-schedule-range", What: fmt.Sprintf("xpoa minerScheduling returned %v outside 1<=term, 0<=pos<%d, 1<=blockPos<=%d", got, n, bn),
			Ops: []string{op}, Impl: []string{fmt3(got)}})
	}
	if prev != nil && !lexLE(*prev, got) {
		out.Violate(xvlib.Violation{Key: "xpoa-schedule-order", What: fmt.Sprintf("xpoa schedule goes backwards: %v one millisecond before, %v now", *prev, got),
			Ops: []string{fmt.Sprintf("xp %d %d %d %d", period, bn, n, ts-1000000), op}, Impl: []string{fmt3(*prev), fmt3(got)}})
	}
	if want := xpSpec(period, bn, ts, n); want != got {
		out.Violate(xvlib.Violation{Key: "xpoa-schedule-tiling", What: fmt.Sprintf("xpoa minerScheduling returned %v where the slot layout (validator p owns blockNum consecutive slots of one period) gives %v", got, want),
			Ops: []string{op}, Impl: []string{fmt3(got)}})
	}
}

// ------------------------------------------------------------------ compact encoding (spec side)

var (
	one    = big.NewInt(1)
	two256 = new(big.Int).Lsh(one, 256)
)

// specDecode: the value a compact encoding denotes (mantissa * 256^(size-3), mantissa = low 23 bits).
func specDecode(c uint32) *big.Int {
	size := int(c >> 24)
	m := big.NewInt(int64(c & 0x7fffff))
	if size <= 3 {
		return m.Rsh(m, uint(8*(3-size)))
	}
	return m.Lsh(m, uint(8*(size-3)))
}

// specCanonical: sign bit clear, mantissa normalised (top byte of the 3-byte mantissa in use, i.e.
// mantissa >= 0x008000), nothing lost when the size is below 3; zero is encoded as 0.
func specCanonical(c uint32) bool {
	size := c >> 24
	m := c & 0xffffff
	if m&0x800000 != 0 {
		return false
	}
	if m == 0 {
		return c == 0
	}
	if m < 0x8000 {
		return false
	}
	if size < 3 && m&((1<<(8*(3-size)))-1) != 0 {
		return false
	}
	return true
}

// specEncode: the canonical encoding of the largest representable value <= n (Bitcoin's GetCompact).
func specEncode(n *big.Int) uint32 {
	size := (n.BitLen() + 7) / 8
	var m uint32
	if size <= 3 {
		m = uint32(n.Uint64() << uint(8*(3-size)))
	} else {
		m = uint32(new(big.Int).Rsh(n, uint(8*(size-3))).Uint64())
	}
	if m&0x800000 != 0 {
		m >>= 8
		size++
	}
	return m | uint32(size)<<24
}

func b2s(b bool) string { return strconv.FormatBool(b) }

// ------------------------------------------------------------------ plugin instances

type instKey string

var instCache = map[instKey]base.ConsensusImplInterface{}
var ledgerCache = map[instKey]*stubLedger{}

const (
	outsider = 40
	altBase  = 10 // validators of the contract snapshot (xpacc mode 2) are accounts 10..
)

func tdStorage(term int64) []byte {
	b, _ := json.Marshal(map[string]int64{"curTerm": term})
	return b
}

// tdposInst builds a real tdpos plugin (no bft) with validators 0..nvals-1 on a stub ledger of `blocks` blocks.
func tdposInst(c tdCfg, nvals int, blocks int) (base.ConsensusImplInterface, *stubLedger) {
	k := instKey(fmt.Sprintf("td %s %d %d", c, nvals, blocks))
	if i, ok := instCache[k]; ok {
		return i, ledgerCache[k]
	}
	l := newStubLedger()
	// ledger blocks sit in term 1, produced by validator 0 in its first slots
	for h := 0; h < blocks; h++ {
		ts := c.init + (c.term+int64(h)%c.period)*1000000
		t := c.real(ts)[0]
		l.put(&blk{proposer: acct(0).Address, height: int64(h), id: []byte{byte(h), 0xA}, pre: []byte{byte(h - 1), 0xA}, storage: tdStorage(t), ts: ts})
	}
	var vals []string
	for i := 0; i < nvals; i++ {
		vals = append(vals, acct(i).Address)
	}
	cfg := map[string]interface{}{
		"timestamp": strconv.FormatInt(c.init, 10), "proposer_num": strconv.FormatInt(c.pn, 10), "period": strconv.FormatInt(c.period, 10),
		"alternate_interval": strconv.FormatInt(c.alt, 10), "term_interval": strconv.FormatInt(c.term, 10), "block_num": strconv.FormatInt(c.bn, 10),
		"vote_unit_price": "1", "init_proposer": map[string][]string{"1": vals},
	}
	js, _ := json.Marshal(cfg)
	inst := tdpos.NewTdposConsensus(newCtx(l, 0), def.ConsensusConfig{ConsensusName: "tdpos", Config: string(js), StartHeight: 1, Index: 0})
	if inst == nil {
		panic("NewTdposConsensus returned nil for " + string(js))
	}
	instCache[k], ledgerCache[k] = inst, l
	return inst, l
}

func xpoaInst(period, bn int64, nvals int, mode int) (base.ConsensusImplInterface, *stubLedger) {
	k := instKey(fmt.Sprintf("xp %d %d %d %d", period, bn, nvals, mode))
	if i, ok := instCache[k]; ok {
		return i, ledgerCache[k]
	}
	l := newStubLedger()
	blocks := 2
	if mode >= 2 {
		blocks = 5
	}
	for h := 0; h < blocks; h++ {
		l.put(&blk{proposer: acct(0).Address, height: int64(h), id: []byte{byte(h), 0xB}, pre: []byte{byte(h - 1), 0xB}, storage: []byte("{}"), ts: int64(h) * period * 1000000})
	}
	var vals []string
	for i := 0; i < nvals; i++ {
		vals = append(vals, acct(i).Address)
	}
	cfg := map[string]interface{}{"period": period, "block_num": bn, "init_proposer": map[string][]string{"address": vals}}
	js, _ := json.Marshal(cfg)
	inst := xpoa.NewXpoaConsensus(newCtx(l, 0), def.ConsensusConfig{ConsensusName: "xpoa", Config: string(js), StartHeight: 1, Index: 0})
	if inst == nil {
		panic("NewXpoaConsensus returned nil for " + string(js))
	}
	if mode >= 2 {
		// the validator set written by the $poa contract, visible in every snapshot; mode 3: it has one member more
		// than the initial set (which is what the node holds in memory until its next CompeteMaster)
		var alt []string
		for i := 0; i < nvals+mode-2; i++ {
			alt = append(alt, acct(altBase+i).Address)
		}
		v, _ := json.Marshal(map[string][]string{"address": alt})
		l.snap["$poa/0_validates"] = v
	}
	instCache[k], ledgerCache[k] = inst, l
	return inst, l
}

// proposerAddr resolves a proposer token; inForce/other are account-number bases.
func proposerAddr(tok int64, inForce, other int) (addr string, id int) {
	switch {
	case tok == -1:
		return "", -1
	case tok == 99:
		return acct(outsider).Address, outsider
	case tok >= 50:
		return acct(other + int(tok-50)).Address, other + int(tok-50)
	default:
		return acct(inForce + int(tok)).Address, inForce + int(tok)
	}
}

func verdict(ok bool) string {
	if ok {
		return "accept"
	}
	return "reject"
}

// ------------------------------------------------------------------ executor

func exec(line string) (res string) {
	defer func() {
		if r := recover(); r != nil {
			if s, ok := r.(string); ok && strings.HasPrefix(s, "bad-") {
				res = "bad-op"
				return
			}
			res = "panic"
		}
	}()
	w := strings.Fields(line)
	if len(w) == 0 {
		return "bad-op"
	}
	switch w[0] {
	case "td":
		if len(w) != 8 {
			return "bad-op"
		}
		c := parseTd(w[1:7])
		ts := atoi(w[7])
		got := c.real(ts)
		if c.wf() && ts >= 0 {
			checkTdPoint(c, ts, got, nil)
		}
		return fmt3(got)
	case "tdr":
		if len(w) != 9 {
			return "bad-op"
		}
		c := parseTd(w[1:7])
		T0, n := atoi(w[7]), atoi(w[8])
		var r rle
		var prev *[3]int64
		for T := T0; T < T0+n; T++ {
			got := c.real(T * 1000000)
			if c.wf() {
				checkTdPoint(c, T*1000000, got, prev)
			}
			g := got
			prev = &g
			r.add(got)
		}
		return r.String()
	case "xp":
		if len(w) != 5 {
			return "bad-op"
		}
		period, bn, n, ts := atoi(w[1]), atoi(w[2]), int(atoi(w[3])), atoi(w[4])
		got := xpReal(period, bn, ts, n)
		if period > 0 && bn > 0 && n > 0 && ts >= 0 {
			checkXpPoint(period, bn, n, ts, got, nil)
		}
		return fmt3(got)
	case "xpr":
		if len(w) != 6 {
			return "bad-op"
		}
		period, bn, n, T0, cnt := atoi(w[1]), atoi(w[2]), int(atoi(w[3])), atoi(w[4]), atoi(w[5])
		var r rle
		var prev *[3]int64
		for T := T0; T < T0+cnt; T++ {
			got := xpReal(period, bn, T*1000000, n)
			checkXpPoint(period, bn, n, T*1000000, got, prev)
			g := got
			prev = &g
			r.add(got)
		}
		return r.String()
	case "gc":
		n, ok := new(big.Int).SetString(w[1], 10)
		if !ok || n.Sign() < 0 {
			return "bad-op"
		}
		c, good := pow.GetCompact(n)
		// property: the encoding denotes the number cut to its three leading bytes, canonically
		if n.BitLen() <= 255 {
			want := specEncode(n)
			back := specDecode(c)
			if !good || c != want || !specCanonical(c) || back.Cmp(n) > 0 {
				out.Violate(xvlib.Violation{Key: "compact-encode", What: fmt.Sprintf("GetCompact(%s) = %#x ok=%v; the canonical three-byte-mantissa encoding is %#x", n, c, good, want),
					Ops: []string{line}, Impl: []string{fmt.Sprintf("%d %v", c, good)}})
			}
		}
		return fmt.Sprintf("%d %s", c, b2s(good))
	case "sc":
		cv := atoi(w[1])
		if cv < 0 || cv > 0xffffffff {
			return "bad-op"
		}
		c := uint32(cv)
		u, neg, ovf := pow.SetCompact(c)
		want := specDecode(c)
		wantNeg := want.Sign() != 0 && c&0x800000 != 0
		if u.Cmp(want) != 0 || neg != wantNeg || (!ovf && u.BitLen() > 256) {
			out.Violate(xvlib.Violation{Key: "compact-decode", What: fmt.Sprintf("SetCompact(%#x) = %s neg=%v ovf=%v; the encoding denotes %s neg=%v", c, u, neg, ovf, want, wantNeg),
				Ops: []string{line}, Impl: []string{fmt.Sprintf("%s %v %v", u, neg, ovf)}})
		}
		if specCanonical(c) && !ovf && u.BitLen() <= 255 {
			back, good := pow.GetCompact(u)
			if !good || back != c {
				out.Violate(xvlib.Violation{Key: "compact-roundtrip", What: fmt.Sprintf("GetCompact(SetCompact(%#x)) = %#x ok=%v for a canonical encoding", c, back, good),
					Ops: []string{line}, Impl: []string{fmt.Sprintf("%s %v %v", u, neg, ovf)}})
			}
		}
		return fmt.Sprintf("%s %s %s", u, b2s(neg), b2s(ovf))
	case "tdacc":
		if len(w) != 11 {
			return "bad-op"
		}
		return execTdAcc(line, w)
	case "xpacc":
		if len(w) != 7 {
			return "bad-op"
		}
		return execXpAcc(line, w)
	case "single":
		if len(w) != 5 {
			return "bad-op"
		}
		return execSingle(line, w)
	case "pow", "powf":
		return execPow(line, w)
	case "plug":
		return execPlug(line, w)
	case "tdel":
		return execTdel(line, w)
	}
	return "bad-op"
}

func execTdAcc(line string, w []string) string {
	c := parseTd(w[1:7])
	nvals, hmode, ts, prop := int(atoi(w[7])), atoi(w[8]), atoi(w[9]), atoi(w[10])
	blocks := 2
	if hmode == 1 {
		blocks = 5
	}
	inst, l := tdposInst(c, nvals, blocks)
	addr, id := proposerAddr(prop, 0, 20)
	tip := l.chain[len(l.chain)-1]
	term := c.real(ts)[0]
	b := &blk{proposer: addr, height: int64(blocks), id: []byte{0xC, 0xC}, pre: tip.id, storage: tdStorage(term), ts: ts}
	ok, _ := inst.CheckMinerMatch(bctx, b)
	if ok {
		// property: accepted => the block's own timestamp lies in a slot of the schedule and the
		// proposer is the validator owning that slot
		want, inSlot := c.spec(ts)
		switch {
		case !c.wf():
		case !inSlot:
			out.Violate(xvlib.Violation{Key: "tdpos-accept-outside-slot", What: fmt.Sprintf("tdpos CheckMinerMatch accepted a block whose timestamp %d lies in no production slot (schedule position %v)", ts, want),
				Ops: []string{line}, Impl: []string{"accept"}})
		case want[1] >= int64(nvals) || id != int(want[1]):
			out.Violate(xvlib.Violation{Key: "tdpos-accept-not-entitled", What: fmt.Sprintf("tdpos CheckMinerMatch accepted a block of account #%d at timestamp %d; the slot (term,pos,blockPos)=%v belongs to validator #%d", id, ts, want, want[1]),
				Ops: []string{line}, Impl: []string{"accept"}})
		}
	}
	return verdict(ok)
}

func execXpAcc(line string, w []string) string {
	period, bn, nvals, mode, ts, prop := atoi(w[1]), atoi(w[2]), int(atoi(w[3])), int(atoi(w[4])), atoi(w[5]), atoi(w[6])
	if mode < 0 || mode > 6 {
		return "bad-op"
	}
	instMode := mode
	if mode >= 4 {
		instMode = 2 // the same node as in mode 2; the storage misbehaves only while the block is checked
	}
	inst, l := xpoaInst(period, bn, nvals, instMode)
	inForce, other := 0, altBase
	height := int64(2)
	switch mode {
	case 0:
		height = 40 // far above the tip: block height-4 is not in the ledger, the validator set cannot be computed
	case 2, 3, 4, 5, 6:
		height, inForce, other = 5, altBase, 0
	}
	switch mode {
	case 4:
		l.fault = func(op, bucket, key string) error {
			if op == "get" {
				return errInjected
			}
			return nil
		}
	case 5:
		l.fault = func(op, bucket, key string) error {
			if op == "snapshot" {
				return errInjected
			}
			return nil
		}
	case 6:
		l.state = func(h int64, bucket, key string) ([]byte, bool) {
			if bucket+"/"+key == "$poa/0_validates" {
				return []byte("{\"address\":[\"x"), true
			}
			v, ok := l.snap[bucket+"/"+key]
			return v, ok
		}
	}
	defer func() { l.fault, l.state = nil, nil }()
	nForce := nvals
	if mode == 3 {
		nForce = nvals + 1
	}
	addr, id := proposerAddr(prop, inForce, other)
	tip := l.chain[len(l.chain)-1]
	b := &blk{proposer: addr, height: height, id: []byte{0xD, 0xD}, pre: tip.id, storage: []byte("{}"), ts: ts}
	ok, _ := inst.CheckMinerMatch(bctx, b)
	if ok {
		want := xpSpec(period, bn, ts, nForce)
		switch {
		case mode == 6:
			out.Violate(xvlib.Violation{Key: "xpoa-accept-undecodable-validators", What: fmt.Sprintf("xpoa CheckMinerMatch accepted a block (proposer %q) although the validator record of the snapshot in force does not decode: the chain's state names no validators", addr),
				Ops: []string{line}, Impl: []string{"accept"}})
		case (mode == 4 || mode == 5) && (id < 0 || id-inForce != int(want[1])):
			out.Violate(xvlib.Violation{Key: "xpoa-accept-not-entitled-under-read-fault", What: fmt.Sprintf("xpoa CheckMinerMatch accepted a block of account #%d at timestamp %d while the validator record could not be read (storage fault during the check); the slot %v belongs to validator #%d of the set recorded on the chain", id, ts, want, int(want[1])+inForce),
				Ops: []string{line}, Impl: []string{"accept"}})
		case mode == 4 || mode == 5:
		case mode == 0 || nForce == 0:
			out.Violate(xvlib.Violation{Key: "xpoa-accept-no-validators", What: fmt.Sprintf("xpoa CheckMinerMatch accepted a block (proposer %q) although no validator set can be computed for it, so nobody is entitled", addr),
				Ops: []string{line}, Impl: []string{"accept"}})
		case id < 0 || id-inForce != int(want[1]):
			out.Violate(xvlib.Violation{Key: "xpoa-accept-not-entitled", What: fmt.Sprintf("xpoa CheckMinerMatch accepted a block of account #%d at timestamp %d; the slot %v belongs to validator #%d of the set in force", id, ts, want, int(want[1])+inForce),
				Ops: []string{line}, Impl: []string{"accept"}})
		}
	}
	return verdict(ok)
}

var singleInst base.ConsensusImplInterface

// single <idok> <prop: m|o|e> <key: p|x|b> <sig: v|w|c|f>
// prop: configured miner / another account / empty; key: the proposer's own key (miner's if the proposer is
// empty) / the key of yet another account / not a key; sig: valid signature by the key's owner over the block
// id / over other data / corrupted / made with a different private key.
func execSingle(line string, w []string) string {
	const miner, other, third = 0, 1, 2
	if singleInst == nil {
		l := newStubLedger()
		l.put(&blk{height: 0, id: []byte{0, 0xE}, storage: []byte("{}")})
		js, _ := json.Marshal(map[string]string{"version": "0", "miner": acct(miner).Address, "period": "3000"})
		singleInst = single.NewSingleConsensus(newCtx(l, miner), def.ConsensusConfig{ConsensusName: "single", Config: string(js), StartHeight: 1})
		if singleInst == nil {
			panic("NewSingleConsensus returned nil")
		}
	}
	b := &blk{height: 1, id: []byte{1, 0xE, 0x55}, pre: []byte{0, 0xE}, storage: []byte("{}"), ts: 1}
	if w[1] == "0" {
		b.madeID = []byte{1, 0xE, 0x56}
	} else if w[1] != "1" {
		return "bad-op"
	}
	propAcct := -1
	switch w[2] {
	case "m":
		propAcct = miner
	case "o":
		propAcct = other
	case "e":
	default:
		return "bad-op"
	}
	if propAcct >= 0 {
		b.proposer = acct(propAcct).Address
	}
	keyAcct := propAcct
	if keyAcct < 0 {
		keyAcct = miner
	}
	switch w[3] {
	case "p":
	case "x":
		keyAcct = third
	case "b":
		keyAcct = -1
	default:
		return "bad-op"
	}
	signer := keyAcct
	if signer < 0 {
		signer = miner
		b.pub = "{not a key"
	} else {
		b.pub = acct(keyAcct).PubJSON
	}
	switch w[4] {
	case "v":
		b.sign = sign(signer, b.id)
	case "w":
		b.sign = sign(signer, []byte{9, 9, 9})
	case "c":
		s := append([]byte{}, sign(signer, b.id)...)
		s[len(s)/2] ^= 0x10
		b.sign = s
	case "f":
		b.sign = sign(outsider, b.id)
	default:
		return "bad-op"
	}
	ok, _ := singleInst.CheckMinerMatch(bctx, b)
	if ok && !(w[1] == "1" && w[2] == "m" && w[3] == "p" && w[4] == "v") {
		key := "single-accept-bad-signature"
		if w[2] != "m" {
			key = "single-accept-not-miner"
		} else if w[1] != "1" {
			key = "single-accept-bad-blockid"
		}
		out.Violate(xvlib.Violation{Key: key, What: "single CheckMinerMatch accepted a block that is not (recomputable id, proposer = configured miner, miner's key, valid signature over the id): " + line,
			Ops: []string{line}, Impl: []string{"accept"}})
	}
	return verdict(ok)
}

// ------------------------------------------------------------------ generator

func boundaries(f func(T int64) [3]int64, from, to int64) []int64 {
	seen := map[int64]bool{}
	var res []int64
	add := func(T int64) {
		if T >= 0 && !seen[T] {
			seen[T] = true
			res = append(res, T)
		}
	}
	prev := f(from)
	add(from)
	for T := from + 1; T < to; T++ {
		cur := f(T)
		if cur != prev {
			add(T - 1)
			add(T)
			add(T + 1)
		}
		prev = cur
	}
	return res
}

func main() {
	args := xvlib.ParseArgs()
	out = xvlib.NewOut(args.Out)
	defer out.Close()
	bctx = &xcontext.BaseCtx{XLog: xvlib.Logger("sched")}
	thorough := args.Tier == "thorough"
	run := func(line string, nontrivial bool) string {
		r := exec(line)
		out.Emit(line, r)
		out.Case(line, nontrivial)
		kind := strings.Fields(line)[0]
		switch kind {
		case "tdacc", "xpacc", "single", "pow", "powf", "plug", "tdel":
			out.Count(kind + ":" + r)
		default:
			out.Count(kind)
		}
		return r
	}
	if args.Replay != "" {
		for _, l := range xvlib.ReadLines(args.Replay) {
			run(l, true)
		}
		return
	}
	rng := xvlib.NewRng(args.Seed)
	// independent streams for the later sections: the streams xvlib derives from neighbouring seeds are shifted
	// copies of one another and fall into step after the sampling loops, so each section mixes the seed anew
	subRng := func(tag uint64) *xvlib.Rng {
		z := (args.Seed+1)*0xD6E8FEB86659FD93 + tag*0xA0761D6478BD642F
		z = (z ^ (z >> 32)) * 0xD6E8FEB86659FD93
		z = (z ^ (z >> 29)) * 0xA0761D6478BD642F
		return xvlib.NewRng(z ^ (z >> 32))
	}
	// 0. corpus (minimal replays of past findings) first
	if ents, err := os.ReadDir("corpus/" + args.Prop); err == nil {
		for _, e := range ents {
			if strings.HasSuffix(e.Name(), ".ops") {
				for _, l := range xvlib.ReadLines("corpus/" + args.Prop + "/" + e.Name()) {
					run(l, true)
				}
			}
		}
	}
	// 1. tdpos schedule: the regenerated definition against the real function, every millisecond of
	//    three terms (and a little before the start) over the whole configuration box
	const chunk = 4096
	msTotal := int64(0)
	excluded := map[string]int{}
	inits := []int64{0, 7000400000}
	for _, period := range []int64{1, 3, 500} {
		for bn := int64(1); bn <= 4; bn++ {
			for pn := int64(1); pn <= 4; pn++ {
				for _, alt := range []int64{period, period + 1, 2*period + 1} {
					for _, term := range []int64{alt, alt + 2, 2*alt + period} {
						for ii, init := range inits {
							if ii == 1 && !thorough && (bn+pn)%2 == 1 {
								continue
							}
							c := tdCfg{alt, bn, init, period, pn, term}
							from := init/1000000 - 2
							if from < 0 {
								from = 0
							}
							to := init/1000000 + 3*c.termTime() + 2
							for T := from; T < to; T += chunk {
								n := int64(chunk)
								if T+n > to {
									n = to - T
								}
								run(fmt.Sprintf("tdr %s %d %d", c, T, n), true)
								msTotal += n
							}
						}
					}
				}
			}
		}
	}
	// sub-millisecond offsets and the instant of the configured start, single points
	for i := 0; i < 4000; i++ {
		period := []int64{1, 3, 500, 3000}[rng.Intn(4)]
		alt := period + int64(rng.Intn(3))*period/2
		term := alt + int64(rng.Intn(3))*period
		init := []int64{0, 7000400000, 1559021720000000000}[rng.Intn(3)]
		c := tdCfg{alt, 1 + int64(rng.Intn(4)), init, period, 1 + int64(rng.Intn(4)), term}
		T := init/1000000 + int64(rng.Intn(int(3*c.termTime())))
		ts := T*1000000 + []int64{0, 1, 999999, 400000, 399999}[rng.Intn(5)]
		run(fmt.Sprintf("td %s %d", c, ts), true)
	}
	// configurations the source comment excludes (alternateInterval < period or termInterval <
	// alternateInterval): compared with the model, no schedule property asserted; what the real
	// function does there is summarised in the evidence
	for _, period := range []int64{3, 500} {
		for bn := int64(1); bn <= 3; bn++ {
			for pn := int64(1); pn <= 3; pn++ {
				for _, at := range [][2]int64{{period - 1, period}, {1, period}, {period, period - 1}, {period + 1, 1}, {2, 1}} {
					c := tdCfg{at[0], bn, 0, period, pn, at[1]}
					if c.termTime() <= 0 || c.posTime() <= 0 {
						continue
					}
					to := 2*c.termTime() + 2
					run(fmt.Sprintf("tdr %s 0 %d", c, to), true)
					for T := int64(0); T < to; T++ {
						g := c.real(T * 1000000)
						if g[1] < 0 || g[1] >= pn {
							excluded["pos-out-of-range"]++
						}
						if g[2] < -1 || g[2] >= bn {
							excluded["blockPos-out-of-range"]++
						}
						if g[2] == -1 {
							excluded["gap-ms"]++
						}
						excluded["ms"]++
					}
				}
			}
		}
	}
	// 2. xpoa schedule
	for _, period := range []int64{1, 3, 500} {
		for bn := int64(1); bn <= 4; bn++ {
			for n := 1; n <= 4; n++ {
				tt := period * bn * int64(n)
				for _, base := range []int64{0, 1559021720000 / tt * tt} {
					to := base + 3*tt + 2
					from := base
					if from > 0 {
						from -= 2
					}
					for T := from; T < to; T += chunk {
						k := int64(chunk)
						if T+k > to {
							k = to - T
						}
						run(fmt.Sprintf("xpr %d %d %d %d %d", period, bn, n, T, k), true)
						msTotal += k
					}
				}
			}
		}
	}
	for i := 0; i < 2000; i++ {
		period := []int64{1, 3, 500, 3000}[rng.Intn(4)]
		bn, n := 1+int64(rng.Intn(4)), 1+rng.Intn(4)
		T := int64(rng.Intn(int(3*period*bn*int64(n)))) + []int64{0, 1559021720000}[rng.Intn(2)]
		run(fmt.Sprintf("xp %d %d %d %d", period, bn, n, T*1000000+[]int64{0, 1, 999999}[rng.Intn(3)]), true)
	}
	// 3. compact encoding: boundary encodings, then samples
	for size := 0; size <= 255; size++ {
		for _, m := range []uint32{0, 1, 0x7f, 0x80, 0xff, 0x100, 0x7fff, 0x8000, 0xffff, 0x10000, 0x7fffff, 0x800000, 0x800001, 0xffffff, 0x808000, 0x123456} {
			if size > 40 && size < 250 && m != 0x8000 && m != 0x7fffff {
				continue
			}
			run(fmt.Sprintf("sc %d", uint32(size)<<24|m), true)
		}
	}
	for bitsN := uint(0); bitsN <= 300; bitsN++ {
		p := new(big.Int).Lsh(one, bitsN)
		for _, d := range []int64{-1, 0, 1} {
			v := new(big.Int).Add(p, big.NewInt(d))
			run("gc "+v.String(), true)
		}
		for _, m := range []int64{0x7fffff, 0x800000, 0x8000, 0x7fff, 0xffffff} {
			run("gc "+new(big.Int).Lsh(big.NewInt(m), bitsN).String(), true)
		}
	}
	for _, nb := range []uint{2031, 2032, 2033, 2039, 2040, 2041, 2047, 2048, 2049} { // nSize 254..257
		run("gc "+new(big.Int).Sub(new(big.Int).Lsh(one, nb), one).String(), true)
		run("gc "+new(big.Int).Lsh(one, nb).String(), true)
	}
	samples := 1 << 20
	if thorough {
		samples = 1 << 24
	}
	for i := 0; i < samples; i++ {
		x := rng.U64()
		if i%2 == 0 {
			size := uint32(x>>32) % 41
			if (x>>40)%16 == 0 {
				size = uint32(x>>44) % 256
			}
			m := uint32(x) & 0xffffff
			switch (x >> 56) % 4 {
			case 0:
				m &= 0x7fffff
			case 1:
				m = m&0x7fffff | 0x8000
			}
			run(fmt.Sprintf("sc %d", size<<24|m), true)
		} else {
			nbits := uint(x>>32) % 280
			v := new(big.Int).SetUint64(rng.U64())
			v.Lsh(v, 64).Add(v, new(big.Int).SetUint64(rng.U64()))
			if nbits < 128 {
				v.Rsh(v, 128-nbits)
			} else {
				v.Lsh(v, nbits-128)
				if x&1 == 1 {
					v.Add(v, new(big.Int).SetUint64(rng.U64()))
				}
			}
			run("gc "+v.String(), true)
		}
	}
	// 4. acceptance: tdpos / xpoa at every slot boundary +-1 ms, every proposer
	accPeriods := []int64{3, 500}
	for _, period := range accPeriods {
		for bn := int64(1); bn <= 3; bn++ {
			for pn := int64(1); pn <= 3; pn++ {
				for _, alt := range []int64{period, period + 1} {
					for _, term := range []int64{alt, alt + 2} {
						for _, init := range []int64{0, 7000400000} {
							if init != 0 && !thorough && (bn+pn)%2 == 0 {
								continue
							}
							c := tdCfg{alt, bn, init, period, pn, term}
							initT := init / 1000000
							bs := boundaries(func(T int64) [3]int64 { return c.real(T * 1000000) }, initT, initT+2*c.termTime()+2)
							for hmode := int64(0); hmode <= 1; hmode++ {
								for _, T := range bs {
									ts := T * 1000000
									if T%3 == 1 {
										ts += 999999
									}
									for prop := int64(0); prop < pn; prop++ {
										run(fmt.Sprintf("tdacc %s %d %d %d %d", c, pn, hmode, ts, prop), true)
									}
									run(fmt.Sprintf("tdacc %s %d %d %d 99", c, pn, hmode, ts), true)
								}
							}
							if pn > 1 && period == 3 {
								// validator list shorter than proposer_num (index out of range in the plugin)
								for _, T := range bs {
									run(fmt.Sprintf("tdacc %s %d 0 %d 0", c, pn-1, T*1000000), true)
								}
							}
						}
					}
				}
			}
		}
	}
	// the same for configurations outside the theorems' hypotheses: excluded by the source comment
	// (alternateInterval < period, termInterval < alternateInterval) and period = 1 (slot 0 is empty).
	// No property is asserted (wf() is false / nothing to assert); the answers are compared with the model
	// and summarised in the evidence.
	exclAcc := map[string]int{}
	for _, c := range []tdCfg{{2, 2, 0, 3, 2, 3}, {1, 3, 0, 3, 2, 3}, {3, 2, 0, 3, 2, 2}, {4, 2, 0, 3, 3, 1}, {499, 2, 0, 500, 2, 500},
		{1, 2, 0, 1, 2, 1}, {1, 3, 0, 1, 3, 2}, {2, 1, 0, 1, 2, 2}} {
		tag := "excluded"
		if c.wf() {
			tag = "period1"
		}
		bs := boundaries(func(T int64) [3]int64 { return c.real(T * 1000000) }, 0, 2*c.termTime()+2)
		for _, T := range bs {
			g := c.real(T * 1000000)
			for prop := int64(0); prop < c.pn; prop++ {
				r := run(fmt.Sprintf("tdacc %s %d 0 %d %d", c, c.pn, T*1000000, prop), true)
				if r == "accept" {
					exclAcc[fmt.Sprintf("%s:accept:blockPos=%d", tag, g[2])]++
					if prop != g[1] {
						exclAcc[tag+":accept-other-than-scheduled-validator"]++
					}
				} else {
					exclAcc[tag+":"+r]++
				}
			}
		}
	}
	for _, period := range accPeriods {
		for bn := int64(1); bn <= 3; bn++ {
			for n := 1; n <= 3; n++ {
				tt := period * bn * int64(n)
				base := int64(1559021720000) / tt * tt
				bs := boundaries(func(T int64) [3]int64 { return xpReal(period, bn, T*1000000, n) }, base, base+2*tt+2)
				for _, mode := range []int{0, 1, 2, 4, 5, 6} {
					if mode >= 4 && period == 500 && !thorough {
						continue
					}
					for _, T := range bs {
						ts := T * 1000000
						if T%3 == 1 {
							ts += 999999
						}
						props := []int64{99, -1}
						for k := 0; k < n; k++ {
							props = append(props, int64(k))
							if mode == 2 || mode >= 4 {
								props = append(props, int64(50+k))
							}
						}
						for _, p := range props {
							run(fmt.Sprintf("xpacc %d %d %d %d %d %d", period, bn, n, mode, ts, p), true)
						}
					}
				}
			}
		}
	}
	// the set in force (contract snapshot, n+1 members) differs in size from the set the node holds in memory (n)
	for _, period := range accPeriods {
		for bn := int64(1); bn <= 3; bn++ {
			for n := 1; n <= 3; n++ {
				tt := period * bn * int64(n+1)
				base := int64(1559021720000) / tt * tt
				bs := boundaries(func(T int64) [3]int64 { return xpReal(period, bn, T*1000000, n+1) }, base, base+2*tt+2)
				for _, T := range bs {
					props := []int64{99, -1, int64(n)}
					for k := 0; k < n; k++ {
						props = append(props, int64(k), int64(50+k))
					}
					for _, p := range props {
						run(fmt.Sprintf("xpacc %d %d %d 3 %d %d", period, bn, n, T*1000000, p), true)
					}
				}
			}
		}
	}
	// 5. single: all combinations
	for _, idok := range []string{"1", "0"} {
		for _, p := range []string{"m", "o", "e"} {
			for _, k := range []string{"p", "x", "b"} {
				for _, s := range []string{"v", "w", "c", "f"} {
					run(fmt.Sprintf("single %s %s %s %s", idok, p, k, s), true)
				}
			}
		}
	}
	// 6. pow candidates on generated histories
	powCases := 6000
	if thorough {
		powCases = 120000
	}
	powRng := subRng(6)
	for i := 0; i < powCases; i++ {
		line := genPow(powRng)
		r := run(line, true)
		if i < 2 {
			out.Sample(map[string]string{"op": line, "impl": r})
		}
	}
	// 7. pow candidates on forked histories (side branches with their own timestamps; either branch is the main chain)
	forkCases := 6000
	if thorough {
		forkCases = 120000
	}
	forkRng := subRng(7)
	for i := 0; i < forkCases; i++ {
		line := genPowFork(forkRng)
		r := run(line, true)
		if i < 1 {
			out.Sample(map[string]string{"op": line, "impl": r})
		}
	}
	// 8. the pluggable-consensus layer: every genesis kind x every upgrade sequence of up to 2 (thorough: 3) upgrades
	//    x patterns of live upgrades and restarts x every candidate kind
	plugKinds := []string{"s0", "s1", "p", "t", "x"}
	plugCands := []string{"s0", "s1", "sp0", "p", "ps0", "t", "x", "n"}
	maxUps := 2
	if thorough {
		maxUps = 3
	}
	var upSeqs [][]string
	var rec func(cur []string)
	rec = func(cur []string) {
		upSeqs = append(upSeqs, append([]string{}, cur...))
		if len(cur) == maxUps {
			return
		}
		for _, k := range plugKinds {
			rec(append(cur, k))
		}
	}
	rec(nil)
	sort.SliceStable(upSeqs, func(i, j int) bool { return len(upSeqs[i]) < len(upSeqs[j]) }) // short histories first: minimal witnesses
	for _, ups := range upSeqs {
		for _, g := range plugKinds {
			k := len(ups)
			pats := map[string]bool{strings.Repeat("U", k): true, strings.Repeat("U", k) + "R": true, strings.Repeat("UR", k): true, "R" + strings.Repeat("U", k): true}
			if k >= 1 {
				pats[strings.Repeat("U", k-1)+"RU"] = true
				pats["UR"+strings.Repeat("U", k-1)+"R"] = true
				pats[strings.Repeat("U", k)+"RR"] = true
			}
			var ps []string
			for p := range pats {
				ps = append(ps, p)
			}
			sort.Strings(ps)
			upTok := "-"
			if k > 0 {
				upTok = strings.Join(ups, ",")
			}
			for _, p := range ps {
				if p == "" {
					p = "-"
				}
				for _, c := range plugCands {
					run(fmt.Sprintf("plug %s %s %s %s", g, upTok, p, c), true)
				}
			}
		}
	}
	// 9. tdpos vote-based election: random ledgers / election records / storage faults around term boundaries
	elScenarios := 1500
	if thorough {
		elScenarios = 30000
	}
	elRng := subRng(9)
	for i := 0; i < elScenarios; i++ {
		genTdel(elRng, func(line string) { run(line, true) })
	}
	out.Sample(map[string]string{"op": "tdel 2 2 1 0,1 0,1,1,1,1 1@2=5;3=4;0=1 v2 5 2 0 0 3", "impl": exec("tdel 2 2 1 0,1 0,1,1,1,1 1@2=5;3=4;0=1 v2 5 2 0 0 3")})
	out.Sample(map[string]string{"op": "plug s0 p UR sp0", "impl": exec("plug s0 p UR sp0")})
	out.Sample(map[string]string{"op": "tdr 3 2 0 3 2 3 0 40", "impl": exec("tdr 3 2 0 3 2 3 0 40")})
	out.Sample(map[string]string{"op": "sc 486604799", "impl": exec("sc 486604799")})
	out.Stats.Exhaustive = false
	out.Stats.Extra = map[string]interface{}{
		"schedule_milliseconds_checked": msTotal,
		"excluded_configurations": map[string]interface{}{
			"what":                   "tdpos configurations with alternateInterval < period or termInterval < alternateInterval (excluded by the source comment), every ms of two terms on the real minerScheduling",
			"counts":                 excluded,
			"check_miner_match":      exclAcc,
			"check_miner_match_what": "tdpos CheckMinerMatch at every schedule change -1/0/+1 ms of two terms, every validator as proposer: 'excluded' = configurations violating the source comment's constraint, 'period1' = well-formed configurations with period 1 ms (slot 0 is empty there, so blockPos=0 is never accepted)",
		},
	}
	out.Stats.Rule = fmt.Sprintf("schedules: EXHAUSTIVE over period in {1,3,500} x blockNum 1..4 x proposerNum 1..4 x alternateInterval in {p,p+1,2p+1} x termInterval in {a,a+2,2a+p} (x 2 start times; xpoa: validators 1..4, two epochs) x every millisecond of three terms (%d ms), run-length compared with the regenerated Lean definition, plus 6000 random sub-millisecond points; compact codec: all boundary encodings + %d random encodings/numbers; acceptance: tdpos/xpoa CheckMinerMatch at every slot boundary -1/0/+1 ms of two terms x every proposer (validators, outsider, empty, stale set) x ledger modes, single: all 72 combinations, pow: %d random candidates on generated single-chain histories + %d on forked histories (two branches with their own timestamps, either one the main chain; retarget boundaries, clamp boundaries, hash at target-1/target/target+1, target bits a by-height look-up would prescribe), each followed by three probes around the independently computed prescribed target; pluggable consensus: every genesis kind x every upgrade sequence of up to %d upgrades over {single(2 miners), pow, tdpos, xpoa} x 4-7 patterns of live upgrades and restarts x 8 candidate kinds, each scenario run 16 times; tdpos election: %d random scenarios (ledger with term boundaries, 1-4 election records around the deciding snapshot, ties, non-positive totals, undecodable records, storage faults) x every slot position x every plausible proposer; a case is one op line, non-trivial = distinct",
		msTotal, samples, powCases, forkCases, maxUps, elScenarios)
}
