package main

import (
	"sync"
	"encoding/json"
	"fmt"
	"math/big"
	"sort"
	"strconv"
	"strings"

	"github.com/xuperchain/xupercore/bcs/consensus/pow"
	"github.com/xuperchain/xupercore/kernel/consensus/def"
	"xv/xvlib"
)

type powCfg struct {
	D    uint32 // defaultTarget
	G, E int64  // adjustHeightGap, expectedPeriod
	M    uint32 // maxTarget
}

func (c powCfg) bitcoin() bool { return c.D > 256 }

type powBlk struct {
	bits   int64 // -1: consensus storage does not parse
	ts     int64
	hasVal bool
}

func powStorage(bits int64) []byte {
	if bits < 0 {
		return []byte("not json")
	}
	b, _ := json.Marshal(map[string]uint32{"targetBits": uint32(bits)})
	return b
}

func bitsTok(b int64) string {
	if b < 0 {
		return "x"
	}
	return strconv.FormatInt(b, 10)
}

func parseBits(s string) int64 {
	if s == "x" {
		return -1
	}
	v := atoi(s)
	if v < 0 || v > 0xffffffff {
		panic("bad-bits")
	}
	return v
}

// specTarget: the number a target-bits value stands for under this configuration.
func (c powCfg) specTarget(bits uint32) *big.Int {
	if c.bitcoin() {
		return specDecode(bits)
	}
	return new(big.Int).Lsh(one, uint(256-bits))
}

// specPrescribed: the target bits the chain's own history prescribes for a block at `height` whose
// parent is chain[parent] (the retarget rule of the plugin, written independently of pow.go, with own
// compact codec).  ok=false: the rule gives no value (unparsable ancestor / division by zero).
func (c powCfg) specPrescribed(chain []powBlk, parent int, height int64) (bits uint32, ok bool) {
	return c.prescribedWith(chain, parent, height, 1, 4)
}

// prescribedWith: the retarget rule with the ancestor whose bits are inherited (back = 1: the block before
// the parent, as the plugin does; 0: the parent) and the clamp factor (4; 0 = no clamp) as parameters.  Only
// (1, 4) is the rule; the other settings give the generator plausible-but-wrong target bits to offer.
func (c powCfg) prescribedWith(chain []powBlk, parent int, height int64, back int, clamp int64) (bits uint32, ok bool) {
	r := theRule
	r.back = back
	if clamp > 0 {
		r.loThr, r.loTo, r.hiThr, r.hiTo = [2]int64{1, clamp}, [2]int64{1, clamp}, [2]int64{clamp, 1}, [2]int64{clamp, 1}
	} else {
		r.loTo, r.hiTo = [2]int64{}, [2]int64{}
	}
	return c.prescribedBy(r, chain, parent, height)
}

// retargetRule: the retarget rule with its constants as parameters.  theRule is the rule; every other setting is a
// plausible wrong rule (used to search for a target a defective implementation accepts instead).
type retargetRule struct {
	back         int      // the ancestor whose bits are inherited and whose timestamp ends the window: 1 = the block before the parent
	farShift     int      // the window start moved by that many blocks
	loThr, hiThr [2]int64 // clamp thresholds as fractions num/den of the expected span
	loTo, hiTo   [2]int64 // what the span is set to beyond a threshold; {0,0}: that side is not clamped
}

var theRule = retargetRule{back: 1, loThr: [2]int64{1, 4}, loTo: [2]int64{1, 4}, hiThr: [2]int64{4, 1}, hiTo: [2]int64{4, 1}}

func (c powCfg) prescribedBy(r retargetRule, chain []powBlk, parent int, height int64) (bits uint32, ok bool) {
	back := r.back
	if c.G <= 0 {
		return 0, false
	}
	if height <= c.G {
		return c.D, true
	}
	if parent < 0 || parent >= len(chain) || parent-back < 0 {
		return c.D, true
	}
	pre := chain[parent-back] // the rule reads the difficulty two blocks back
	if pre.bits < 0 {
		return 0, false
	}
	if height%c.G != 0 {
		return uint32(pre.bits), true
	}
	far := parent - back - int(c.G-1) + r.farShift
	if far < 0 || far >= len(chain) {
		return c.D, true
	}
	expected := c.E * (c.G - 1)
	actual := (pre.ts - chain[far].ts) / 1000000000
	frac := func(f [2]int64) int64 { return expected * f[0] / f[1] }
	if r.loTo[1] != 0 && actual < frac(r.loThr) {
		actual = frac(r.loTo)
	}
	if r.hiTo[1] != 0 && actual > frac(r.hiThr) {
		actual = frac(r.hiTo)
	}
	if actual < 0 {
		return 0, false
	}
	if c.bitcoin() {
		if expected == 0 {
			return 0, false
		}
		d := specDecode(uint32(pre.bits))
		d.Mul(d, big.NewInt(actual))
		d.Div(d, big.NewInt(expected))
		if d.Cmp(specDecode(c.M)) < 0 {
			return c.M, true
		}
		if d.BitLen() > 8*255 {
			return uint32(pre.bits), true
		}
		return specEncode(d), true
	}
	if actual == 0 {
		return 0, false
	}
	d := new(big.Int).Lsh(one, uint(pre.bits))
	d.Mul(d, big.NewInt(expected))
	d.Div(d, big.NewInt(actual))
	nb := uint32(d.BitLen() - 1)
	if nb > c.M {
		nb = c.M
	}
	return nb, true
}

// wrongRules: the family of near-miss retarget rules searched when the implementation refuses the prescribed target
func wrongRules() []retargetRule {
	var res []retargetRule
	los := [][2]int64{{1, 4}, {1, 2}, {1, 8}, {4, 1}, {0, 0}}
	his := [][2]int64{{4, 1}, {2, 1}, {8, 1}, {1, 4}, {0, 0}}
	for back := 0; back <= 2; back++ {
		for shift := -1; shift <= 1; shift++ {
			for _, lo := range los {
				for _, hi := range his {
					r := retargetRule{back: back, farShift: shift, loThr: [2]int64{1, 4}, loTo: lo, hiThr: [2]int64{4, 1}, hiTo: hi}
					res = append(res, r)
					if lo[1] != 0 && hi[1] != 0 && lo[0] < lo[1] && hi[0] > hi[1] {
						r.loThr, r.hiThr = lo, hi // another clamp window altogether
						res = append(res, r)
					}
				}
			}
		}
	}
	// the smallest deviations from the rule first, so that a hit names the simplest explanation
	dev := func(r retargetRule) int {
		n := 0
		for _, d := range []bool{r.back != theRule.back, r.farShift != 0, r.loThr != theRule.loThr, r.hiThr != theRule.hiThr, r.loTo != theRule.loTo, r.hiTo != theRule.hiTo} {
			if d {
				n++
			}
		}
		return n
	}
	sort.SliceStable(res, func(i, j int) bool { return dev(res[i]) < dev(res[j]) })
	return res
}

// legalTarget: may a block declare these bits at all (bitcoin style: sign bit clear, not harder than the configured
// floor, and a size byte of at most 32 - the plugin's SetCompact reports overflow for every larger size, a documented
// quirk kept out of the probes; legacy style: at most 256 leading zero bits)
func (c powCfg) legalTarget(bits uint32) bool {
	if !c.bitcoin() {
		return bits <= 256
	}
	return bits&0x800000 == 0 && bits>>24 <= 32 && specDecode(bits).Cmp(specDecode(c.M)) >= 0 && specDecode(bits).Sign() > 0
}

// pow  <D> <G> <E> <M> <n> (<bits|x> <ts>){n} <height> <parent> <bits|x> <ts> <hash> <idok> <key> <sig>
// powf <D> <G> <E> <M> <n> (<bits|x> <ts> <par>){n} <main> <height> <parent> <bits|x> <ts> <hash> <idok> <key> <sig>
// key: p proposer's own key / x another account's key / b not a key;  sig: v valid / w over other data / f other private key
//
// powf: the ledger is a block TREE.  Block i names block par (< i; -1: a pre-hash the ledger does not know) as its
// parent and sits one above it (height 0 without parent); <main> is the index of the tip of the main chain: the
// ledger answers QueryBlockByHeight / GetTipBlock from the ancestors of that block, QueryBlock by id from all blocks.
// `pow` is the special case par = i-1, main = n-1.
func execPow(line string, w []string) string {
	forked := w[0] == "powf"
	per := 2
	if forked {
		per = 3
	}
	if len(w) < 6 {
		return "bad-op"
	}
	c := powCfg{D: uint32(parseBits(w[1])), G: atoi(w[2]), E: atoi(w[3]), M: uint32(parseBits(w[4]))}
	n := int(atoi(w[5]))
	tail := 8
	if forked {
		tail = 9
	}
	if n < 1 || n > 250 || len(w) != 6+per*n+tail {
		return "bad-op"
	}
	all := make([]powBlk, n)
	pars := make([]int, n)
	blks := make([]*blk, n)
	for i := 0; i < n; i++ {
		all[i] = powBlk{bits: parseBits(w[6+per*i]), ts: atoi(w[7+per*i])}
		pars[i] = i - 1
		if forked {
			pars[i] = int(atoi(w[8+per*i]))
			if pars[i] < -1 || pars[i] >= i {
				return "bad-op"
			}
		}
		b := &blk{proposer: acct(0).Address, id: []byte{byte(i), 0xF}, pre: []byte{0xEE, byte(i), 0xF0}, storage: powStorage(all[i].bits), ts: all[i].ts}
		if pars[i] >= 0 {
			b.pre = blks[pars[i]].id
			b.height = blks[pars[i]].height + 1
		}
		blks[i] = b
	}
	r := w[6+per*n:]
	mainTip := n - 1
	if forked {
		mainTip = int(atoi(r[0]))
		r = r[1:]
		if mainTip < 0 || mainTip >= n {
			return "bad-op"
		}
	}
	// pathTo(i): the line of ancestors of block i, oldest first
	pathTo := func(i int) []int {
		var p []int
		for ; i >= 0; i = pars[i] {
			p = append([]int{i}, p...)
		}
		return p
	}
	l := newStubLedger()
	onMain := map[int]bool{}
	for _, i := range pathTo(mainTip) {
		l.put(blks[i])
		onMain[i] = true
	}
	for i := range blks {
		if !onMain[i] {
			l.putSide(blks[i])
		}
	}
	height, parent, cbits, cts := atoi(r[0]), int(atoi(r[1])), parseBits(r[2]), atoi(r[3])
	hash, okh := new(big.Int).SetString(r[4], 10)
	if !okh || hash.Sign() < 0 || hash.Cmp(two256) >= 0 {
		return "bad-op"
	}
	if !c.bitcoin() && (cbits > 256 || c.D > 256) {
		return "bad-op" // legacy branch shifts by 256-bits
	}
	js, _ := json.Marshal(map[string]string{"defaultTarget": strconv.FormatUint(uint64(c.D), 10), "adjustHeightGap": strconv.FormatInt(c.G, 10),
		"expectedPeriod": strconv.FormatInt(c.E, 10), "maxTarget": strconv.FormatUint(uint64(c.M), 10)})
	// StartHeight above the tip: the constructor does not retarget
	inst := pow.NewPoWConsensus(newCtx(l, 0), def.ConsensusConfig{ConsensusName: "pow", Config: string(js), StartHeight: int64(n) + 5})
	if inst == nil {
		return "noinst"
	}
	id := hash.Bytes()
	if len(id) == 0 {
		id = []byte{0}
	}
	const miner, third = 1, 2
	b := &blk{proposer: acct(miner).Address, height: height, id: id, storage: powStorage(cbits), ts: cts}
	// the candidate's own history: what the property lets the target depend on
	var chain []powBlk
	own := -1
	if parent >= 0 && parent < n {
		b.pre = blks[parent].id
		for _, i := range pathTo(parent) {
			chain = append(chain, all[i])
		}
		own = len(chain) - 1
	} else {
		b.pre = []byte{0xEE, 0xEE}
	}
	switch r[5] {
	case "1":
	case "0":
		b.madeID = append([]byte{0x77}, id...)
	default:
		return "bad-op"
	}
	signer := miner
	switch r[6] {
	case "p":
		b.pub = acct(miner).PubJSON
	case "x":
		b.pub = acct(third).PubJSON
		signer = third
	case "b":
		b.pub = "{not a key"
	default:
		return "bad-op"
	}
	switch r[7] {
	case "v":
		b.sign = sign(signer, id)
	case "w":
		b.sign = sign(signer, []byte{9, 9, 9})
	case "f":
		b.sign = sign(outsider, id)
	default:
		return "bad-op"
	}
	ok, _ := inst.CheckMinerMatch(bctx, b)
	if ok {
		// property: accepted => hash <= target prescribed by the chain's history, bits are the prescribed
		// ones, timestamp not before the parent's, id recomputes, signed by the proposer
		var why []string
		key := ""
		want, has := c.specPrescribed(chain, own, height)
		switch {
		case cbits < 0 || !has || uint32(cbits) != want:
			key = "pow-accept-wrong-target"
			why = append(why, fmt.Sprintf("target bits %s, the block's own ancestors prescribe %d (defined=%v)", bitsTok(cbits), want, has))
		case hash.Cmp(c.specTarget(want)) > 0:
			key = "pow-accept-hash-above-target"
			why = append(why, fmt.Sprintf("hash %s above target %s", hash, c.specTarget(want)))
		case c.bitcoin() && (want&0x800000 != 0 || c.specTarget(want).Cmp(specDecode(c.M)) < 0 || c.specTarget(want).BitLen() > 256):
			key = "pow-accept-illegal-target"
			why = append(why, fmt.Sprintf("target bits %#x are negative, overflow 256 bits or are below the configured hardest target", want))
		}
		if key == "" && (parent < 0 || parent >= n) {
			key = "pow-accept-unknown-parent"
			why = append(why, "parent not in the ledger")
		}
		if key == "" && cts < all[parent].ts {
			key = "pow-accept-timestamp-before-parent"
			why = append(why, fmt.Sprintf("timestamp %d before the parent's %d", cts, all[parent].ts))
		}
		if key == "" && r[5] != "1" {
			key = "pow-accept-bad-blockid"
			why = append(why, "block id does not recompute")
		}
		if key == "" && !(r[6] == "p" && r[7] == "v") {
			key = "pow-accept-bad-signature"
			why = append(why, "not signed by the proposer")
		}
		if key != "" {
			out.Violate(xvlib.Violation{Key: key, What: "pow CheckMinerMatch accepted a block: " + strings.Join(why, "; "), Ops: []string{line}, Impl: []string{"accept"}})
		}
	}
	// probes around the prescribed target: on the same ledger, an otherwise flawless block (parent's timestamp, id
	// recomputes, signed by its proposer) declaring the bits its own ancestors prescribe is presented with a hash
	// one below, at, and one above the target those bits stand for.  The first two must pass, the third must not.
	if want, has := c.specPrescribed(chain, own, height); has && own >= 0 && c.legalTarget(want) {
		prefix := strings.Join(w[:len(w)-8], " ")
		pts := all[parent].ts // the probes carry their parent's timestamp: 'not before its parent's'
		probe := func(bits uint32, hash *big.Int) (acc bool, pl string) {
			defer func() {
				if recover() != nil {
					acc = false
				}
			}()
			pid := hash.Bytes()
			if len(pid) == 0 {
				pid = []byte{0}
			}
			sg, err := xvlib.Crypto().SignECDSA(acct(miner).Pri, pid)
			if err != nil {
				panic(err)
			}
			pb := &blk{proposer: acct(miner).Address, height: height, id: pid, pre: blks[parent].id, storage: powStorage(int64(bits)), ts: pts,
				pub: acct(miner).PubJSON, sign: sg}
			pl = fmt.Sprintf("%s %d %d %d %d %s 1 p v", prefix, height, parent, bits, pts, hash)
			acc, _ = inst.CheckMinerMatch(bctx, pb)
			return
		}
		T := c.specTarget(want)
		if T.Cmp(two256) >= 0 {
			T = new(big.Int).Sub(two256, one)
		}
		accT, lineT := probe(want, T)
		accLo := accT
		if T.Sign() > 0 {
			accLo, _ = probe(want, new(big.Int).Sub(T, one))
		}
		if above := new(big.Int).Add(T, one); above.Cmp(two256) < 0 && above.Cmp(c.specTarget(want)) > 0 {
			if accHi, lineHi := probe(want, above); accHi {
				out.Violate(xvlib.Violation{Key: "pow-accepts-above-target", What: fmt.Sprintf("pow CheckMinerMatch accepted a flawless block whose hash %s is one above the target %s its own ancestors prescribe (bits %d)", above, T, want),
					Ops: []string{lineHi}, Impl: []string{"accept"}})
			}
		}
		// the same verdicts when several goroutines ask the same instance at once (block sync verifies received blocks while
		// the miner goroutine grinds nonces through the same IsProofed): one case in sixteen, chosen by the line itself
		if above := new(big.Int).Add(T, one); accT && above.Cmp(two256) < 0 && above.Cmp(c.specTarget(want)) > 0 && xvlib.Sum8([]byte(line))[0]%16 == 0 {
			var mu sync.Mutex
			bad := ""
			var wg sync.WaitGroup
			inst.Start() // the instance's own loop takes the "higher block seen" notices of accepted blocks
			for g := 0; g < 8; g++ {
				wg.Add(1)
				go func(g int) {
					defer wg.Done()
					for k := 0; k < 150; k++ {
						h, wantAcc := T, true
						if (g+k)%2 == 1 {
							h, wantAcc = above, false
						}
						if acc, _ := probe(want, h); acc != wantAcc {
							mu.Lock()
							bad = fmt.Sprintf("hash %s (target %s): accepted=%v, alone the same call answers %v", h, T, acc, wantAcc)
							mu.Unlock()
							return
						}
					}
				}(g)
			}
			wg.Wait()
			inst.Stop()
			if bad != "" {
				out.Violate(xvlib.Violation{Key: "pow-verdict-differs-under-concurrency", What: "pow CheckMinerMatch asked by several goroutines at once about flawless blocks at and one above the prescribed target: " + bad,
					Ops: []string{line}, Impl: []string{bad}})
			}
		}
		switch {
		case accT:
		case accLo:
			out.Violate(xvlib.Violation{Key: "pow-rejects-at-target", What: fmt.Sprintf("pow CheckMinerMatch refused a flawless block whose hash equals the target %s its own ancestors prescribe (bits %d) and accepts one below: 'not above the target' includes the target", T, want),
				Ops: []string{lineT}, Impl: []string{"reject"}})
		default:
			// is it the timestamp?  the same block stamped after every block of the ledger
			for _, b := range all {
				if b.ts >= pts {
					pts = b.ts + 1000000000
				}
			}
			accLate, _ := probe(want, T)
			pts = all[parent].ts
			if accLate {
				out.Violate(xvlib.Violation{Key: "pow-rejects-timestamp-of-parent", What: fmt.Sprintf("pow CheckMinerMatch refused a flawless block (prescribed bits %d, hash = target) carrying its parent's timestamp %d and accepts it with a timestamp after every block of the ledger: 'not before its parent's' is judged against another block", want, pts),
					Ops: []string{lineT}, Impl: []string{"reject"}})
				break
			}
			// the implementation demands another target: find it among the near-miss rules and exhibit the block it accepts instead
			found := false
			seen := map[uint32]bool{want: true}
			for _, rule := range wrongRules() {
				alt, okAlt := c.prescribedBy(rule, chain, own, height)
				if !okAlt || seen[alt] || (!c.bitcoin() && alt > 256) {
					continue
				}
				seen[alt] = true
				TA := c.specTarget(alt)
				if TA.Cmp(two256) >= 0 {
					TA = new(big.Int).Sub(two256, one)
				}
				if accA, lineA := probe(alt, TA); accA {
					rel := "ABOVE"
					if TA.Cmp(T) <= 0 {
						rel = "not above"
					}
					out.Violate(xvlib.Violation{Key: "pow-accept-wrong-target", What: fmt.Sprintf("pow CheckMinerMatch accepted a block declaring target bits %d (hash %s, %s the prescribed target) where its own ancestors prescribe bits %d (target %s), and refuses the block that declares and meets the prescribed target; the accepted bits are what the retarget rule gives with %+v",
						alt, TA, rel, want, T, rule), Ops: []string{lineA}, Impl: []string{"accept"}})
					found = true
					break
				}
			}
			what := fmt.Sprintf("pow CheckMinerMatch refused a flawless block that declares the target bits %d its own ancestors prescribe and whose hash %s equals that target (one below is refused too): the implementation prescribes another target", want, T)
			if !found {
				what += "; none of the near-miss retarget rules tried reproduces it"
			}
			out.Violate(xvlib.Violation{Key: "pow-rejects-prescribed-target", What: what, Ops: []string{lineT}, Impl: []string{"reject"}})
		}
	}
	return verdict(ok)
}

// ------------------------------------------------------------------ generator for pow cases

var powCfgs = []powCfg{
	{D: 0x207fffff, G: 2, E: 15, M: 0x1d00ffff},
	{D: 0x207fffff, G: 3, E: 10, M: 0x1f00ffff},
	{D: 0x1f00ffff, G: 4, E: 8, M: 0x1d00ffff},
	{D: 0x1e7fffff, G: 3, E: 7, M: 0x03123456},  // expected span 14: not a multiple of 4
	{D: 0x2000ffff, G: 2, E: 3, M: 0x2000ffff},  // expected span 3: lower clamp is 0
	{D: 0x207fffff, G: 1, E: 15, M: 0x1d00ffff}, // expected span 0: big.Int division by zero
	{D: 16, G: 2, E: 15, M: 40},                 // legacy (leading-zero-bits) encoding
	{D: 10, G: 3, E: 2, M: 200},
}

func genPow(rng *xvlib.Rng) string {
	c := powCfgs[rng.Intn(len(powCfgs))]
	n := 1 + rng.Intn(int(2*c.G)+3)
	chain := make([]powBlk, n)
	ts := int64(1000) * 1000000000
	expected := c.E * (c.G - 1)
	for i := 0; i < n; i++ {
		// inter-block times around the clamp boundaries expected/4 and expected*4 of the span
		steps := []int64{0, 1, expected / 4, expected/4 + 1, expected, 4 * expected, 4*expected + 1, expected / 8}
		ts += steps[rng.Intn(len(steps))]*1000000000/maxi(c.G-1, 1) + int64(rng.Intn(3))*333333333
		chain[i].ts = ts
		want, has := c.specPrescribed(chain[:i], i-1, int64(i))
		switch {
		case i == 0 && rng.Chance(1, 4):
			chain[i].bits = -1 // genesis without pow storage
		case !has || rng.Chance(1, 12):
			chain[i].bits = int64(c.D)
		default:
			chain[i].bits = int64(want)
		}
		if rng.Chance(1, 40) {
			chain[i].bits = -1
		}
		if c.bitcoin() && rng.Chance(1, 25) {
			// a stored block whose target is harder than the configured floor / has the sign bit / overflows
			switch rng.Intn(3) {
			case 0:
				chain[i].bits = int64(specEncode(new(big.Int).Rsh(specDecode(c.M), uint(1+rng.Intn(9)))))
			case 1:
				chain[i].bits = int64(c.D | 0x800000)
			case 2:
				chain[i].bits = int64(uint32(33+rng.Intn(3))<<24 | 0x00ffff)
			}
		}
	}
	parent := n - 1
	if rng.Chance(1, 10) {
		parent = rng.Intn(n+1) - 1
	}
	height := int64(parent + 1)
	if rng.Chance(1, 8) {
		height += int64(rng.Intn(5)) - 2
	}
	want, has := c.specPrescribed(chain, parent, height)
	if !has {
		want = c.D
	}
	cbits := int64(want)
	switch rng.Intn(12) {
	case 0:
		cbits = int64(c.D)
	case 1:
		cbits = int64(want) + 1
	case 2:
		if want > 0 {
			cbits = int64(want) - 1
		}
	case 3:
		if parent >= 0 && chain[parent].bits >= 0 {
			cbits = chain[parent].bits
		}
	case 4:
		cbits = -1
	case 5:
		if c.bitcoin() {
			cbits = int64(want) | 0x800000
		}
	case 6, 7:
		// what a slightly different retarget rule would prescribe
		alt := [][2]int64{{0, 4}, {1, 2}, {1, 8}, {1, 0}, {0, 2}, {1, 3}, {1, 5}}[rng.Intn(7)]
		if v, ok := c.prescribedWith(chain, parent, height, int(alt[0]), alt[1]); ok {
			cbits = int64(v)
		}
	}
	if !c.bitcoin() && cbits > 256 {
		cbits = 256
	}
	cts := ts
	if parent >= 0 {
		cts = chain[parent].ts
	}
	switch rng.Intn(6) {
	case 0:
		cts--
	case 1:
		cts -= 1000000000
	case 2, 3:
		cts += int64(rng.Intn(30)) * 1000000000
	}
	var target *big.Int
	if cbits >= 0 {
		target = c.specTarget(uint32(cbits))
	} else {
		target = c.specTarget(want)
	}
	if target.Cmp(two256) >= 0 {
		target = new(big.Int).Sub(two256, one)
	}
	hash := new(big.Int).Set(target)
	switch rng.Intn(8) {
	case 0:
		hash.Add(hash, one)
	case 1:
		if hash.Sign() > 0 {
			hash.Sub(hash, one)
		}
	case 2:
		hash.SetInt64(int64(rng.Intn(1000)))
	case 3:
		hash.Sub(two256, one)
	case 4:
		hash.Rsh(hash, uint(1+rng.Intn(16)))
	case 5:
		hash.Lsh(hash, 1)
	}
	if hash.Cmp(two256) >= 0 {
		hash.Sub(two256, one)
	}
	idok, key, sig := "1", "p", "v"
	if rng.Chance(1, 10) {
		idok = "0"
	}
	if rng.Chance(1, 10) {
		key = []string{"x", "b"}[rng.Intn(2)]
	}
	if rng.Chance(1, 8) {
		sig = []string{"w", "f"}[rng.Intn(2)]
	}
	var sb strings.Builder
	fmt.Fprintf(&sb, "pow %d %d %d %d %d", c.D, c.G, c.E, c.M, n)
	for _, b := range chain {
		fmt.Fprintf(&sb, " %s %d", bitsTok(b.bits), b.ts)
	}
	fmt.Fprintf(&sb, " %d %d %s %d %s %s %s %s", height, parent, bitsTok(cbits), cts, hash, idok, key, sig)
	return sb.String()
}

func maxi(a, b int64) int64 {
	if a > b {
		return a
	}
	return b
}
