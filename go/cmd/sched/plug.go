package main

// Op `plug`: the pluggable-consensus layer (kernel/consensus/pluggable_consensus.go) - WHICH plugin instance
// judges a candidate block after a history of consensus upgrades and node restarts.
//
//	plug <genesis> <upgrades|-> <events|-> <cand>     -> "<accept|reject> <name of the consensus in force>" | ambiguous
//
//	genesis, upgrades (comma list): consensus kinds  s0 s1 (single, two different miners)  p (pow)  t (tdpos)  x (xpoa)
//	events: a word over U (the next upgrade of the list is proposed live: the real updateConsensus kernel method
//	        is called with a contract context over the chain's contract storage) and R (the node restarts:
//	        NewPluggableConsensus on the same ledger and storage).  The number of U equals the number of upgrades.
//	cand:   a block built to pass CheckMinerMatch of exactly the named kinds
//	        s0 s1  signed by that single miner            sp0  by miner s0, carrying pow storage but a hash above the target
//	        p      proof of work by the pow account        ps0  proof of work, proposed and signed by miner s0 (passes both)
//	        t      tdpos validator of the slot             x    xpoa validator of the slot            n  outsider, no work
//
// An upgrade the real checkSameNameConsensus refuses (same name with another configuration, or the configuration
// already in force) leaves the history unchanged.  `ambiguous`: the stored history holds entries of the upgrade's
// name that checkSameNameConsensus would judge differently, so that its verdict depends on Go's map order - such
// lines are not executed.
//
// Every scenario is executed several times from scratch (the restore path ranges over a Go map, whose order
// changes from run to run); all runs must agree.

import (
	"encoding/json"
	"fmt"
	"math/big"
	"strconv"
	"strings"

	"github.com/xuperchain/xupercore/kernel/consensus"
	"github.com/xuperchain/xupercore/kernel/consensus/def"
	"github.com/xuperchain/xupercore/kernel/contract"
	"github.com/xuperchain/xupercore/protos"
	"xv/xvlib"
)

type plugKind struct {
	tok  string
	name string
	cfg  int
}

const (
	plugS0, plugS1, plugPow = 30, 31, 32
	plugTd, plugXp          = 33, 35 // two validators each
	plugSelf                = 45
	plugPowBits             = 0x207fffff
	plugTdInit              = int64(1600000000000) * 1000000
)

var plugTdCfg = tdCfg{alt: 1000, bn: 2, init: plugTdInit, period: 1000, pn: 2, term: 1000}

func plugKindOf(tok string) (plugKind, bool) {
	switch tok {
	case "s0":
		return plugKind{tok, "single", 0}, true
	case "s1":
		return plugKind{tok, "single", 1}, true
	case "p":
		return plugKind{tok, "pow", 0}, true
	case "t":
		return plugKind{tok, "tdpos", 0}, true
	case "x":
		return plugKind{tok, "xpoa", 0}, true
	}
	return plugKind{}, false
}

func (k plugKind) configMap() map[string]interface{} {
	switch k.tok {
	case "s0", "s1":
		return map[string]interface{}{"version": "0", "miner": acct(plugS0 + k.cfg).Address, "period": "3000"}
	case "p":
		return map[string]interface{}{"defaultTarget": strconv.Itoa(plugPowBits), "adjustHeightGap": "1000000", "expectedPeriod": "15", "maxTarget": "486604799"}
	case "t":
		c := plugTdCfg
		return map[string]interface{}{
			"timestamp": strconv.FormatInt(c.init, 10), "proposer_num": strconv.FormatInt(c.pn, 10), "period": strconv.FormatInt(c.period, 10),
			"alternate_interval": strconv.FormatInt(c.alt, 10), "term_interval": strconv.FormatInt(c.term, 10), "block_num": strconv.FormatInt(c.bn, 10),
			"vote_unit_price": "1", "init_proposer": map[string][]string{"1": {acct(plugTd).Address, acct(plugTd + 1).Address}},
		}
	default:
		return map[string]interface{}{"period": 1000, "block_num": 2, "init_proposer": map[string][]string{"address": {acct(plugXp).Address, acct(plugXp + 1).Address}}}
	}
}

// configString: as updateConsensus re-marshals the proposal's config object (keys sorted)
func (k plugKind) configString() string {
	b, _ := json.Marshal(k.configMap())
	return string(b)
}

// plugRefused: checkSameNameConsensus as a specification over the effective history (index order);
// ambiguous = entries of the same name disagree
func plugRefused(hist []plugKind, k plugKind) (refused, ambiguous bool) {
	yes, no := false, false
	for i, e := range hist {
		if e.name != k.name {
			continue
		}
		if e.cfg == k.cfg && i != len(hist)-1 {
			no = true
		} else {
			yes = true
		}
	}
	return yes, yes && no
}

// plugSat: does the candidate pass CheckMinerMatch of an instance of kind k (by construction of the candidates;
// the plugins' own rules are decided by the other ops of this engine)
func plugSat(cand string, k plugKind) bool {
	switch cand {
	case "s0", "sp0":
		return k.tok == "s0"
	case "s1":
		return k.tok == "s1"
	case "p":
		return k.name == "pow"
	case "ps0":
		return k.name == "pow" || k.tok == "s0"
	case "t":
		return k.name == "tdpos"
	case "x":
		return k.name == "xpoa"
	}
	return false
}

// ---- contract side: a registry that records the kernel methods and a contract context over a shared store

type capReg struct {
	m map[string]contract.KernMethod
}

func (r *capReg) RegisterKernMethod(c, m string, f contract.KernMethod) { r.m[c+"/"+m] = f }
func (r *capReg) RegisterShortcut(string, string, string)               {}
func (r *capReg) GetKernMethod(c, m string) (contract.KernMethod, error) {
	if f, ok := r.m[c+"/"+m]; ok {
		return f, nil
	}
	return nil, fmt.Errorf("none")
}

type capMgr struct{ reg *capReg }

func (capMgr) NewContext(*contract.ContextConfig) (contract.Context, error) { return nil, nil }
func (capMgr) NewStateSandbox(*contract.SandboxConfig) (contract.StateSandbox, error) {
	return nil, nil
}
func (m capMgr) GetKernRegistry() contract.KernRegistry { return m.reg }

type kctx struct {
	args  map[string][]byte
	store map[string][]byte // bucket/key -> value: the chain's contract storage
}

func (c *kctx) Args() map[string][]byte { return c.args }
func (c *kctx) Initiator() string       { return acct(plugSelf).Address }
func (c *kctx) Caller() string          { return "" }
func (c *kctx) AuthRequire() []string   { return nil }
func (c *kctx) Get(bucket string, key []byte) ([]byte, error) {
	return c.store[bucket+"/"+string(key)], nil
}
func (c *kctx) Select(string, []byte, []byte) (contract.Iterator, error) { return nil, nil }
func (c *kctx) Put(bucket string, key, value []byte) error {
	c.store[bucket+"/"+string(key)] = append([]byte{}, value...)
	return nil
}
func (c *kctx) Del(bucket string, key []byte) error {
	delete(c.store, bucket+"/"+string(key))
	return nil
}
func (c *kctx) Transfer(string, string, *big.Int) error { return nil }
func (c *kctx) AddEvent(...*protos.ContractEvent)       {}
func (c *kctx) Flush() error                            { return nil }
func (c *kctx) RWSet() *contract.RWSet                  { return nil }
func (c *kctx) UTXORWSet() *contract.UTXORWSet          { return &contract.UTXORWSet{} }
func (c *kctx) AddResourceUsed(contract.Limits)         {}
func (c *kctx) ResourceLimit() contract.Limits          { return contract.Limits{} }
func (c *kctx) Call(string, string, string, map[string][]byte) (*contract.Response, error) {
	return nil, nil
}

// ---- one scenario

var plugTS int64 // a timestamp inside a production slot of the tdpos schedule (validator #1), after the ledger's blocks

func plugTimestamp() int64 {
	if plugTS == 0 {
		c := plugTdCfg
		for T := c.init/1000000 + c.termTime() + 1; ; T++ {
			if r, in := c.spec(T * 1000000); in && r[1] == 1 {
				plugTS = T*1000000 + 500000
				break
			}
		}
	}
	return plugTS
}

func plugCandidate(cand string, l *stubLedger) *blk {
	tip := l.chain[len(l.chain)-1]
	ts := plugTimestamp()
	easy := append([]byte{0, 0, 1}, make([]byte, 29)...) // far below the target of 0x207fffff
	hard := []byte(strings.Repeat("\xff", 32))
	powSt, _ := json.Marshal(map[string]interface{}{"targetBits": plugPowBits, "curTerm": 2})
	plain, _ := json.Marshal(map[string]interface{}{"curTerm": 2})
	b := &blk{height: tip.height + 1, pre: tip.id, ts: ts, storage: plain, id: hard}
	signer := outsider
	switch cand {
	case "s0", "s1":
		signer = plugS0 + int(cand[1]-'0')
	case "sp0":
		signer, b.storage = plugS0, powSt
	case "p":
		signer, b.storage, b.id = plugPow, powSt, easy
	case "ps0":
		signer, b.storage, b.id = plugS0, powSt, easy
	case "t":
		signer = plugTd + int(plugTdCfg.real(ts)[1])
	case "x":
		signer = plugXp + int(xpSpec(1000, 2, ts, 2)[1])
	case "n":
		b.storage = powSt
	default:
		panic("bad-cand")
	}
	b.proposer, b.pub = acct(signer).Address, acct(signer).PubJSON
	b.sign = sign(signer, b.id)
	return b
}

// plugOnce runs the scenario once on the real code
func plugOnce(g plugKind, ups []plugKind, events string, cand string) (res string) {
	defer func() {
		if r := recover(); r != nil {
			res = "panic"
		}
	}()
	l := newStubLedger()
	conf, _ := json.Marshal(def.ConsensusConfig{ConsensusName: g.name, Config: g.configString()})
	l.conf = conf
	l.kv = map[string][]byte{}
	tipH := 5*len(ups) + 2
	st, _ := json.Marshal(map[string]interface{}{"targetBits": plugPowBits, "curTerm": 1})
	for h := 0; h <= tipH; h++ {
		// all ledger blocks sit before the start of term 1's first slot; any plugin can parse their storage
		l.put(&blk{proposer: acct(plugSelf).Address, height: int64(h), id: []byte{byte(h), 0x9}, pre: []byte{byte(h - 1), 0x9}, storage: st,
			ts: plugTdInit + int64(h)*1000})
	}
	reg := &capReg{m: map[string]contract.KernMethod{}}
	ctx := newCtx(l, plugSelf)
	ctx.Contract = capMgr{reg}
	pc, err := consensus.NewPluggableConsensus(ctx)
	if err != nil {
		return "noinst"
	}
	next := 0
	for _, ev := range events {
		switch ev {
		case 'U':
			k := ups[next]
			next++
			args, _ := json.Marshal(map[string]interface{}{"name": k.name, "config": k.configMap()})
			f, err := reg.GetKernMethod("$consensus", "updateConsensus")
			if err != nil {
				return "noinst"
			}
			f(&kctx{args: map[string][]byte{"height": []byte(strconv.Itoa(5 * next)), "args": args}, store: l.kv})
		case 'R':
			reg = &capReg{m: map[string]contract.KernMethod{}}
			ctx = newCtx(l, plugSelf)
			ctx.Contract = capMgr{reg}
			pc, err = consensus.NewPluggableConsensus(ctx)
			if err != nil {
				return "noinst"
			}
		}
	}
	ok, _ := pc.CheckMinerMatch(bctx, plugCandidate(cand, l))
	name := "none"
	if s, err := pc.GetConsensusStatus(); err == nil && s != nil {
		name = s.GetConsensusName()
	}
	return verdict(ok) + " " + name
}

func execPlug(line string, w []string) string {
	if len(w) != 5 {
		return "bad-op"
	}
	g, ok := plugKindOf(w[1])
	if !ok {
		return "bad-op"
	}
	var ups []plugKind
	if w[2] != "-" {
		for _, t := range strings.Split(w[2], ",") {
			k, ok := plugKindOf(t)
			if !ok {
				return "bad-op"
			}
			ups = append(ups, k)
		}
	}
	events := w[3]
	if events == "-" {
		events = ""
	}
	if len(events) > 12 || strings.Trim(events, "UR") != "" || strings.Count(events, "U") != len(ups) {
		return "bad-op"
	}
	switch w[4] {
	case "s0", "s1", "sp0", "p", "ps0", "t", "x", "n":
	default:
		return "bad-op"
	}
	// the effective history by the specification; restarts do not enter it
	hist := []plugKind{g}
	for _, k := range ups {
		refused, amb := plugRefused(hist, k)
		if amb {
			return "ambiguous"
		}
		if !refused {
			hist = append(hist, k)
		}
	}
	inForce := hist[len(hist)-1]
	reps := 2
	if strings.Contains(events, "R") && len(hist) > 1 {
		reps = 16
	}
	first := ""
	for r := 0; r < reps; r++ {
		res := plugOnce(g, ups, events, w[4])
		if r == 0 {
			first = res
		}
		if strings.HasPrefix(res, "accept") && !plugSat(w[4], inForce) {
			key, what := "plug-accept-not-entitled", "which passes CheckMinerMatch of no consensus of the chain's history"
			for _, e := range hist[:len(hist)-1] {
				if plugSat(w[4], e) {
					key, what = "plug-accept-retired-consensus", "which only the retired consensus "+e.tok+" ("+e.name+") accepts"
				}
			}
			out.Violate(xvlib.Violation{Key: key, What: fmt.Sprintf("after the upgrade history %s (consensus in force: %s) and events %q the pluggable consensus accepted candidate %s, %s (run %d of %d of the same scenario; answer %q)",
				histStr(hist), inForce.name, events, w[4], what, r+1, reps, res), Ops: []string{line}, Impl: []string{res}})
		}
		if res != first {
			out.Violate(xvlib.Violation{Key: "plug-restart-nondeterministic", What: fmt.Sprintf("the same upgrade history %s and events %q give %q in one run and %q in another: the consensus in force after a restart depends on the map order",
				histStr(hist), events, first, res), Ops: []string{line}, Impl: []string{first, res}})
			return "unstable"
		}
	}
	return first
}

func histStr(h []plugKind) string {
	var s []string
	for _, k := range h {
		s = append(s, k.tok)
	}
	return strings.Join(s, ">")
}
