package main

// Generator of pow candidates on FORKED histories (op `powf`): a trunk, two branches with their own
// timestamps (different pace) and their own, self-consistent target bits; either branch may be the main
// chain.  The candidate usually extends the branch that is NOT the main chain, at a retarget height whose
// window starts above the fork point, so that every ancestor the retarget rule reads has a main-chain
// namesake of the same height carrying other data.  Besides the prescribed target bits the candidate offers
// what the rule would prescribe if one (or all) of the ancestors it reads were taken from the main chain
// by height - the plausible wrong answers of an implementation that confuses "ancestor" with "block of that
// height".

import (
	"fmt"
	"math/big"
	"strings"

	"xv/xvlib"
)

func genPowFork(rng *xvlib.Rng) string {
	c := powCfgs[rng.Intn(len(powCfgs))]
	G := int(c.G)
	f := rng.Intn(G + 2) // index (= height) of the fork point
	la := 1 + rng.Intn(2*G+3)
	lb := 1 + rng.Intn(2*G+3)
	if rng.Chance(2, 3) {
		// the block on top of branch B sits at a retarget height and the whole window lies above the fork
		lb = G + 1 + rng.Intn(G+1)
		for (f+lb+1)%G != 0 {
			lb++
		}
	}
	if rng.Chance(1, 3) {
		la = lb + rng.Intn(3) // main chain at least as long as the side branch
	}
	n := f + 1 + la + lb
	all := make([]powBlk, n)
	pars := make([]int, n)
	heights := make([]int64, n)
	expected := c.E * (c.G - 1)
	steps := []int64{0, 1, expected / 4, expected/4 + 1, expected, 4 * expected, 4*expected + 1, expected / 8}
	paceA, paceB := steps[rng.Intn(len(steps))], steps[rng.Intn(len(steps))]
	path := func(i int) []powBlk {
		var p []powBlk
		for ; i >= 0; i = pars[i] {
			p = append([]powBlk{all[i]}, p...)
		}
		return p
	}
	for i := 0; i < n; i++ {
		pace := steps[rng.Intn(len(steps))]
		switch {
		case i == 0:
			pars[i] = -1
		case i <= f+la:
			pars[i] = i - 1
			if i > f && rng.Chance(3, 4) {
				pace = paceA
			}
		case i == f+la+1:
			pars[i] = f
			pace = paceB
		default:
			pars[i] = i - 1
			if rng.Chance(3, 4) {
				pace = paceB
			}
		}
		base := int64(1000) * 1000000000
		if pars[i] >= 0 {
			base = all[pars[i]].ts
			heights[i] = heights[pars[i]] + 1
		}
		all[i].ts = base + pace*1000000000/maxi(c.G-1, 1) + int64(rng.Intn(3))*333333333
		own := path(i)
		want, has := c.specPrescribed(own[:len(own)-1], len(own)-2, heights[i])
		switch {
		case !has || rng.Chance(1, 25):
			all[i].bits = int64(c.D)
		default:
			all[i].bits = int64(want)
		}
		if rng.Chance(1, 60) {
			all[i].bits = -1
		}
	}
	tipA, tipB := f+la, n-1
	mainTip := tipA
	switch rng.Intn(10) {
	case 0, 1, 2:
		mainTip = tipB
	case 3:
		mainTip = rng.Intn(n)
	}
	parent := tipB
	switch rng.Intn(10) {
	case 0, 1:
		parent = tipA
	case 2:
		parent = rng.Intn(n)
	case 3:
		parent = f + la + 1 + rng.Intn(lb) // somewhere on branch B
	}
	height := heights[parent] + 1
	if rng.Chance(1, 10) {
		height += int64(rng.Intn(5)) - 2
	}
	own := path(parent)
	mainPath := path(mainTip)
	want, has := c.specPrescribed(own, len(own)-1, height)
	if !has {
		want = c.D
	}
	// own history with the ancestors at the given path positions replaced by the main chain's blocks of that height
	mixed := func(pos ...int) []powBlk {
		m := append([]powBlk{}, own...)
		for _, j := range pos {
			if j >= 0 && j < len(m) && j < len(mainPath) {
				m[j] = mainPath[j]
			}
		}
		return m
	}
	pre, far := len(own)-2, len(own)-2-(G-1)
	cbits := int64(want)
	switch rng.Intn(16) {
	case 0:
		cbits = int64(c.D)
	case 1:
		cbits = int64(want) + 1
	case 2:
		if parent >= 0 && all[parent].bits >= 0 {
			cbits = all[parent].bits
		}
	case 3:
		cbits = -1
	case 4:
		alt := [][2]int64{{0, 4}, {1, 2}, {1, 8}, {1, 0}, {0, 2}, {1, 3}, {1, 5}}[rng.Intn(7)]
		if v, ok := c.prescribedWith(own, len(own)-1, height, int(alt[0]), alt[1]); ok {
			cbits = int64(v)
		}
	case 5, 6, 7, 8, 9, 10:
		var m []powBlk
		switch rng.Intn(5) {
		case 0, 1:
			m = mixed(far)
		case 2:
			m = mixed(pre)
		case 3:
			m = mixed(pre, far)
		default:
			// the main chain up to the parent's height, or as far as it reaches
			m = mixed()
			for j := 0; j < len(m) && j < len(mainPath); j++ {
				m[j] = mainPath[j]
			}
		}
		if v, ok := c.specPrescribed(m, len(m)-1, height); ok {
			cbits = int64(v)
		}
	}
	if !c.bitcoin() && cbits > 256 {
		cbits = 256
	}
	cts := all[parent].ts
	switch rng.Intn(8) {
	case 0:
		cts--
	case 1:
		cts -= 1000000000
	case 2, 3:
		cts += int64(rng.Intn(30)) * 1000000000
	case 4:
		// not before the main chain's block of the parent's height (which may be younger or older than the parent)
		if j := len(own) - 1; j < len(mainPath) {
			cts = mainPath[j].ts - int64(rng.Intn(2))
		}
	case 5:
		cts = all[mainTip].ts
	}
	var target *big.Int
	if cbits >= 0 {
		target = c.specTarget(uint32(cbits))
	} else {
		target = c.specTarget(want)
	}
	if target.Cmp(two256) >= 0 {
		target = new(big.Int).Sub(two256, one)
	}
	hash := new(big.Int).Set(target)
	switch rng.Intn(8) {
	case 0:
		hash.Add(hash, one)
	case 1:
		if hash.Sign() > 0 {
			hash.Sub(hash, one)
		}
	case 2:
		hash.SetInt64(int64(rng.Intn(1000)))
	case 3:
		hash.Rsh(hash, uint(1+rng.Intn(16)))
	}
	if hash.Cmp(two256) >= 0 {
		hash.Sub(two256, one)
	}
	idok, key, sig := "1", "p", "v"
	if rng.Chance(1, 20) {
		idok = "0"
	}
	if rng.Chance(1, 20) {
		key = []string{"x", "b"}[rng.Intn(2)]
	}
	if rng.Chance(1, 16) {
		sig = []string{"w", "f"}[rng.Intn(2)]
	}
	var sb strings.Builder
	fmt.Fprintf(&sb, "powf %d %d %d %d %d", c.D, c.G, c.E, c.M, n)
	for i, b := range all {
		fmt.Fprintf(&sb, " %s %d %d", bitsTok(b.bits), b.ts, pars[i])
	}
	fmt.Fprintf(&sb, " %d %d %d %s %d %s %s %s %s", mainTip, height, parent, bitsTok(cbits), cts, hash, idok, key, sig)
	return sb.String()
}
