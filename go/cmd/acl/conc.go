package main

// Concurrent evaluation (property C11 under the way the node uses the evaluation: State.verifyBlockTxs verifies the
// transactions of a block in parallel, every PostTx / PreExec request verifies on its own goroutine, the contract
// bridge calls VerifyContractPermission):
//
//	conc <g> <iters> :: <ida|cmp line> :: <ida|cmp line> ...     -> the sequential answers, space separated
//
// The listed cases are first evaluated one at a time (each judged by the oracle like an ida / cmp line; these answers
// are compared with the model), then <g> goroutines evaluate them <iters> times each, every goroutine starting at
// another case.  An evaluation has no effect, so EVERY concurrent answer must be the answer of the case evaluated
// alone; one that differs means that an evaluation used something of another one (a rule, a signer list, a verdict).

import (
	"fmt"
	"strconv"
	"strings"
	"sync"
	"sync/atomic"

	"xv/xvlib"
)

type concCase struct {
	line string
	eval func() bool
	seq  bool
}

func prepareConc(sub string) (*concCase, bool) {
	f := strings.Split(sub, "|")
	if len(f) != 4 || (f[0] != "ida" && f[0] != "cmp") {
		return nil, false
	}
	e, err := parseEnv(f[2])
	if err != nil {
		return nil, false
	}
	us, err := parseURIs(f[3])
	if err != nil {
		return nil, false
	}
	if f[0] == "ida" {
		if !validTok(f[1]) {
			return nil, false
		}
		m, root := newMgr(e, nil), f[1]
		return &concCase{line: sub, eval: func() bool { return implAccount(m, root, us) }}, true
	}
	r, err := parseRule(f[1])
	if err != nil {
		return nil, false
	}
	m := newMgr(e, r)
	return &concCase{line: sub, eval: func() bool { return implMethod(m, us) }}, true
}

type concMiss struct {
	idx  int
	got  bool
	with int // a case another goroutine was at
}

// runConc: the first concurrent answer that differs from the sequential one (nil = none)
func runConc(cs []*concCase, g, iters int) *concMiss {
	var wg sync.WaitGroup
	var stop int32
	var mu sync.Mutex
	var miss *concMiss
	at := make([]int32, g)
	for gi := 0; gi < g; gi++ {
		wg.Add(1)
		go func(gi int) {
			defer wg.Done()
			for it := 0; it < iters && atomic.LoadInt32(&stop) == 0; it++ {
				for j := range cs {
					i := (j + gi) % len(cs)
					atomic.StoreInt32(&at[gi], int32(i))
					if got := cs[i].eval(); got != cs[i].seq {
						mu.Lock()
						if miss == nil {
							miss = &concMiss{idx: i, got: got, with: int(atomic.LoadInt32(&at[(gi+1)%g]))}
						}
						mu.Unlock()
						atomic.StoreInt32(&stop, 1)
						return
					}
				}
			}
		}(gi)
	}
	wg.Wait()
	return miss
}

func execConc(line string, out *xvlib.Out) string {
	parts := strings.Split(line, " :: ")
	hdr := strings.Fields(parts[0])
	if len(hdr) != 3 || len(parts) < 2 {
		return "bad-op"
	}
	g, err1 := strconv.Atoi(hdr[1])
	iters, err2 := strconv.Atoi(hdr[2])
	if err1 != nil || err2 != nil || g < 0 || g > 64 || iters < 0 || iters > 1000000 {
		return "bad-op"
	}
	var cs []*concCase
	var ans []string
	for _, sub := range parts[1:] {
		c, ok := prepareConc(sub)
		if !ok {
			return "bad-op"
		}
		a := exec(sub, out) // sequential: judged by the oracle like any ida / cmp line
		c.seq = a == "accept"
		cs = append(cs, c)
		ans = append(ans, a)
	}
	if out != nil && g > 0 {
		if miss := runConc(cs, g, iters); miss != nil {
			// minimise: the failing case together with one other case, if that still shows it
			ops := line
			for _, j := range append([]int{miss.with}, seqInts(len(cs))...) {
				if j == miss.idx {
					continue
				}
				pair := []*concCase{cs[miss.idx], cs[j]}
				if runConc(pair, g, iters*len(cs)/2+1) != nil {
					ops = fmt.Sprintf("conc %d %d :: %s :: %s", g, iters*len(cs)/2+1, cs[miss.idx].line, cs[j].line)
					break
				}
			}
			key := "acl:concurrent-evaluation-differs:rejected"
			if miss.got {
				key = "acl:concurrent-evaluation-differs:accepted"
			}
			out.Violate(xvlib.Violation{Key: key,
				What: fmt.Sprintf("evaluated alone the case `%s` is answered %s, evaluated while other goroutines evaluate other cases it was answered %s: an evaluation has no effect, so the answers must be the same (the rule is satisfied by the verified signers or it is not)",
					cs[miss.idx].line, ar(cs[miss.idx].seq), ar(miss.got)),
				Ops: []string{ops}, Impl: []string{strings.Join(ans, " ")}})
		}
	}
	return strings.Join(ans, " ")
}

func seqInts(n int) []int {
	r := make([]int, n)
	for i := range r {
		r[i] = i
	}
	return r
}

// generateConc: batches of cases that differ in rule kind, rule and signer list (key sets half signed next to key
// sets fully signed, thresholds reached next to thresholds missed, nested accounts, method rules), evaluated by 16
// goroutines at once.
func generateConc(run func(string, bool) string, rng *xvlib.Rng, full bool) int {
	batches, iters := 12, 150
	if full {
		batches, iters = 120, 400
	}
	fixed := []string{
		// two accounts with the same key names in their key sets: one fully signed, one half signed
		"ida|a0|a0=S:k0+k1;k2+k3|a0/k0 a0/k1",
		"ida|a2|a2=S:k0+k1;k2+k3|a2/k1 a2/k2",
		"ida|a2|a2=S:k0+k1;k2+k3|a2/k2 a2/k3",
		"ida|a0|a0=S:k0+k1;k2+k3|a0/k0",
		"ida|a0|a0=T:4:k0=2,k1=2,k2=2|a0/k0 a0/k1",
		"ida|a2|a2=T:4:k0=2,k1=2,k2=2|a2/k2",
		"cmp|S:k0+k2|a1=N|k0 k2",
		"cmp|S:k0+k2|a1=N|k0 k1",
		"cmp|T:4:k0=2,k1=2|a1=N|k0 k1",
		"cmp|T:4:k0=2,k1=2|a1=N|k1",
		"ida|a0|a0=S:a1+k0 a1=S:k1+k2|a0/a1/k1 a0/a1/k2 a0/k0",
		"ida|a0|a0=S:a1+k0 a1=S:k1+k2|a0/a1/k1 a0/k0 a0/k2",
	}
	n := 0
	for b := 0; b < batches; b++ {
		var cs []string
		if b%3 == 0 {
			cs = append(cs, fixed...)
		}
		for len(cs) < 16 {
			c := randomCase(rng)
			if faultyOp(c) {
				continue
			}
			cs = append(cs, c)
		}
		run(fmt.Sprintf("conc 16 %d :: %s", iters, strings.Join(cs, " :: ")), true)
		n++
	}
	return n
}
