package main

// End-to-end part of the `acl` engine: State.VerifyTx of a REAL node (go/chainlib: ledger + state machine + contract
// manager + the real acl.Manager reading the tip snapshot, on the in-memory kvdb go/kvmem) on signed transactions.
//
//	vtx|<env>|<mrule>|<owners>|<pend>|<fault>|<init>|<isig>|<uris>|<usig>|<inputs>|<act>   -> accept|reject
//
// The chain the transaction is verified against (built once per distinct <env>|<mrule>|<owners>|<pend>, kept):
//
//	env     confirmed account rules `a<i>=<rule>` (block 1); `a<i>=X`: the bytes stored under XCAccount/a<i> are not JSON
//	mrule   confirmed rule of the contract method c0.run ($xvkv.run), `N` = none stored
//	owners  confirmed XCContract2Account entries `c<i>=a<j>`           (c0 = $xvkv, c<i> = contract<i>)
//	pend    unconfirmed writes sitting in the pool, in order: `a<i>=<rule>` (the account's rule is being changed / the
//	        account is being created), `c<i>=a<j>` (an owner entry), `m=<rule>` (the rule of c0.run).
//	        An entry prefixed `~` is pending on this node AND carried by a side-branch block the ledger stores: after
//	        the pool is filled the chain grows by an empty block 2A (the tip) and a competing block 2B of the same height,
//	        arriving second (no trunk switch), that holds the marked transactions.  An entry prefixed `^` sits ONLY in
//	        that side-branch block: this node never admitted it.  Neither is on the confirmed chain: `~` counts like any
//	        pending entry, `^` counts for nothing.
//
// The fault armed while VerifyTx runs (`-` = none); target <t> = a name (the key XCAccount/<t>) or a method rule key:
// `m` (c0.run), `ma` / `mn` / `mm` ($acl.SetAccountAcl / NewAccount / SetMethodAcl):
//
//	io:<t>      the storage read of the key's version pointer fails with an I/O error (kvmem read fault)
//	ev:<t>      the pool records of the pending writers of the key are gone while the key's version pointer still names
//	            them (what a reader sees when the writer is evicted between its two reads); no pending writer = no fault
//	rd<k>:<t>   the tip snapshot reader handed to the acl manager answers an error for that key; k selects the error
//	            text (0 generic, 1 kvdb "not found", 2 "query tx fail.err:transaction not found", 3 block not found)
//
// The transaction: initiator <init> (key or account) with initiator signatures by the keys <isig> (`x` = a signature
// that does not verify); AuthRequire <uris>, the i-th signed as <usig>[i] says (`=` the key named by the last
// component, `k<j>` that key, `x` a signature that does not verify); token inputs owned by <inputs> in this order;
// <act>: `T` no contract request, otherwise up to three requests joined by `+`: `K` a call of c0.run, `A:a<i>`
// SetAccountAcl, `N:a<i>` NewAccount, `M:c<i>` SetMethodAcl of c<i>.run — the requests are pre-executed on the node in
// one sandbox the way a client does (Chain.PreExec), the read/write sets are what came out.
//
// Names: k0..k4 are real key pairs, a0..a3 contract accounts.

import (
	"encoding/json"
	"errors"
	"fmt"
	"math/big"
	"sort"
	"strconv"
	"strings"

	"github.com/xuperchain/xupercore/bcs/ledger/xledger/state/utxo/txhash"
	"github.com/xuperchain/xupercore/bcs/ledger/xledger/state/xmodel"
	pb "github.com/xuperchain/xupercore/bcs/ledger/xledger/xldgpb"
	"github.com/xuperchain/xupercore/kernel/contract"
	"github.com/xuperchain/xupercore/kernel/engines/xuperos/agent"
	kledger "github.com/xuperchain/xupercore/kernel/ledger"
	"github.com/xuperchain/xupercore/kernel/permission/acl"
	actx "github.com/xuperchain/xupercore/kernel/permission/acl/context"
	"github.com/xuperchain/xupercore/protos"

	"xv/chainlib"
	"xv/kvmem"
	"xv/xvlib"
)

const (
	eNKeys  = 5
	eNAccts = 4
	eNContr = 4
	eUtxos  = 4 // separate outputs per owner at genesis
)

var eKeys []*xvlib.Account

func eKey(i int) *xvlib.Account {
	for len(eKeys) <= i {
		eKeys = append(eKeys, xvlib.NewAccount(100+len(eKeys)))
	}
	return eKeys[i]
}

func eTokOK(t string) bool {
	if !validTok(t) {
		return false
	}
	n, _ := strconv.Atoi(t[1:])
	if t[0] == 'k' {
		return n < eNKeys && t == fmt.Sprintf("k%d", n)
	}
	return n < eNAccts && t == fmt.Sprintf("a%d", n)
}

func eContrOK(c string) bool {
	if len(c) != 2 || c[0] != 'c' {
		return false
	}
	return c[1] >= '0' && c[1] < '0'+eNContr
}

func eAcctNumber(t string) string {
	n, _ := strconv.Atoi(t[1:])
	return fmt.Sprintf("%016d", 4000+n)
}

// eName: the real name of a token
func eName(t string) string {
	n, _ := strconv.Atoi(t[1:])
	if t[0] == 'k' {
		return eKey(n).Address
	}
	return "XC" + eAcctNumber(t) + "@" + chainlib.BCName
}

func eContract(c string) string {
	if c == "c0" {
		return chainlib.KVContract
	}
	return "contract" + c[1:]
}

const eMethod = "run"

func eURIs(us []uri) []string {
	out := make([]string, len(us))
	for i, u := range us {
		cs := make([]string, len(u))
		for j, c := range u {
			cs[j] = eName(c)
		}
		out[i] = strings.Join(cs, "/")
	}
	return out
}

// ---------------------------------------------------------------- parsing

type pendEntry struct {
	side   byte   // 0 | '~' also in a side-branch block | '^' only in a side-branch block
	target string // a<i> | c<i> | m
	rule   *rule  // for a<i> and m
	owner  string // for c<i>
}

type eChain struct {
	env     env
	broken  map[string]bool // accounts whose stored bytes are not JSON
	mrule   *rule
	owners  map[string]string
	pend    []pendEntry
	pendSet map[string]bool
}

func namesOK(r *rule) bool {
	if r.kind == 'E' {
		return false // end-to-end faults are armed through the <fault> field
	}
	for _, m := range r.members {
		if !eTokOK(m.name) {
			return false
		}
	}
	for _, s := range r.sets {
		for _, n := range s {
			if !eTokOK(n) {
				return false
			}
		}
	}
	return true
}

func parseEChain(envS, mruleS, ownersS, pendS string) (*eChain, error) {
	c := &eChain{env: env{}, broken: map[string]bool{}, owners: map[string]string{}, pendSet: map[string]bool{}}
	seen := map[string]bool{}
	for _, f := range strings.Fields(envS) {
		kv := strings.SplitN(f, "=", 2)
		if len(kv) != 2 || !eTokOK(kv[0]) || isKeyTok(kv[0]) || seen[kv[0]] {
			return nil, errors.New("bad env entry")
		}
		seen[kv[0]] = true
		if kv[1] == "X" {
			c.broken[kv[0]] = true
			continue
		}
		r, err := parseRule(kv[1])
		if err != nil || r.kind == 'N' || !namesOK(r) {
			return nil, errors.New("bad env rule")
		}
		c.env[kv[0]] = r
	}
	r, err := parseRule(mruleS)
	if err != nil || !namesOK(r) {
		return nil, errors.New("bad method rule")
	}
	c.mrule = r
	for _, f := range strings.Fields(ownersS) {
		kv := strings.SplitN(f, "=", 2)
		if len(kv) != 2 || !eContrOK(kv[0]) || !eTokOK(kv[1]) || isKeyTok(kv[1]) {
			return nil, errors.New("bad owner entry")
		}
		if _, dup := c.owners[kv[0]]; dup {
			return nil, errors.New("repeated owner entry")
		}
		c.owners[kv[0]] = kv[1]
	}
	for _, f := range strings.Fields(pendS) {
		var side byte
		if f[0] == '~' || f[0] == '^' {
			side, f = f[0], f[1:]
		}
		kv := strings.SplitN(f, "=", 2)
		if len(kv) != 2 {
			return nil, errors.New("bad pending entry")
		}
		switch {
		case kv[0] == "m" || (eTokOK(kv[0]) && !isKeyTok(kv[0])):
			r, err := parseRule(kv[1])
			if err != nil || r.kind == 'N' || !namesOK(r) {
				return nil, errors.New("bad pending rule")
			}
			c.pend = append(c.pend, pendEntry{side: side, target: kv[0], rule: r})
		case eContrOK(kv[0]) && eTokOK(kv[1]) && !isKeyTok(kv[1]):
			c.pend = append(c.pend, pendEntry{side: side, target: kv[0], owner: kv[1]})
		default:
			return nil, errors.New("bad pending entry")
		}
		if side != '^' {
			c.pendSet[kv[0]] = true // a transaction this node never admitted is not pending here
		}
	}
	return c, nil
}

type eTx struct {
	init   string
	isig   []string
	uris   []uri
	usig   []string
	inputs []string
	acts   []eAct // empty = no contract request
}

type eAct struct {
	kind byte   // K A N M
	arg  string // a<i> / c<i>
}

func (a eAct) request() (contractName, method string) {
	switch a.kind {
	case 'K':
		return eContract("c0"), eMethod
	case 'A':
		return "$acl", "SetAccountAcl"
	case 'N':
		return "$acl", "NewAccount"
	}
	return "$acl", "SetMethodAcl"
}

func parseETx(initS, isigS, urisS, usigS, inputsS, actS string) (*eTx, error) {
	t := &eTx{init: initS}
	if !eTokOK(initS) {
		return nil, errors.New("bad initiator")
	}
	for _, s := range strings.Fields(isigS) {
		if s != "x" && !(eTokOK(s) && isKeyTok(s)) {
			return nil, errors.New("bad initiator signer")
		}
		t.isig = append(t.isig, s)
	}
	us, err := parseURIs(urisS)
	if err != nil {
		return nil, err
	}
	for _, u := range us {
		for _, c := range u {
			if !eTokOK(c) {
				return nil, errors.New("bad uri")
			}
		}
	}
	t.uris = us
	for _, s := range strings.Fields(usigS) {
		if s != "x" && s != "=" && !(eTokOK(s) && isKeyTok(s)) {
			return nil, errors.New("bad uri signer")
		}
		t.usig = append(t.usig, s)
	}
	if len(t.usig) != len(t.uris) {
		return nil, errors.New("one signer per uri")
	}
	for _, s := range strings.Fields(inputsS) {
		if !eTokOK(s) {
			return nil, errors.New("bad input owner")
		}
		t.inputs = append(t.inputs, s)
	}
	if len(t.inputs) > eUtxos {
		return nil, errors.New("too many inputs")
	}
	if actS == "T" {
		return t, nil
	}
	for _, a := range strings.Split(actS, "+") {
		switch {
		case a == "K":
			t.acts = append(t.acts, eAct{kind: 'K'})
		case len(a) == 4 && (a[:2] == "A:" || a[:2] == "N:") && eTokOK(a[2:]) && !isKeyTok(a[2:]):
			t.acts = append(t.acts, eAct{a[0], a[2:]})
		case len(a) == 4 && a[:2] == "M:" && eContrOK(a[2:]):
			t.acts = append(t.acts, eAct{'M', a[2:]})
		default:
			return nil, errors.New("bad action")
		}
	}
	if len(t.acts) > 3 {
		return nil, errors.New("too many requests")
	}
	return t, nil
}

type eFault struct {
	kind   string // "" io ev rd
	class  int
	target string // name | m ma mn mm
}

var methodTargets = map[string][2]string{"m": {chainlib.KVContract, eMethod}, "ma": {"$acl", "SetAccountAcl"},
	"mn": {"$acl", "NewAccount"}, "mm": {"$acl", "SetMethodAcl"}}

func parseEFault(s string) (*eFault, error) {
	if s == "-" {
		return &eFault{}, nil
	}
	kv := strings.SplitN(s, ":", 2)
	if _, isM := methodTargets[kv[1]]; len(kv) != 2 || !(isM || eTokOK(kv[1])) {
		return nil, errors.New("bad fault")
	}
	f := &eFault{target: kv[1]}
	switch {
	case kv[0] == "io" || kv[0] == "ev":
		f.kind = kv[0]
	case len(kv[0]) == 3 && kv[0][:2] == "rd" && kv[0][2] >= '0' && kv[0][2] <= '3':
		f.kind, f.class = "rd", int(kv[0][2]-'0')
	default:
		return nil, errors.New("bad fault")
	}
	return f, nil
}

// ---------------------------------------------------------------- chain images

const (
	bucketAK2Account = "XCAK2Account"
)

// faultRely is the acl manager's view of the ledger (actx.LedgerRely): the real ledger agent, whose tip snapshot
// reader answers an injected error for one key while a `rd` fault is armed.
type faultRely struct {
	actx.LedgerRely
	bucket, key string
	err         error
}

type faultReader struct {
	kledger.XMSnapshotReader
	r *faultRely
}

func (r *faultRely) GetTipXMSnapshotReader() (kledger.XMSnapshotReader, error) {
	rd, err := r.LedgerRely.GetTipXMSnapshotReader()
	if err != nil || r.err == nil {
		return rd, err
	}
	return &faultReader{rd, r}, nil
}

func (f *faultReader) Get(bucket string, key []byte) ([]byte, error) {
	if f.r.err != nil && bucket == f.r.bucket && string(key) == f.r.key {
		return nil, f.r.err
	}
	return f.XMSnapshotReader.Get(bucket, key)
}

var rdErrors = []error{
	errors.New("xv: injected reader error"),
	errors.New("leveldb: not found"),
	errors.New("query tx fail.err:transaction not found"),
	errors.New("query block height fail.err:query block info fail. block_id:00 err:block not found"),
}

type image struct {
	key    string
	n      *chainlib.Node
	rely   *faultRely
	utxo   map[string][]chainlib.Utxo
	pendTx map[string][]*pb.Transaction // target -> the pending transactions that write its key
	tip    *pb.InternalBlock
	used   int
}

var (
	images   = map[string]*image{}
	imageSeq int
	imageUse int
	maxImgs  = 96
	miner    *xvlib.Account
)

func targetKey(t string) (bucket, key string) {
	if m, ok := methodTargets[t]; ok {
		return aclBucketContract, m[0] + "\x01" + m[1]
	}
	return aclBucketAccount, eName(t)
}

// rawTx: a transaction that only carries extended outputs (read set = the current versions); used to PREPARE the chain
// (admitted with DoTx, which does not check permissions), never as a transaction under test.
func rawTx(n *chainlib.Node, ws []*protos.TxOutputExt, nonce string) (*pb.Transaction, error) {
	tx := &pb.Transaction{Version: 3, Nonce: nonce, Timestamp: 1600000000, Initiator: eKey(0).Address}
	rd := n.S.CreateXMReader()
	for _, w := range ws {
		vd, err := rd.Get(w.Bucket, w.Key)
		if err != nil {
			return nil, err
		}
		tx.TxInputsExt = append(tx.TxInputsExt, &protos.TxInputExt{Bucket: w.Bucket, Key: w.Key, RefTxid: vd.RefTxid, RefOffset: vd.RefOffset})
		tx.TxOutputsExt = append(tx.TxOutputsExt, w)
	}
	var err error
	tx.Txid, err = txhash.MakeTransactionID(tx)
	return tx, err
}

func bytesEq(a, b []byte) bool { return string(a) == string(b) }

func ruleJSON(r *rule) []byte {
	b, _ := json.Marshal(r.toACLn(eName))
	return b
}

func getImage(c *eChain, key string) (*image, error) {
	imageUse++
	if im, ok := images[key]; ok {
		im.used = imageUse
		return im, nil
	}
	if len(images) >= maxImgs {
		var old *image
		for _, im := range images {
			if old == nil || im.used < old.used {
				old = im
			}
		}
		delete(images, old.key)
		kvmem.Drop(old.n.Root)
	}
	if miner == nil {
		miner = xvlib.NewAccount(99)
	}
	g := &chainlib.Genesis{Alloc: map[string]string{}, NoFee: true, Award: "0"}
	var ownersL []string
	for i := 0; i < eNKeys; i++ {
		ownersL = append(ownersL, fmt.Sprintf("k%d", i))
	}
	for i := 0; i < eNAccts; i++ {
		ownersL = append(ownersL, fmt.Sprintf("a%d", i))
	}
	for _, o := range ownersL {
		g.Alloc[eName(o)] = "1000"
		for j := 0; j < eUtxos; j++ {
			g.AllocOrder = append(g.AllocOrder, eName(o))
		}
	}
	imageSeq++
	n, err := chainlib.NewNode(scratch, fmt.Sprintf("acl%d", imageSeq), g.JSON(), miner)
	if err != nil {
		return nil, err
	}
	im := &image{key: key, n: n, utxo: map[string][]chainlib.Utxo{}, pendTx: map[string][]*pb.Transaction{}, used: imageUse}
	// the REAL acl manager, reading through the real ledger agent (what chainlib installs), with the fault wrapper
	im.rely = &faultRely{LedgerRely: agent.NewLedgerAgent(n.Ctx)}
	n.S.SetAclMG(&acl.Manager{Ctx: &actx.AclCtx{BcName: chainlib.BCName, Ledger: im.rely, Contract: n.CM}})
	rb, err := n.L.QueryBlock(n.L.GetMeta().RootBlockid)
	if err != nil {
		return nil, err
	}
	root := rb.Transactions[0]
	byAddr := map[string]string{}
	for _, o := range ownersL {
		byAddr[eName(o)] = o
	}
	for i, o := range root.TxOutputs {
		if t, ok := byAddr[string(o.ToAddr)]; ok {
			im.utxo[t] = append(im.utxo[t], chainlib.Utxo{Addr: string(o.ToAddr), RefTx: root.Txid, Offset: int32(i), Amount: new(big.Int).SetBytes(o.Amount)})
		}
	}
	// block 1: the confirmed rules, method rule and owner entries
	var ws []*protos.TxOutputExt
	var accts []string
	for a := range c.env {
		accts = append(accts, a)
	}
	for a := range c.broken {
		accts = append(accts, a)
	}
	sort.Strings(accts)
	for _, a := range accts {
		v := []byte("\x00not json")
		if r, ok := c.env[a]; ok {
			v = ruleJSON(r)
		}
		ws = append(ws, &protos.TxOutputExt{Bucket: aclBucketAccount, Key: []byte(eName(a)), Value: v})
	}
	if c.mrule.kind != 'N' {
		ws = append(ws, &protos.TxOutputExt{Bucket: aclBucketContract, Key: []byte(eContract("c0") + "\x01" + eMethod), Value: ruleJSON(c.mrule)})
	}
	var cs []string
	for k := range c.owners {
		cs = append(cs, k)
	}
	sort.Strings(cs)
	for _, k := range cs {
		ws = append(ws, &protos.TxOutputExt{Bucket: aclBucketC2A, Key: []byte(eContract(k)), Value: []byte(eName(c.owners[k]))})
	}
	tip := rb
	if len(ws) > 0 {
		tx, err := rawTx(n, ws, "setup")
		if err != nil {
			return nil, err
		}
		if err := n.S.DoTx(tx); err != nil {
			return nil, fmt.Errorf("setup DoTx: %v", err)
		}
		tc := *tx
		tc.ReceivedTimestamp = 0
		blk, err := n.MakeBlock(miner, rb.Blockid, 1, []*pb.Transaction{&tc}, 2e9)
		if err != nil {
			return nil, err
		}
		if st := n.L.ConfirmBlock(chainlib.CloneBlock(blk), false); !st.Succ {
			return nil, fmt.Errorf("confirm block 1: %v", st.Error)
		}
		if err := n.S.PlayForMiner(blk.Blockid); err != nil {
			return nil, fmt.Errorf("play block 1: %v", err)
		}
		tip = blk
	}
	im.tip = tip
	var sideTxs []*pb.Transaction
	// the pool
	for i, p := range c.pend {
		var w *protos.TxOutputExt
		switch {
		case p.target == "m":
			w = &protos.TxOutputExt{Bucket: aclBucketContract, Key: []byte(eContract("c0") + "\x01" + eMethod), Value: ruleJSON(p.rule)}
		case p.target[0] == 'a':
			w = &protos.TxOutputExt{Bucket: aclBucketAccount, Key: []byte(eName(p.target)), Value: ruleJSON(p.rule)}
		default:
			w = &protos.TxOutputExt{Bucket: aclBucketC2A, Key: []byte(eContract(p.target)), Value: []byte(eName(p.owner))}
		}
		tx, err := rawTx(n, []*protos.TxOutputExt{w}, fmt.Sprintf("pend%d", i))
		if err != nil {
			return nil, err
		}
		if p.side != 0 {
			tc := *tx
			tc.ReceivedTimestamp = 0
			sideTxs = append(sideTxs, &tc)
		}
		if p.side == '^' {
			continue
		}
		if err := n.S.DoTx(tx); err != nil {
			return nil, fmt.Errorf("pending DoTx: %v", err)
		}
		im.pendTx[p.target] = append(im.pendTx[p.target], tx)
	}
	// a fork without trunk switch: 2A (empty) arrives first and becomes the tip, 2B carries the marked transactions and
	// is stored by the ledger as a side branch; the state machine never walks to it
	if len(sideTxs) > 0 {
		h := tip.Height + 1
		b2a, err := n.MakeBlock(miner, tip.Blockid, h, nil, 2e9+1)
		if err != nil {
			return nil, err
		}
		b2b, err := n.MakeBlock(miner, tip.Blockid, h, sideTxs, 2e9+2)
		if err != nil {
			return nil, err
		}
		if st := n.L.ConfirmBlock(chainlib.CloneBlock(b2a), false); !st.Succ {
			return nil, fmt.Errorf("confirm block 2A: %v", st.Error)
		}
		if err := n.S.PlayForMiner(b2a.Blockid); err != nil {
			return nil, fmt.Errorf("play block 2A: %v", err)
		}
		st := n.L.ConfirmBlock(chainlib.CloneBlock(b2b), false)
		if !st.Succ || st.TrunkSwitch {
			return nil, fmt.Errorf("block 2B must be stored as a side branch: %+v", st)
		}
		if !bytesEq(n.L.GetMeta().TipBlockid, b2a.Blockid) || !bytesEq(n.S.GetLatestBlockid(), b2a.Blockid) {
			return nil, errors.New("the tip must still be block 2A")
		}
		for _, t := range sideTxs {
			if _, err := n.L.QueryTransaction(t.Txid); err != nil {
				return nil, fmt.Errorf("the ledger does not hold a transaction of the side block: %v", err)
			}
		}
		im.tip = b2a
	}
	images[key] = im
	return im, nil
}

// ---------------------------------------------------------------- the transaction under test

var newRule = &rule{kind: 'T', theta: 4, members: []member{{"k4", 4}}}

var eNonce int

func sigInfo(k *xvlib.Account, sig []byte, spoil bool) *protos.SignatureInfo {
	s := append([]byte{}, sig...)
	if spoil && len(s) > 8 {
		s[len(s)-3] ^= 0x55
	}
	return &protos.SignatureInfo{PublicKey: k.PubJSON, Sign: s}
}

// preExecAll pre-executes the requests in ONE sandbox, in order (the steps of Chain.PreExec)
func preExecAll(n *chainlib.Node, initiator string, auth []string, reqs []*protos.InvokeRequest) (*chainlib.PreExecResult, error) {
	sb, err := n.CM.NewStateSandbox(&contract.SandboxConfig{XMReader: n.S.CreateXMReader(), UTXOReader: n.S.CreateUtxoReader()})
	if err != nil {
		return nil, err
	}
	r := &chainlib.PreExecResult{}
	for _, req := range reqs {
		ctx, err := n.CM.NewContext(&contract.ContextConfig{State: sb, Initiator: initiator, AuthRequire: auth,
			ResourceLimits: contract.MaxLimits, Module: req.ModuleName, ContractName: req.ContractName})
		if err != nil {
			return nil, err
		}
		resp, err := ctx.Invoke(req.MethodName, req.Args)
		if err != nil {
			ctx.Release()
			return nil, err
		}
		used := ctx.ResourceUsed()
		ctx.Release()
		if resp.Status >= 400 {
			return nil, fmt.Errorf("contract status %d: %s", resp.Status, resp.Message)
		}
		rq := *req
		rq.ResourceLimits = contract.ToPbLimits(used)
		r.Requests = append(r.Requests, &rq)
	}
	if err := sb.Flush(); err != nil {
		return nil, err
	}
	rw := sb.RWSet()
	r.Inputs, r.Outputs = xmodel.GetTxInputs(rw.RSet), xmodel.GetTxOutputs(rw.WSet)
	return r, nil
}

func buildETx(im *image, t *eTx) (tx *pb.Transaction, err error) {
	eNonce++
	tx = &pb.Transaction{Version: 3, Nonce: fmt.Sprintf("vtx%d", eNonce), Timestamp: 1600000000, Desc: []byte("vtx"),
		Initiator: eName(t.init), AuthRequire: eURIs(t.uris)}
	cnt := map[string]int{}
	sum := big.NewInt(0)
	for _, o := range t.inputs {
		us := im.utxo[o]
		if cnt[o] >= len(us) {
			return nil, errors.New("no output left")
		}
		u := us[cnt[o]]
		cnt[o]++
		tx.TxInputs = append(tx.TxInputs, &protos.TxInput{RefTxid: u.RefTx, RefOffset: u.Offset, FromAddr: []byte(u.Addr), Amount: u.Amount.Bytes()})
		sum.Add(sum, u.Amount)
	}
	if sum.Sign() > 0 {
		tx.TxOutputs = append(tx.TxOutputs, &protos.TxOutput{ToAddr: []byte(eKey(0).Address), Amount: sum.Bytes()})
	}
	var reqs []*protos.InvokeRequest
	for i, a := range t.acts {
		c, m := a.request()
		var args map[string][]byte
		switch a.kind {
		case 'K':
			args = map[string][]byte{"prog": []byte(fmt.Sprintf("put x%d 1", i))}
		case 'A':
			args = map[string][]byte{"account_name": []byte(eName(a.arg)), "acl": ruleJSON(newRule)}
		case 'N':
			args = map[string][]byte{"account_name": []byte(eAcctNumber(a.arg)), "acl": ruleJSON(newRule)}
		case 'M':
			args = map[string][]byte{"contract_name": []byte(eContract(a.arg)), "method_name": []byte(eMethod), "acl": ruleJSON(newRule)}
		}
		reqs = append(reqs, &protos.InvokeRequest{ModuleName: "xkernel", ContractName: c, MethodName: m, Args: args})
	}
	if len(reqs) > 0 {
		r, err := preExecAll(im.n, tx.Initiator, tx.AuthRequire, reqs)
		if err != nil {
			return nil, fmt.Errorf("pre-execution: %v", err)
		}
		tx.ContractRequests, tx.TxInputsExt, tx.TxOutputsExt = r.Requests, r.Inputs, r.Outputs
	}
	// signatures: everybody signs the same digest
	sign := func(k *xvlib.Account) ([]byte, error) {
		return txhash.ProcessSignTx(xvlib.Crypto(), tx, []byte(k.PriJSON))
	}
	keyOf := func(tok string) *xvlib.Account { n, _ := strconv.Atoi(tok[1:]); return eKey(n) }
	for _, s := range t.isig {
		k, spoil := eKey(eNKeys-1), true
		if s != "x" {
			k, spoil = keyOf(s), false
		}
		sg, e := sign(k)
		if e != nil {
			return nil, e
		}
		tx.InitiatorSigns = append(tx.InitiatorSigns, sigInfo(k, sg, spoil))
	}
	for i, u := range t.uris {
		last := u[len(u)-1]
		k := eKey(0)
		if isKeyTok(last) {
			k = keyOf(last)
		}
		spoil := false
		switch t.usig[i] {
		case "=":
		case "x":
			spoil = true
		default:
			k = keyOf(t.usig[i])
		}
		sg, e := sign(k)
		if e != nil {
			return nil, e
		}
		tx.AuthRequireSigns = append(tx.AuthRequireSigns, sigInfo(k, sg, spoil))
	}
	tx.Txid, err = txhash.MakeTransactionID(tx)
	return tx, err
}

// ---------------------------------------------------------------- the property, evaluated independently (oracle)

// eVerdict: "" = every clause of the property holds for this transaction on this chain (it must be accepted when no
// fault is armed); otherwise the kind of the first clause that fails (it must be rejected).
func eVerdict(c *eChain, t *eTx) string {
	// rules in force = the confirmed ones; stored bytes that are no rule can be satisfied by nobody
	e := env{}
	for a, r := range c.env {
		e[a] = r
	}
	for a := range c.broken {
		e[a] = &rule{kind: 'S'}
	}
	signed := map[string]bool{} // keys that produced a valid signature of this transaction
	if isKeyTok(t.init) {
		if len(t.isig) < 1 || t.isig[0] != t.init {
			return "invalid-initiator-signature"
		}
		signed[t.init] = true
	} else {
		if len(t.isig) < 1 {
			return "invalid-initiator-signature"
		}
		var us []uri
		for _, s := range t.isig {
			if s == "x" {
				return "invalid-initiator-signature"
			}
			signed[s] = true
			us = append(us, uri{t.init, s})
		}
		if !specAccount(t.init, e, us) {
			return "initiator-account-without-sat"
		}
	}
	for i, u := range t.uris {
		last := u[len(u)-1]
		if signed[last] {
			continue
		}
		if !isKeyTok(last) || !(t.usig[i] == "=" || t.usig[i] == last) {
			return "unverified-signer"
		}
		signed[last] = true
	}
	for _, o := range t.inputs {
		if isKeyTok(o) {
			if !signed[o] {
				return "input-of-unsigned-key"
			}
			continue
		}
		if _, has := e[o]; !has {
			return "input-of-account-without-rule"
		}
		if !specAccount(o, e, t.uris) {
			return "input-of-account-without-sat"
		}
	}
	if len(t.acts) > 0 {
		var users []uri
		seen := map[string]bool{}
		if isKeyTok(t.init) {
			users = append(users, uri{t.init})
			seen[t.init] = true
		}
		for _, u := range t.uris {
			s := strings.Join(u, "/")
			if !seen[s] {
				seen[s] = true
				users = append(users, u)
			}
		}
		for _, a := range t.acts {
			var mr *rule
			if a.kind == 'K' {
				mr = c.mrule
			}
			if !specMethod(mr, e, users) {
				return "method-without-sat"
			}
		}
	}
	for _, a := range t.acts {
		switch a.kind {
		case 'A', 'N':
			if !specAccount(a.arg, e, t.uris) {
				return "acl-write-without-owner:account"
			}
		case 'M':
			o, has := c.owners[a.arg]
			if !has {
				return "method-acl-without-confirmed-owner"
			}
			if !specAccount(o, e, t.uris) {
				return "acl-write-without-owner:method"
			}
		}
	}
	return ""
}

// ---------------------------------------------------------------- executor

type vtxResult struct {
	ans   string
	kind  string // the clause of the property that fails, "" = none (the key without the fault suffix)
	key   string // violation key, "" = none
	what  string
	fault bool
}

func (f *eFault) arm(im *image) (disarm func(), armed bool, err error) {
	if f.kind == "" {
		return func() {}, false, nil
	}
	bucket, key := targetKey(f.target)
	switch f.kind {
	case "io":
		raw := pb.ExtUtxoTablePrefix + bucket + "/" + key
		state := im.n.StatePath()
		kvmem.SetReadFault(func(store, k string) error {
			if store == state && k == raw {
				return errors.New("verifmem: injected read error (input/output error)")
			}
			return nil
		})
		return func() { kvmem.SetReadFault(nil) }, true, nil
	case "rd":
		im.rely.bucket, im.rely.key, im.rely.err = bucket, key, rdErrors[f.class]
		return func() { im.rely.err = nil }, true, nil
	case "ev":
		txs := im.pendTx[f.target]
		if len(txs) == 0 {
			return func() {}, false, nil
		}
		db := im.n.S.GetLDB()
		saved := map[string][]byte{}
		for _, tx := range txs {
			k := append([]byte(pb.UnconfirmedTablePrefix), tx.Txid...)
			v, err := db.Get(k)
			if err != nil {
				return nil, false, err
			}
			saved[string(k)] = v
			if err := db.Delete(k); err != nil {
				return nil, false, err
			}
		}
		return func() {
			for k, v := range saved {
				db.Put([]byte(k), v)
			}
		}, true, nil
	}
	return nil, false, errors.New("bad fault")
}

func runVtx(f []string) (res vtxResult) {
	if len(f) != 12 {
		return vtxResult{ans: "bad-op"}
	}
	c, err := parseEChain(f[1], f[2], f[3], f[4])
	if err != nil {
		return vtxResult{ans: "bad-op"}
	}
	flt, err := parseEFault(f[5])
	if err != nil {
		return vtxResult{ans: "bad-op"}
	}
	t, err := parseETx(f[6], f[7], f[8], f[9], f[10], f[11])
	if err != nil {
		return vtxResult{ans: "bad-op"}
	}
	// a client can only pre-execute SetAccountAcl on a stored account and NewAccount on a name not yet taken
	if !preExecutable(c, t.acts) {
		return vtxResult{ans: "bad-op"}
	}
	im, err := getImage(c, strings.Join(f[1:5], "|"))
	if err != nil {
		xvlib.Die("chain image %q: %v", strings.Join(f[1:5], "|"), err)
	}
	tx, err := buildETx(im, t)
	if err != nil {
		return vtxResult{ans: "no-tx:" + err.Error()}
	}
	disarm, armed, err := flt.arm(im)
	if err != nil {
		xvlib.Die("arming fault %q: %v", f[5], err)
	}
	evals++
	impl := func() (ok bool) {
		defer func() {
			if recover() != nil {
				ok = false
			}
		}()
		ok, err := im.n.S.VerifyTx(tx)
		return ok && err == nil
	}()
	disarm()
	res.ans, res.fault = ar(impl), armed
	v := eVerdict(c, t)
	switch {
	case impl && v != "":
		res.kind = "accepted:" + v
		res.key = "acl:vtx-accepted:" + v
		if armed {
			res.key += ":under-read-fault"
		}
		res.what = "State.VerifyTx accepted a transaction although the property refuses it (" + v + "): rules in force on the confirmed chain, signers = the keys whose signature of this transaction verifies"
		if armed {
			res.what += "; a read fault was armed: a rule that cannot be read must not be taken for 'no rule'"
		}
	case !impl && v == "" && !armed:
		// the code refuses to decide on an owner entry that has an unconfirmed overwrite: not a violation
		pendingOwner := false
		for _, a := range t.acts {
			pendingOwner = pendingOwner || (a.kind == 'M' && c.pendSet[a.arg])
		}
		if pendingOwner {
			break
		}
		// stored bytes that are no rule make every evaluation that meets the name fail (an unreadable rule): rejecting
		// is the safe side even where the property does not need that rule
		if touchesBroken(c, t) {
			break
		}
		res.kind = "rejected"
		res.key = "acl:vtx-rejected-although-authorised"
		res.what = "State.VerifyTx rejected a well-formed transaction all of whose signatures verify and whose inputs, contract call and rule changes are authorised by the rules in force"
	}
	return res
}

// preExecutable: SetAccountAcl needs a stored (parsable) account, NewAccount a name not yet taken; a NewAccount
// earlier in the same transaction counts.
func preExecutable(c *eChain, acts []eAct) bool {
	created := map[string]bool{}
	for _, a := range acts {
		_, stored := c.env[a.arg]
		stored = stored || c.broken[a.arg] || c.pendSet[a.arg] || created[a.arg]
		switch a.kind {
		case 'A':
			if !stored || c.broken[a.arg] {
				return false
			}
		case 'N':
			if stored {
				return false
			}
			created[a.arg] = true
		}
	}
	return true
}

func touchesBroken(c *eChain, t *eTx) bool {
	if len(c.broken) == 0 {
		return false
	}
	if c.broken[t.init] {
		return true
	}
	for _, a := range t.acts {
		if c.broken[a.arg] || (a.kind == 'M' && c.broken[c.owners[a.arg]]) {
			return true
		}
	}
	for _, o := range t.inputs {
		if c.broken[o] {
			return true
		}
	}
	for _, u := range t.uris {
		for _, x := range u {
			if c.broken[x] {
				return true
			}
		}
	}
	return false
}

// shrinkVtx drops list elements (inputs, uris with their signers, pending entries, env entries, owners), the fault
// and the method rule while the same clause of the property still fails; the key is that of the shrunk case (so a
// fault that was armed but is not needed for the failure does not appear in it).
func shrinkVtx(f []string, kind string) []string {
	try := func(g []string) bool {
		r := runVtx(g)
		return r.kind == kind
	}
	for changed := true; changed; {
		changed = false
		for _, field := range []int{10, 8, 4, 1, 3, 7} {
			parts := strings.Fields(f[field])
			for i := 0; i < len(parts); i++ {
				g := append([]string{}, f...)
				g[field] = strings.Join(append(append([]string{}, parts[:i]...), parts[i+1:]...), " ")
				if field == 8 {
					sg := strings.Fields(f[9])
					g[9] = strings.Join(append(append([]string{}, sg[:i]...), sg[i+1:]...), " ")
				}
				if try(g) {
					f, parts = g, strings.Fields(g[field])
					changed = true
					i--
				}
			}
		}
		if f[11] != "T" {
			as := strings.Split(f[11], "+")
			for i := 0; i < len(as); i++ {
				g := append([]string{}, f...)
				rest := append(append([]string{}, as[:i]...), as[i+1:]...)
				g[11] = strings.Join(rest, "+")
				if len(rest) == 0 {
					g[11] = "T"
				}
				if try(g) {
					f, as, changed = g, rest, true
					i--
				}
			}
		}
		if f[5] != "-" {
			g := append([]string{}, f...)
			g[5] = "-"
			if try(g) {
				f, changed = g, true
			}
		}
		if f[2] != "N" {
			g := append([]string{}, f...)
			g[2] = "N"
			if try(g) {
				f, changed = g, true
			}
		}
	}
	return f
}

func execVtx(f []string, line string, out *xvlib.Out) string {
	r := runVtx(f)
	if out != nil && r.key != "" {
		g := shrinkVtx(f, r.kind)
		r2 := runVtx(g)
		out.Violate(xvlib.Violation{Key: r2.key, What: r2.what, Ops: []string{strings.Join(g, "|")}, Impl: []string{r2.ans}})
	}
	return r.ans
}

// ---------------------------------------------------------------- generator

// eConfigs: the chains transactions are verified against.
var eConfigs = [][4]string{ // env, mrule, owners, pend
	{"a0=T:4:k1=4", "N", "c0=a0", ""},
	{"a0=T:4:k1=4", "N", "c0=a0", "a0=T:4:k0=4"},
	{"a0=T:4:k1=2,k2=2 a1=S:k0;k1+k2", "T:4:k2=4", "c0=a0 c1=a1", "a1=T:4:k3=4 m=T:4:k0=4"},
	{"a0=T:4:k0=2,a1=2 a1=S:k1;k2 a2=S:k0+k1", "S:k1;a1", "c0=a1 c1=a0 c2=a2", "c2=a0 a3=T:4:k3=4"},
	{"a0=S:k0+k1 a1=T:2:k2=2 a2=X", "N", "c0=a2 c1=a1", "a0=S:k3 a0=S:k4"},
	{"a0=T:2:k0=1,k1=1,k2=1 a1=T:4:a0=4 a2=T:1:k2=1", "T:2:a1=2,k3=2", "c0=a1 c1=a2", "c0=a2 a2=T:4:k0=4"},
	{"a0=T:4:k0=4,k1=-4 a1=S: a3=T:0:k0=1", "S:k0+k1;k2", "c1=a3 c2=a1", "m=S:k3"},
	{"", "N", "", "a0=T:4:k0=4 c0=a0"},
	// pending changes that are also carried by a side-branch block the ledger stores (~), changes that sit only there (^)
	{"a0=T:4:k1=4", "N", "c0=a0", "~a0=T:4:k0=4"},
	{"a0=T:4:k1=4 a1=S:k2", "T:4:k2=4", "c0=a0 c1=a1", "^a0=T:4:k0=4 ~m=T:4:k0=4 ^c1=a0"},
	{"a0=T:4:k1=2,k2=2 a1=S:k0;k1+k2", "T:4:k2=4", "c0=a0 c1=a1", "~a1=T:4:k3=4 ^m=T:4:k0=4 ~c1=a0 a0=S:k3"},
	{"a0=S:k0+k1 a1=T:2:k2=2", "S:k1", "c0=a1", "^a0=S:k3 ~m=S:k3 ^c2=a0 ~a3=T:4:k3=4 ~a0=S:k4"},
}

func eRandRule(rng *xvlib.Rng) string {
	name := func() string {
		if rng.Chance(1, 4) {
			return fmt.Sprintf("a%d", rng.Intn(eNAccts))
		}
		return fmt.Sprintf("k%d", rng.Intn(eNKeys))
	}
	if rng.Chance(3, 5) {
		n := 1 + rng.Intn(3)
		seen := map[string]bool{}
		var ms []string
		for j := 0; j < n; j++ {
			m := name()
			if seen[m] {
				continue
			}
			seen[m] = true
			ms = append(ms, fmt.Sprintf("%s=%d", m, []int{1, 2, 2, 4, 4, 0, -2}[rng.Intn(7)]))
		}
		return fmt.Sprintf("T:%d:%s", []int{1, 2, 4, 4, 6}[rng.Intn(5)], strings.Join(ms, ","))
	}
	n := 1 + rng.Intn(2)
	var sets []string
	for j := 0; j < n; j++ {
		sz := 1 + rng.Intn(2)
		var s []string
		for l := 0; l < sz; l++ {
			s = append(s, name())
		}
		sets = append(sets, strings.Join(s, "+"))
	}
	return "S:" + strings.Join(sets, ";")
}

func eRandConfig(rng *xvlib.Rng) [4]string {
	var envL, ownL, pendL []string
	for a := 0; a < eNAccts; a++ {
		switch {
		case rng.Chance(2, 3):
			envL = append(envL, fmt.Sprintf("a%d=%s", a, eRandRule(rng)))
		case rng.Chance(1, 8):
			envL = append(envL, fmt.Sprintf("a%d=X", a))
		}
	}
	mr := "N"
	if rng.Bool() {
		mr = eRandRule(rng)
	}
	for c := 0; c < eNContr; c++ {
		if rng.Chance(3, 5) {
			ownL = append(ownL, fmt.Sprintf("c%d=a%d", c, rng.Intn(eNAccts)))
		}
	}
	np := rng.Intn(4)
	sideCfg := rng.Chance(1, 2) // half of the chains have a side branch
	for i := 0; i < np; i++ {
		mark := ""
		if sideCfg {
			mark = []string{"", "~", "~", "^"}[rng.Intn(4)]
		}
		switch rng.Intn(5) {
		case 0:
			pendL = append(pendL, fmt.Sprintf("%sc%d=a%d", mark, rng.Intn(eNContr), rng.Intn(eNAccts)))
		case 1:
			pendL = append(pendL, mark+"m="+eRandRule(rng))
		default:
			pendL = append(pendL, fmt.Sprintf("%sa%d=%s", mark, rng.Intn(eNAccts), eRandRule(rng)))
		}
	}
	return [4]string{strings.Join(envL, " "), mr, strings.Join(ownL, " "), strings.Join(pendL, " ")}
}

// eRandTx: a transaction for the chain c. Half of the time the signers and uris are aimed at the rules that the
// transaction needs (so that acceptances are frequent), otherwise they are random.
func eRandTx(rng *xvlib.Rng, c *eChain) string {
	key := func() string { return fmt.Sprintf("k%d", rng.Intn(eNKeys)) }
	acct := func() string { return fmt.Sprintf("a%d", rng.Intn(eNAccts)) }
	init := key()
	var isig []string
	if rng.Chance(1, 6) {
		init = acct()
		n := 1 + rng.Intn(2)
		for i := 0; i < n; i++ {
			isig = append(isig, key())
		}
		if rng.Chance(1, 12) {
			isig[rng.Intn(len(isig))] = "x"
		}
	} else {
		isig = []string{init}
		switch rng.Intn(30) {
		case 0:
			isig = []string{key()}
		case 1:
			isig = []string{"x"}
		case 2:
			isig = []string{key(), init}
		}
	}
	// contract requests
	var acts []eAct
	na := 0
	switch rng.Intn(20) {
	case 0, 1, 2, 3, 4, 5, 6:
	case 7, 8:
		na = 2
	case 9:
		na = 3
	default:
		na = 1
	}
	created := map[string]bool{}
	for i := 0; i < na; i++ {
		switch rng.Intn(13) {
		case 0, 1, 2:
			acts = append(acts, eAct{kind: 'K'})
		case 3, 4, 5, 6, 7, 8:
			a := acct()
			_, stored := c.env[a]
			stored = stored || c.broken[a] || c.pendSet[a] || created[a]
			if stored && !c.broken[a] {
				acts = append(acts, eAct{'A', a})
			} else if !stored {
				acts = append(acts, eAct{'N', a})
				created[a] = true
			}
		default:
			acts = append(acts, eAct{'M', fmt.Sprintf("c%d", rng.Intn(eNContr))})
		}
	}
	act := "T"
	if len(acts) > 0 {
		var as []string
		for _, a := range acts {
			if a.kind == 'K' {
				as = append(as, "K")
			} else {
				as = append(as, string(a.kind)+":"+a.arg)
			}
		}
		act = strings.Join(as, "+")
	}
	// inputs
	var inputs []string
	ni := rng.Intn(5)
	cnt := map[string]int{}
	for i := 0; i < ni; i++ {
		var o string
		switch rng.Intn(6) {
		case 0, 1:
			o = init
		case 2:
			o = key()
		default:
			o = acct()
		}
		if len(inputs) > 0 && rng.Chance(1, 4) {
			o = inputs[rng.Intn(len(inputs))]
		}
		if cnt[o] < eUtxos {
			cnt[o]++
			inputs = append(inputs, o)
		}
	}
	// the accounts whose rule the transaction needs
	need := map[string]bool{}
	for _, o := range inputs {
		if !isKeyTok(o) {
			need[o] = true
		}
	}
	callsK := false
	for _, a := range acts {
		switch a.kind {
		case 'K':
			callsK = true
		case 'A', 'N':
			need[a.arg] = true
		case 'M':
			if o, ok := c.owners[a.arg]; ok {
				need[o] = true
			}
		}
	}
	var uris, usig []string
	add := func(u string) {
		uris = append(uris, u)
		s := "="
		switch rng.Intn(40) {
		case 0:
			s = "x"
		case 1:
			s = key()
		}
		usig = append(usig, s)
	}
	if rng.Bool() {
		// aimed: for every needed account, the members of its rule sign below it (one level of nesting followed)
		var needL []string
		for a := range need {
			needL = append(needL, a)
		}
		sort.Strings(needL)
		var below func(prefix string, a string, depth int)
		below = func(prefix string, a string, depth int) {
			r := c.env[a]
			// sometimes the signers are those of a rule that is NOT in force: a pending change, or one that only a
			// side-branch block carries
			for _, p := range c.pend {
				if p.target == a && p.rule != nil && rng.Chance(1, 3) {
					r = p.rule
				}
			}
			if r == nil {
				add(prefix + "/" + key())
				return
			}
			var ms []string
			for _, m := range r.members {
				ms = append(ms, m.name)
			}
			for _, s := range r.sets {
				ms = append(ms, s...)
			}
			for _, m := range ms {
				if rng.Chance(1, 5) {
					continue
				}
				if isKeyTok(m) {
					add(prefix + "/" + m)
				} else if depth < 2 {
					below(prefix+"/"+m, m, depth+1)
				}
			}
		}
		for _, a := range needL {
			below(a, a, 0)
		}
		if callsK && c.mrule.kind != 'N' {
			for _, m := range c.mrule.members {
				if isKeyTok(m.name) {
					add(m.name)
				} else {
					below(m.name, m.name, 1)
				}
			}
			for _, s := range c.mrule.sets {
				for _, m := range s {
					if isKeyTok(m) {
						add(m)
					} else {
						below(m, m, 1)
					}
				}
			}
		}
		for _, o := range inputs {
			if isKeyTok(o) && o != init && rng.Chance(4, 5) {
				add(o)
			}
		}
	}
	nr := rng.Intn(3)
	for i := 0; i < nr; i++ {
		switch rng.Intn(8) {
		case 0:
			add(key())
		case 1:
			add(acct() + "/" + acct() + "/" + key())
		case 2:
			add(acct() + "/" + key() + "/" + key())
		case 3:
			add(acct() + "/" + acct())
		default:
			add(acct() + "/" + key())
		}
	}
	if len(uris) > 7 {
		uris, usig = uris[:7], usig[:7]
	}
	// shuffle the uris (with their signers)
	for i := len(uris) - 1; i > 0; i-- {
		j := rng.Intn(i + 1)
		uris[i], uris[j] = uris[j], uris[i]
		usig[i], usig[j] = usig[j], usig[i]
	}
	// fault
	fault := "-"
	if rng.Chance(1, 3) {
		var targets []string
		for a := range need {
			targets = append(targets, a)
		}
		for _, u := range uris {
			targets = append(targets, strings.Split(u, "/")...)
		}
		targets = append(targets, "m", []string{"m", "ma", "mn", "mm"}[rng.Intn(4)], acct(), key())
		sort.Strings(targets[:len(need)])
		t := targets[rng.Intn(len(targets))]
		switch rng.Intn(6) {
		case 0, 1:
			fault = "io:" + t
		case 2:
			fault = "ev:" + t
			if rng.Bool() && len(c.pend) > 0 {
				pe := c.pend[rng.Intn(len(c.pend))]
				fault = "ev:" + pe.target
				if fault[3] == 'c' || pe.side == '^' {
					fault = "ev:" + t
				}
				if len(acts) == 0 && fault[3] == 'a' && rng.Bool() {
					acts = append(acts, eAct{'A', fault[3:]}) // a rule change of the account whose pending writer is evicted
					act = "A:" + fault[3:]
				}
			}
		default:
			fault = fmt.Sprintf("rd%d:%s", rng.Intn(4), t)
		}
	}
	return strings.Join([]string{fault, init, strings.Join(isig, " "), strings.Join(uris, " "), strings.Join(usig, " "), strings.Join(inputs, " "), act}, "|")
}

func generateVtx(run func(string, bool) string, rng *xvlib.Rng, full bool, out *xvlib.Out) (int, int) {
	nRandCfg, perCfg := 40, 110
	if full {
		nRandCfg, perCfg = 600, 160
	}
	cfgs := append([][4]string{}, eConfigs...)
	for i := 0; i < nRandCfg; i++ {
		cfgs = append(cfgs, eRandConfig(rng))
	}
	n := 0
	for ci, cf := range cfgs {
		c, err := parseEChain(cf[0], cf[1], cf[2], cf[3])
		if err != nil {
			xvlib.Die("generator produced a bad chain %q: %v", cf, err)
		}
		k := perCfg
		if ci < len(eConfigs) {
			k = 3 * perCfg
		}
		for i := 0; i < k; i++ {
			line := "vtx|" + strings.Join(cf[:], "|") + "|" + eRandTx(rng, c)
			r := run(line, true)
			n++
			if ci == 2 && i < 2 {
				out.Sample(map[string]string{"op": line, "impl": r})
			}
		}
	}
	return len(cfgs), n
}
