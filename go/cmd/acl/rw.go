package main

import (
	"fmt"
	"io/ioutil"
	"os"
	"path/filepath"
	"sort"
	"strings"

	"github.com/xuperchain/xupercore/bcs/ledger/xledger/ledger"
	"github.com/xuperchain/xupercore/bcs/ledger/xledger/state"
	sctx "github.com/xuperchain/xupercore/bcs/ledger/xledger/state/context"
	txn "github.com/xuperchain/xupercore/bcs/ledger/xledger/tx"
	lpb "github.com/xuperchain/xupercore/bcs/ledger/xledger/xldgpb"
	xconf "github.com/xuperchain/xupercore/kernel/common/xconfig"
	_ "github.com/xuperchain/xupercore/lib/storage/kvdb/leveldb"
	"github.com/xuperchain/xupercore/protos"
	pb "github.com/xuperchain/xupercore/protos"
	"xv/xvlib"
)

// The real State used for `rw` lines: a fresh ledger (leveldb under the scratch dir) whose root block also
// confirms one setup transaction that records the contract owners below in XCContract2Account; the ACL manager of
// the State is a proxy to the fake manager of the current op line.

var staticOwners = "c0=a0 c1=a1 c2=a2" // c3: no owner entry

const genesisJSON = `{"version":"1","predistribution":[{"address":"TeyyPLpp9L7QAcxHangtcHTu7HUZ6iydY","quota":"100000000"}],
"maxblocksize":"16","award":"1000000","decimals":"8","award_decay":{"height_gap":31536000,"ratio":1},
"gas_price":{"cpu_rate":1000,"mem_rate":1000000,"disk_rate":1,"xfee_rate":1},"new_account_resource_amount":1000,
"genesis_consensus":{"name":"single","config":{"miner":"TeyyPLpp9L7QAcxHangtcHTu7HUZ6iydY","period":3000}}}`

type proxyMgr struct{ cur *fakeMgr }

func (p *proxyMgr) GetAccountACL(n string) (*pb.Acl, error) { return p.cur.GetAccountACL(n) }
func (p *proxyMgr) GetContractMethodACL(c, m string) (*pb.Acl, error) {
	return p.cur.GetContractMethodACL(c, m)
}
func (p *proxyMgr) GetAccountAddresses(n string) ([]string, error) { return nil, nil }

var (
	theState *state.State
	theProxy = &proxyMgr{}
	scratch  string
)

func contractName(c string) string { return "contract" + c[1:] }

func copyDir(src, dst string) error {
	os.MkdirAll(dst, 0755)
	es, err := ioutil.ReadDir(src)
	if err != nil {
		return err
	}
	for _, e := range es {
		if e.IsDir() {
			continue
		}
		b, err := ioutil.ReadFile(filepath.Join(src, e.Name()))
		if err != nil {
			return err
		}
		if err := ioutil.WriteFile(filepath.Join(dst, e.Name()), b, 0644); err != nil {
			return err
		}
	}
	return nil
}

func getState() *state.State {
	if theState != nil {
		return theState
	}
	repo := os.Getenv("XV_REPO")
	if repo == "" {
		repo = "/repo"
	}
	root := filepath.Join(scratch, "root")
	if err := copyDir(filepath.Join(repo, "kernel/mock/conf"), filepath.Join(root, "conf")); err != nil {
		xvlib.Die("copy conf: %v", err)
	}
	econf, err := xconf.LoadEnvConf(filepath.Join(root, "conf/env.yaml"))
	if err != nil {
		xvlib.Die("env conf: %v", err)
	}
	econf.RootPath = root
	econf.ChainDir = "chain"
	lctx, err := ledger.NewLedgerCtx(econf, "xuper")
	if err != nil {
		xvlib.Die("ledger ctx: %v", err)
	}
	lg, err := ledger.CreateLedger(lctx, []byte(genesisJSON))
	if err != nil {
		xvlib.Die("create ledger: %v", err)
	}
	rootTx, err := txn.GenerateRootTx([]byte(genesisJSON))
	if err != nil {
		xvlib.Die("root tx: %v", err)
	}
	// the setup transaction: confirmed owner entries
	setup := &lpb.Transaction{Txid: []byte("xv-acl-setup-tx-0000000000000001"), Version: 3}
	for _, f := range strings.Fields(staticOwners) {
		kv := strings.SplitN(f, "=", 2)
		key := []byte(contractName(kv[0]))
		setup.TxInputsExt = append(setup.TxInputsExt, &protos.TxInputExt{Bucket: aclBucketC2A, Key: key})
		setup.TxOutputsExt = append(setup.TxOutputsExt, &protos.TxOutputExt{Bucket: aclBucketC2A, Key: key, Value: []byte(realName(kv[1]))})
	}
	blk, err := lg.FormatRootBlock([]*lpb.Transaction{rootTx, setup})
	if err != nil {
		xvlib.Die("root block: %v", err)
	}
	if st := lg.ConfirmBlock(blk, true); !st.Succ {
		xvlib.Die("confirm root block failed: %v", st.Error)
	}
	sc, err := sctx.NewStateCtx(econf, "xuper", lg, xvlib.Crypto())
	if err != nil {
		xvlib.Die("state ctx: %v", err)
	}
	s, err := state.NewState(sc)
	if err != nil {
		xvlib.Die("new state: %v", err)
	}
	s.SetAclMG(theProxy)
	if err := s.VerifApplyExt(setup); err != nil {
		xvlib.Die("apply setup tx: %v", err)
	}
	theState = s
	return s
}

const (
	aclBucketAccount  = "XCAccount"
	aclBucketContract = "XCContract"
	aclBucketC2A      = "XCContract2Account"
)

type write struct {
	kind byte // 'A','M','B','C','N','O'
	name string
}

func parseWrites(s string) ([]write, bool) {
	var ws []write
	for _, f := range strings.Fields(s) {
		switch {
		case f == "MB":
			ws = append(ws, write{'B', ""})
		case f == "CN":
			ws = append(ws, write{'N', ""})
		case f == "O":
			ws = append(ws, write{'O', ""})
		case strings.HasPrefix(f, "A:") && validTok(f[2:]):
			ws = append(ws, write{'A', f[2:]})
		case strings.HasPrefix(f, "C:") && validTok(f[2:]):
			ws = append(ws, write{'C', f[2:]})
		case strings.HasPrefix(f, "M:c") && len(f) > 3:
			ws = append(ws, write{'M', f[2:]})
		default:
			return nil, false
		}
	}
	return ws, true
}

// execRW: rw|<env>|<owners>|<uris>|<verified>|<writes>
func execRW(f []string, line string, out *xvlib.Out) string {
	if len(f) != 6 {
		return "bad-op"
	}
	e, err := parseEnv(f[1])
	if err != nil {
		return "bad-op"
	}
	us, err := parseURIs(f[3])
	if err != nil {
		return "bad-op"
	}
	ws, ok := parseWrites(f[5])
	if !ok {
		return "bad-op"
	}
	var ver []string
	for _, v := range strings.Fields(f[4]) {
		if !validTok(v) {
			return "bad-op"
		}
		ver = append(ver, v)
	}
	if strings.Join(strings.Fields(f[2]), " ") != staticOwners {
		return "-" // the real chain of the harness carries a fixed owner table; other tables are model-only
	}
	owners := map[string]string{}
	for _, o := range strings.Fields(staticOwners) {
		kv := strings.SplitN(o, "=", 2)
		owners[kv[0]] = kv[1]
	}
	st := getState()
	theProxy.cur = newMgr(e, nil)
	tx := &lpb.Transaction{Version: 3, AuthRequire: realURIs(us),
		ContractRequests: []*protos.InvokeRequest{{ModuleName: "xkernel", ContractName: "$acl", MethodName: "SetAccountAcl"}}}
	for i, w := range ws {
		o := &protos.TxOutputExt{}
		switch w.kind {
		case 'A':
			o.Bucket, o.Key, o.Value = aclBucketAccount, []byte(realName(w.name)), []byte("{}")
		case 'M':
			o.Bucket, o.Key, o.Value = aclBucketContract, []byte(contractName(w.name)+"\x01increase"), []byte("{}")
		case 'B':
			o.Bucket, o.Key, o.Value = aclBucketContract, []byte("noseparator"), []byte("{}")
		case 'C':
			o.Bucket, o.Key, o.Value = aclBucketC2A, []byte(fmt.Sprintf("newcontract%d", i)), []byte(realName(w.name))
		case 'N':
			o.Bucket, o.Key, o.Value = aclBucketC2A, []byte(fmt.Sprintf("newcontract%d", i)), nil
		case 'O':
			o.Bucket, o.Key, o.Value = "counter", []byte("key"), []byte("1")
		}
		tx.TxOutputsExt = append(tx.TxOutputsExt, o)
	}
	verified := map[string]bool{}
	for _, v := range ver {
		verified[realName(v)] = true
	}
	evals++
	impl := func() (res bool) {
		defer func() {
			if recover() != nil {
				res = false
			}
		}()
		ok, err := st.VerifRWSetPermission(tx, verified)
		_ = err
		return ok
	}()
	if out != nil && impl {
		// property oracle (independent of the model): an accepted transaction must, for every write to an ACL
		// bucket, satisfy the rule in force of the owning account with its AuthRequire — or the owner was handed
		// in as already verified (the harness only hands in names that do satisfy it, or keys)
		handed := map[string]bool{}
		for _, v := range ver {
			handed[v] = true
		}
		for _, w := range ws {
			bad := ""
			switch w.kind {
			case 'A', 'C':
				if !handed[w.name] && !specAccount(w.name, e, us) {
					bad = "acl:rw-accepted-without-owner:" + map[byte]string{'A': "account", 'C': "contract2account"}[w.kind]
				}
			case 'M':
				o, has := owners[w.name]
				if !has {
					bad = "acl:rw-accepted-method-acl-without-confirmed-owner"
				} else if !handed[o] && !specAccount(o, e, us) {
					bad = "acl:rw-accepted-without-owner:method"
				}
			case 'B', 'N':
				bad = "acl:rw-accepted-malformed-write"
			}
			if bad != "" {
				out.Violate(xvlib.Violation{Key: bad,
					What: "verifyRWSetPermission accepted a transaction whose write " + string(w.kind) + ":" + w.name + " is not authorised by the owning account's rule in force",
					Ops:  []string{line}, Impl: []string{ar(impl)}})
				break
			}
		}
	}
	return ar(impl)
}

func generateRW(run func(string, bool) string, rng *xvlib.Rng, n int, out *xvlib.Out) {
	envs := []string{
		"a0=T:4:k0=4 a1=S:k1 a2=T:4:k0=2,k1=2",
		"a0=T:4:k0=2,a1=2 a1=S:k1;k2 a2=S:k0+k1",
		"a0=S:k0+k1 a1=T:2:k2=2 ",
		"a0=T:2:k0=1,k1=1,k2=1 a1=T:4:a0=4 a2=T:1:k2=1",
	}
	for i := 0; i < n; i++ {
		env := envs[rng.Intn(len(envs))]
		if rng.Chance(1, 5) {
			env = randEnv(rng)
		}
		e, _ := parseEnv(env)
		// AuthRequire: URIs over several roots
		var us []string
		nu := rng.Intn(5)
		for j := 0; j < nu; j++ {
			root := fmt.Sprintf("a%d", rng.Intn(3))
			switch rng.Intn(6) {
			case 0:
				us = append(us, fmt.Sprintf("%s/a%d/k%d", root, rng.Intn(3), rng.Intn(3)))
			case 1:
				us = append(us, fmt.Sprintf("%s/k%d/k%d", root, rng.Intn(3), rng.Intn(3)))
			case 2:
				us = append(us, fmt.Sprintf("k%d", rng.Intn(3)))
			default:
				us = append(us, fmt.Sprintf("%s/k%d", root, rng.Intn(3)))
			}
		}
		uris, _ := parseURIs(strings.Join(us, " "))
		// verifiedID: keys (addresses whose signature was verified) and accounts that do satisfy their rule
		var ver []string
		for k := 0; k < 3; k++ {
			if rng.Chance(1, 3) {
				ver = append(ver, fmt.Sprintf("k%d", k))
			}
		}
		for a := 0; a < 3; a++ {
			an := fmt.Sprintf("a%d", a)
			if rng.Chance(1, 4) && specAccount(an, e, uris) {
				ver = append(ver, an)
			}
		}
		sort.Strings(ver)
		var ws []string
		nw := 1 + rng.Intn(4)
		for j := 0; j < nw; j++ {
			switch rng.Intn(12) {
			case 0, 1, 2, 3:
				ws = append(ws, fmt.Sprintf("A:a%d", rng.Intn(4)))
			case 4, 5, 6:
				ws = append(ws, fmt.Sprintf("M:c%d", rng.Intn(4)))
			case 7, 8:
				ws = append(ws, fmt.Sprintf("C:a%d", rng.Intn(4)))
			case 9:
				if rng.Bool() {
					ws = append(ws, "MB")
				} else {
					ws = append(ws, "CN")
				}
			case 10:
				ws = append(ws, fmt.Sprintf("A:k%d", rng.Intn(3)))
			default:
				ws = append(ws, "O")
			}
		}
		line := fmt.Sprintf("rw|%s|%s|%s|%s|%s", strings.Join(strings.Fields(env), " "), staticOwners, strings.Join(us, " "), strings.Join(ver, " "), strings.Join(ws, " "))
		r := run(line, true)
		if i < 2 {
			out.Sample(map[string]string{"op": line, "impl": r})
		}
	}
}
