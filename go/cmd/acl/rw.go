package main

import (
	"xv/xvlib"
)

func execRW(f []string, line string, out *xvlib.Out) string { return "bad-op" }

func generateRW(run func(string, bool) string, rng *xvlib.Rng, n int, out *xvlib.Out) {}
