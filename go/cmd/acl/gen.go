package main

import (
	"fmt"
	"io/ioutil"
	"path/filepath"
	"sort"
	"strings"

	"xv/xvlib"
)

// corpusLines returns the op lines of corpus/C11/*.ops (cwd is the /verif root when run by ./check).
func corpusLines() []string {
	files, _ := filepath.Glob("corpus/C11/*.ops")
	sort.Strings(files)
	var ls []string
	for _, f := range files {
		if _, err := ioutil.ReadFile(f); err == nil {
			ls = append(ls, xvlib.ReadLines(f)...)
		}
	}
	return ls
}

// URI alphabet for the account tree of a0: direct keys, keys below the nested account a1, another account's
// signer, keys below a KEY (the middle component was never verified), self nesting, an account as last
// component, a path rooted at the other account, a bare key.
var accAlphabet = "a0/k0 a0/k1 a0/k2 a0/a1/k0 a0/a1/k1 a0/a1/k2 a1/k0 a0/k0/k1 a0/k1/k2 a0/k2/k0 a0/a0/k0 a0/a1 a1/a0/k0 k0"

// URI alphabet for a method tree (members k0 k1 k2 a1)
var methAlphabet = "k0 k1 k2 a1/k0 a1/k1 a1/k2 k0/k1 k1/k2 a1/k0/k1 a1 a1/a1/k0 a0/k0 a1/a0/k0"

func generate(run func(string, bool) string, rng *xvlib.Rng, full bool, out *xvlib.Out) {
	members := []string{"k0", "k1", "k2", "a1"}
	roots := rootRules(members, full)
	nested := nestedRules(full)
	a0rules := []string{"N", "T:2:k0=2", "S:k1", "T:4:k0=2,k1=2"} // a0's own rule when it appears below a method / a1
	pairsK4, pairsK3 := 0, 0
	// 1. exhaustive small universe
	for ri, r := range roots {
		for ni, n := range nested {
			k := 2
			if full {
				k = 4
			} else {
				// quick: every rule pair with all multisets of size <= 2; a seeded sample of the pairs with size <= 4 / <= 3
				switch rng.Intn(12) {
				case 0:
					k = 4
				case 1, 2, 3, 4:
					k = 3
				}
			}
			if k == 4 {
				pairsK4++
			} else if k == 3 {
				pairsK3++
			}
			env := "a0=" + r + " a1=" + n
			run(fmt.Sprintf("idx|a0|%s|%s|%d", env, accAlphabet, k), true)
			// the method tree: rule r on the method, a1 nested, a0 some other account
			env2 := "a1=" + n + " a0=" + a0rules[(ri+ni)%len(a0rules)]
			run(fmt.Sprintf("cmx|%s|%s|%s|%d", r, env2, methAlphabet, k), true)
		}
	}
	// 1b. lookup faults on the small universe: the nested account, the root, a key or the method rule cannot be read
	nFault := 150
	if full {
		nFault = 3000
	}
	for i := 0; i < nFault; i++ {
		r := roots[rng.Intn(len(roots))]
		n := nested[rng.Intn(len(nested))]
		e := fmt.Sprintf("E%d", rng.Intn(4))
		k := 2 + rng.Intn(2)
		switch rng.Intn(5) {
		case 0:
			run(fmt.Sprintf("idx|a0|a0=%s a1=%s|%s|%d", r, e, accAlphabet, k), true)
		case 1:
			run(fmt.Sprintf("idx|a0|a0=%s a1=%s|%s|%d", e, n, accAlphabet, k), true)
		case 2:
			run(fmt.Sprintf("idx|a0|a0=%s a1=%s k%d=%s|%s|%d", r, n, rng.Intn(3), e, accAlphabet, k), true)
		case 3:
			run(fmt.Sprintf("cmx|%s|a1=%s a0=N|%s|%d", e, n, methAlphabet, k), true)
		default:
			run(fmt.Sprintf("cmx|%s|a1=%s a0=%s|%s|%d", r, e, a0rules[i%len(a0rules)], methAlphabet, k), true)
		}
	}
	// 2. random larger cases: up to 4 accounts x 5 keys, depth <= 4, negative weights, up to 7 URIs, shuffled
	nRand := 20000
	if full {
		nRand = 400000
	}
	for i := 0; i < nRand; i++ {
		line := randomCase(rng)
		r := run(line, true)
		if i < 3 {
			out.Sample(map[string]string{"op": line, "impl": r})
		}
	}
	// 3. the decision logic of verifyRWSetPermission
	nRW := 4000
	if full {
		nRW = 60000
	}
	generateRW(run, rng, nRW, out)
	// 4. end to end: State.VerifyTx of a real node on signed transactions (token inputs of several owners in every
	// order, the kernel's SetAccountAcl / NewAccount / SetMethodAcl, a contract call), with read faults
	nCfg, nVtx := generateVtx(run, rng, full, out)
	out.Stats.Exhaustive = full
	out.Stats.Rule = fmt.Sprintf("exhaustive part: account a0 (and a method) with every rule out of %d (threshold: weights {0,1/4,1/2,1} on k0,k1,k2 and on the nested account a1, thresholds {1/4,1/2,1,3/2}; key sets: every family of <= 2 subsets of the 4 members incl. the empty set) x %d rules of the nested account x ALL multisets of size <= k over a %d-URI alphabet (direct keys, keys below the nested account, other account's signer, keys below a key, self nesting, account as last component); thorough: k=4 for every pair; quick: the weight of k2 is restricted to {0,1/2} and pairs of key sets leave out k2, k=2 for every pair, k=4 for %d and k=3 for %d seeded pairs. Plus %d random cases (<=4 accounts, <=5 keys, depth <=4, weights in -1/4..1, <=7 URIs) and %d random verifyRWSetPermission cases; %d lookup-fault lines on the small universe (the nested account, the root, a key or the method rule answers an error; random cases carry such entries with probability 1/8); %d end-to-end State.VerifyTx cases on %d chains (real node: confirmed rules, pending rule changes / owner entries in the pool, signed transactions with <= 4 token inputs of keys and accounts in every order, account initiators, signatures that do not verify, SetAccountAcl / NewAccount / SetMethodAcl / a contract call pre-executed like a client does; one third with a read fault: I/O error on the rule's version pointer, evicted pending writer, error of four texts from the snapshot reader). Each multiset is one case; cases are distinct by construction (rule pair x multiset); non-trivial = at least one URI.",
		len(roots), len(nested), len(strings.Fields(accAlphabet)), pairsK4, pairsK3, nRand, nRW, nFault, nVtx, nCfg)
}

func randName(rng *xvlib.Rng, acct bool) string {
	if acct {
		return fmt.Sprintf("a%d", rng.Intn(4))
	}
	return fmt.Sprintf("k%d", rng.Intn(5))
}

func randRule(rng *xvlib.Rng) string {
	switch rng.Intn(8) {
	case 0:
		return "N"
	case 1, 2, 3, 4:
		n := rng.Intn(5)
		seen := map[string]bool{}
		var ms []string
		for j := 0; j < n; j++ {
			m := randName(rng, rng.Chance(1, 3))
			if seen[m] {
				continue
			}
			seen[m] = true
			ms = append(ms, fmt.Sprintf("%s=%d", m, rng.Intn(6)-1))
		}
		return fmt.Sprintf("T:%d:%s", rng.Intn(8)-1, strings.Join(ms, ","))
	default:
		n := rng.Intn(4)
		var sets []string
		for j := 0; j < n; j++ {
			sz := rng.Intn(4)
			if sz == 0 {
				sets = append(sets, "0")
				continue
			}
			var s []string
			for l := 0; l < sz; l++ {
				s = append(s, randName(rng, rng.Chance(1, 3)))
			}
			sets = append(sets, strings.Join(s, "+"))
		}
		return "S:" + strings.Join(sets, ";")
	}
}

func randEnv(rng *xvlib.Rng) string {
	var es []string
	for a := 0; a < 4; a++ {
		if rng.Chance(3, 4) {
			es = append(es, fmt.Sprintf("a%d=%s", a, randRule(rng)))
		}
	}
	// a lookup that answers an error (account or key)
	if rng.Chance(1, 8) {
		e := fmt.Sprintf("E%d", rng.Intn(4))
		if rng.Chance(1, 4) {
			es = append(es, fmt.Sprintf("k%d=%s", rng.Intn(5), e))
		} else {
			a := rng.Intn(4)
			var keep []string
			for _, x := range es {
				if !strings.HasPrefix(x, fmt.Sprintf("a%d=", a)) {
					keep = append(keep, x)
				}
			}
			es = append(keep, fmt.Sprintf("a%d=%s", a, e))
		}
	}
	return strings.Join(es, " ")
}

func randURI(rng *xvlib.Rng, root string) string {
	var cs []string
	if root != "" && rng.Chance(9, 10) {
		cs = append(cs, root)
	}
	depth := rng.Intn(3)
	for d := 0; d < depth; d++ {
		cs = append(cs, randName(rng, rng.Chance(4, 5)))
	}
	cs = append(cs, randName(rng, rng.Chance(1, 12)))
	return strings.Join(cs, "/")
}

func randURIs(rng *xvlib.Rng, root string) string {
	n := rng.Intn(8)
	var us []string
	for j := 0; j < n; j++ {
		if len(us) > 0 && rng.Chance(1, 6) {
			us = append(us, us[rng.Intn(len(us))])
		} else {
			us = append(us, randURI(rng, root))
		}
	}
	return strings.Join(us, " ")
}

func randomCase(rng *xvlib.Rng) string {
	if rng.Bool() {
		root := randName(rng, true)
		return fmt.Sprintf("ida|%s|%s|%s", root, randEnv(rng), randURIs(rng, root))
	}
	r := randRule(rng)
	if rng.Chance(1, 40) {
		r = fmt.Sprintf("E%d", rng.Intn(4))
	}
	return fmt.Sprintf("cmp|%s|%s|%s", r, randEnv(rng), randURIs(rng, ""))
}
