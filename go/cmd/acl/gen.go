package main

import (
	"fmt"
	"io/ioutil"
	"path/filepath"
	"sort"
	"strings"

	"xv/xvlib"
)

// corpusLines returns the op lines of corpus/C11/*.ops (cwd is the /verif root when run by ./check).
func corpusLines() []string {
	files, _ := filepath.Glob("corpus/C11/*.ops")
	sort.Strings(files)
	var ls []string
	for _, f := range files {
		if _, err := ioutil.ReadFile(f); err == nil {
			ls = append(ls, xvlib.ReadLines(f)...)
		}
	}
	return ls
}

// URI alphabet for the account tree of a0: direct keys, keys below the nested account a1, another account's
// signer, keys below a KEY (the middle component was never verified), self nesting, an account as last
// component, a path rooted at the other account, a bare key.
var accAlphabet = "a0/k0 a0/k1 a0/k2 a0/a1/k0 a0/a1/k1 a0/a1/k2 a1/k0 a0/k0/k1 a0/k1/k2 a0/k2/k0 a0/a0/k0 a0/a1 a1/a0/k0 k0"

// URI alphabet for a method tree (members k0 k1 k2 a1)
var methAlphabet = "k0 k1 k2 a1/k0 a1/k1 a1/k2 k0/k1 k1/k2 a1/k0/k1 a1 a1/a1/k0 a0/k0 a1/a0/k0"

func generate(run func(string, bool) string, rng *xvlib.Rng, full bool, out *xvlib.Out) {
	members := []string{"k0", "k1", "k2", "a1"}
	roots := rootRules(members, full)
	nested := nestedRules(full)
	a0rules := []string{"N", "T:2:k0=2", "S:k1", "T:4:k0=2,k1=2"} // a0's own rule when it appears below a method / a1
	pairsK4, pairsK3 := 0, 0
	// 1. exhaustive small universe
	for ri, r := range roots {
		for ni, n := range nested {
			k := 2
			if full {
				k = 4
			} else {
				// quick: every rule pair with all multisets of size <= 2; a seeded sample of the pairs with size <= 4 / <= 3
				switch rng.Intn(12) {
				case 0:
					k = 4
				case 1, 2, 3, 4:
					k = 3
				}
			}
			if k == 4 {
				pairsK4++
			} else if k == 3 {
				pairsK3++
			}
			env := "a0=" + r + " a1=" + n
			run(fmt.Sprintf("idx|a0|%s|%s|%d", env, accAlphabet, k), true)
			// the method tree: rule r on the method, a1 nested, a0 some other account
			env2 := "a1=" + n + " a0=" + a0rules[(ri+ni)%len(a0rules)]
			run(fmt.Sprintf("cmx|%s|%s|%s|%d", r, env2, methAlphabet, k), true)
		}
	}
	// 2. random larger cases: up to 4 accounts x 5 keys, depth <= 4, negative weights, up to 7 URIs, shuffled
	nRand := 20000
	if full {
		nRand = 400000
	}
	for i := 0; i < nRand; i++ {
		line := randomCase(rng)
		r := run(line, true)
		if i < 3 {
			out.Sample(map[string]string{"op": line, "impl": r})
		}
	}
	// 3. the decision logic of verifyRWSetPermission
	nRW := 4000
	if full {
		nRW = 60000
	}
	generateRW(run, rng, nRW, out)
	out.Stats.Exhaustive = full
	out.Stats.Rule = fmt.Sprintf("exhaustive part: account a0 (and a method) with every rule out of %d (threshold: weights {0,1/4,1/2,1} on k0,k1,k2 and on the nested account a1, thresholds {1/4,1/2,1,3/2}; key sets: every family of <= 2 subsets of the 4 members incl. the empty set) x %d rules of the nested account x ALL multisets of size <= k over a %d-URI alphabet (direct keys, keys below the nested account, other account's signer, keys below a key, self nesting, account as last component); thorough: k=4 for every pair; quick: the weight of k2 is restricted to {0,1/2} and pairs of key sets leave out k2, k=2 for every pair, k=4 for %d and k=3 for %d seeded pairs. Plus %d random cases (<=4 accounts, <=5 keys, depth <=4, weights in -1/4..1, <=7 URIs) and %d random verifyRWSetPermission cases. Each multiset is one case; cases are distinct by construction (rule pair x multiset); non-trivial = at least one URI.",
		len(roots), len(nested), len(strings.Fields(accAlphabet)), pairsK4, pairsK3, nRand, nRW)
}

func randName(rng *xvlib.Rng, acct bool) string {
	if acct {
		return fmt.Sprintf("a%d", rng.Intn(4))
	}
	return fmt.Sprintf("k%d", rng.Intn(5))
}

func randRule(rng *xvlib.Rng) string {
	switch rng.Intn(8) {
	case 0:
		return "N"
	case 1, 2, 3, 4:
		n := rng.Intn(5)
		seen := map[string]bool{}
		var ms []string
		for j := 0; j < n; j++ {
			m := randName(rng, rng.Chance(1, 3))
			if seen[m] {
				continue
			}
			seen[m] = true
			ms = append(ms, fmt.Sprintf("%s=%d", m, rng.Intn(6)-1))
		}
		return fmt.Sprintf("T:%d:%s", rng.Intn(8)-1, strings.Join(ms, ","))
	default:
		n := rng.Intn(4)
		var sets []string
		for j := 0; j < n; j++ {
			sz := rng.Intn(4)
			if sz == 0 {
				sets = append(sets, "0")
				continue
			}
			var s []string
			for l := 0; l < sz; l++ {
				s = append(s, randName(rng, rng.Chance(1, 3)))
			}
			sets = append(sets, strings.Join(s, "+"))
		}
		return "S:" + strings.Join(sets, ";")
	}
}

func randEnv(rng *xvlib.Rng) string {
	var es []string
	for a := 0; a < 4; a++ {
		if rng.Chance(3, 4) {
			es = append(es, fmt.Sprintf("a%d=%s", a, randRule(rng)))
		}
	}
	return strings.Join(es, " ")
}

func randURI(rng *xvlib.Rng, root string) string {
	var cs []string
	if root != "" && rng.Chance(9, 10) {
		cs = append(cs, root)
	}
	depth := rng.Intn(3)
	for d := 0; d < depth; d++ {
		cs = append(cs, randName(rng, rng.Chance(4, 5)))
	}
	cs = append(cs, randName(rng, rng.Chance(1, 12)))
	return strings.Join(cs, "/")
}

func randURIs(rng *xvlib.Rng, root string) string {
	n := rng.Intn(8)
	var us []string
	for j := 0; j < n; j++ {
		if len(us) > 0 && rng.Chance(1, 6) {
			us = append(us, us[rng.Intn(len(us))])
		} else {
			us = append(us, randURI(rng, root))
		}
	}
	return strings.Join(us, " ")
}

func randomCase(rng *xvlib.Rng) string {
	if rng.Bool() {
		root := randName(rng, true)
		return fmt.Sprintf("ida|%s|%s|%s", root, randEnv(rng), randURIs(rng, root))
	}
	return fmt.Sprintf("cmp|%s|%s|%s", randRule(rng), randEnv(rng), randURIs(rng, ""))
}
