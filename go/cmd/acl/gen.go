package main

import (
	"fmt"
	"io/ioutil"
	"path/filepath"
	"sort"
	"strings"

	"xv/xvlib"
)

// corpusLines returns the op lines of corpus/C11/*.ops (cwd is the /verif root when run by ./check).
func corpusLines() []string {
	files, _ := filepath.Glob("corpus/C11/*.ops")
	sort.Strings(files)
	var ls []string
	for _, f := range files {
		if _, err := ioutil.ReadFile(f); err == nil {
			ls = append(ls, xvlib.ReadLines(f)...)
		}
	}
	return ls
}

// URI alphabet for the account tree of a0: direct keys, keys below the nested account a1, another account's
// signer, keys below a KEY (the middle component was never verified), self nesting, an account as last
// component, a path rooted at the other account, a bare key.
var accAlphabet = "a0/k0 a0/k1 a0/k2 a0/a1/k0 a0/a1/k1 a0/a1/k2 a1/k0 a0/k0/k1 a0/k1/k2 a0/k2/k0 a0/a0/k0 a0/a1 a1/a0/k0 k0"

// URI alphabet for a method tree (members k0 k1 k2 a1)
var methAlphabet = "k0 k1 k2 a1/k0 a1/k1 a1/k2 k0/k1 k1/k2 a1/k0/k1 a1 a1/a1/k0 a0/k0 a1/a0/k0"

func generate(run func(string, bool) string, rng *xvlib.Rng, full bool, out *xvlib.Out) {
	members := []string{"k0", "k1", "k2", "a1"}
	roots := rootRules(members, full)
	nested := nestedRules(full)
	a0rules := []string{"N", "T:2:k0=2", "S:k1", "T:4:k0=2,k1=2"} // a0's own rule when it appears below a method / a1
	pairsK4, pairsK3 := 0, 0
	// 1. exhaustive small universe
	for ri, r := range roots {
		for ni, n := range nested {
			k := 2
			if full {
				k = 4
			} else {
				// quick: every rule pair with all multisets of size <= 2; a seeded sample of the pairs with size <= 4 / <= 3
				switch rng.Intn(12) {
				case 0:
					k = 4
				case 1, 2, 3, 4:
					k = 3
				}
			}
			if k == 4 {
				pairsK4++
			} else if k == 3 {
				pairsK3++
			}
			env := "a0=" + r + " a1=" + n
			run(fmt.Sprintf("idx|a0|%s|%s|%d", env, accAlphabet, k), true)
			// the method tree: rule r on the method, a1 nested, a0 some other account
			env2 := "a1=" + n + " a0=" + a0rules[(ri+ni)%len(a0rules)]
			run(fmt.Sprintf("cmx|%s|%s|%s|%d", r, env2, methAlphabet, k), true)
		}
	}
	// 1b. lookup faults on the small universe: the nested account, the root, a key or the method rule cannot be read
	nFault := 150
	if full {
		nFault = 3000
	}
	for i := 0; i < nFault; i++ {
		r := roots[rng.Intn(len(roots))]
		n := nested[rng.Intn(len(nested))]
		e := fmt.Sprintf("E%d", rng.Intn(4))
		k := 2 + rng.Intn(2)
		switch rng.Intn(5) {
		case 0:
			run(fmt.Sprintf("idx|a0|a0=%s a1=%s|%s|%d", r, e, accAlphabet, k), true)
		case 1:
			run(fmt.Sprintf("idx|a0|a0=%s a1=%s|%s|%d", e, n, accAlphabet, k), true)
		case 2:
			run(fmt.Sprintf("idx|a0|a0=%s a1=%s k%d=%s|%s|%d", r, n, rng.Intn(3), e, accAlphabet, k), true)
		case 3:
			run(fmt.Sprintf("cmx|%s|a1=%s a0=N|%s|%d", e, n, methAlphabet, k), true)
		default:
			run(fmt.Sprintf("cmx|%s|a1=%s a0=%s|%s|%d", r, e, a0rules[i%len(a0rules)], methAlphabet, k), true)
		}
	}
	// 1c. the weight / threshold universe: huge, tiny, negative, zero and equal-at-the-boundary values in every unit
	nWide := generateWide(run, rng, full)
	// 1d. many goroutines evaluating different rules / signer lists at once, against the sequential answers
	nConc := generateConc(run, rng, full)
	// 2. random larger cases: up to 4 accounts x 5 keys, depth <= 4, negative weights, up to 7 URIs, shuffled
	nRand := 20000
	if full {
		nRand = 400000
	}
	for i := 0; i < nRand; i++ {
		line := randomCase(rng)
		r := run(line, true)
		if i < 3 {
			out.Sample(map[string]string{"op": line, "impl": r})
		}
	}
	// 3. the decision logic of verifyRWSetPermission
	nRW := 4000
	if full {
		nRW = 60000
	}
	generateRW(run, rng, nRW, out)
	// 4. end to end: State.VerifyTx of a real node on signed transactions (token inputs of several owners in every
	// order, the kernel's SetAccountAcl / NewAccount / SetMethodAcl, a contract call), with read faults
	nCfg, nVtx := generateVtx(run, rng, full, out)
	out.Stats.Exhaustive = full
	out.Stats.Rule = fmt.Sprintf("exhaustive part: account a0 (and a method) with every rule out of %d (threshold: weights {0,1/4,1/2,1} on k0,k1,k2 and on the nested account a1, thresholds {1/4,1/2,1,3/2}; key sets: every family of <= 2 subsets of the 4 members incl. the empty set) x %d rules of the nested account x ALL multisets of size <= k over a %d-URI alphabet (direct keys, keys below the nested account, other account's signer, keys below a key, self nesting, account as last component); thorough: k=4 for every pair; quick: the weight of k2 is restricted to {0,1/2} and pairs of key sets leave out k2, k=2 for every pair, k=4 for %d and k=3 for %d seeded pairs. Plus %d random cases (<=4 accounts, <=5 keys, depth <=4, weights in -1/4..1, <=7 URIs) and %d random verifyRWSetPermission cases; %d lookup-fault lines on the small universe (the nested account, the root, a key or the method rule answers an error; random cases carry such entries with probability 1/8); %d end-to-end State.VerifyTx cases on %d chains (real node: confirmed rules, pending rule changes / owner entries in the pool, signed transactions with <= 4 token inputs of keys and accounts in every order, account initiators, signatures that do not verify, SetAccountAcl / NewAccount / SetMethodAcl / a contract call pre-executed like a client does; one third with a read fault: I/O error on the rule's version pointer, evicted pending writer, error of four texts from the snapshot reader; half of the random chains and four fixed ones carry a side-branch block 2B competing with the tip 2A that holds pending transactions (~) and transactions this node never admitted (^)). Each multiset is one case; cases are distinct by construction (rule pair x multiset); non-trivial = at least one URI. Weight universe: %d idx / cmx lines with threshold rules in units 2^-e, e in {2,0,20,30,52,100,900,-10,-43,-44,-100,-900} and random e in -900..900, magnitudes 1 .. 2^51 around the float32 / int32 / int64-fixed-point / float64-mantissa limits, 11 shapes (at the boundary, one unit short / over, frozen, master key, negative and zero thresholds, veto weights) + random rules, |theta| + sum|w| < 2^53 so that every float64 sum is exact. Concurrency: %d conc lines (16 goroutines x 16 cases each, every concurrent answer = the sequential answer).",
		len(roots), len(nested), len(strings.Fields(accAlphabet)), pairsK4, pairsK3, nRand, nRW, nFault, nVtx, nCfg, nWide, nConc)
}

func randName(rng *xvlib.Rng, acct bool) string {
	if acct {
		return fmt.Sprintf("a%d", rng.Intn(4))
	}
	return fmt.Sprintf("k%d", rng.Intn(5))
}

func randRule(rng *xvlib.Rng) string {
	switch rng.Intn(8) {
	case 0:
		return "N"
	case 1, 2, 3, 4:
		n := rng.Intn(5)
		seen := map[string]bool{}
		var ms []string
		for j := 0; j < n; j++ {
			m := randName(rng, rng.Chance(1, 3))
			if seen[m] {
				continue
			}
			seen[m] = true
			ms = append(ms, fmt.Sprintf("%s=%d", m, rng.Intn(6)-1))
		}
		return fmt.Sprintf("T:%d:%s", rng.Intn(8)-1, strings.Join(ms, ","))
	default:
		n := rng.Intn(4)
		var sets []string
		for j := 0; j < n; j++ {
			sz := rng.Intn(4)
			if sz == 0 {
				sets = append(sets, "0")
				continue
			}
			var s []string
			for l := 0; l < sz; l++ {
				s = append(s, randName(rng, rng.Chance(1, 3)))
			}
			sets = append(sets, strings.Join(s, "+"))
		}
		return "S:" + strings.Join(sets, ";")
	}
}

func randEnv(rng *xvlib.Rng) string {
	var es []string
	for a := 0; a < 4; a++ {
		if rng.Chance(3, 4) {
			es = append(es, fmt.Sprintf("a%d=%s", a, randRule(rng)))
		}
	}
	// a lookup that answers an error (account or key)
	if rng.Chance(1, 8) {
		e := fmt.Sprintf("E%d", rng.Intn(4))
		if rng.Chance(1, 4) {
			es = append(es, fmt.Sprintf("k%d=%s", rng.Intn(5), e))
		} else {
			a := rng.Intn(4)
			var keep []string
			for _, x := range es {
				if !strings.HasPrefix(x, fmt.Sprintf("a%d=", a)) {
					keep = append(keep, x)
				}
			}
			es = append(keep, fmt.Sprintf("a%d=%s", a, e))
		}
	}
	return strings.Join(es, " ")
}

func randURI(rng *xvlib.Rng, root string) string {
	var cs []string
	if root != "" && rng.Chance(9, 10) {
		cs = append(cs, root)
	}
	depth := rng.Intn(3)
	for d := 0; d < depth; d++ {
		cs = append(cs, randName(rng, rng.Chance(4, 5)))
	}
	cs = append(cs, randName(rng, rng.Chance(1, 12)))
	return strings.Join(cs, "/")
}

func randURIs(rng *xvlib.Rng, root string) string {
	n := rng.Intn(8)
	var us []string
	for j := 0; j < n; j++ {
		if len(us) > 0 && rng.Chance(1, 6) {
			us = append(us, us[rng.Intn(len(us))])
		} else {
			us = append(us, randURI(rng, root))
		}
	}
	return strings.Join(us, " ")
}

func randomCase(rng *xvlib.Rng) string {
	if rng.Bool() {
		root := randName(rng, true)
		return fmt.Sprintf("ida|%s|%s|%s", root, randEnv(rng), randURIs(rng, root))
	}
	r := randRule(rng)
	if rng.Chance(1, 40) {
		r = fmt.Sprintf("E%d", rng.Intn(4))
	}
	return fmt.Sprintf("cmp|%s|%s|%s", r, randEnv(rng), randURIs(rng, ""))
}

// ---------------------------------------------------------------- the weight / threshold universe

// wideExps: the unit 2^-e of a rule.  2 = quarters (the small universe), 0 = integers, 20 / 30 = about 1e-6 / 1e-9,
// 52 / 100 / 900 = tiny, negative = huge units (2^43 = 8.8e12, the last power of two below 2^63 / 1e6).
var wideExps = []int{2, 0, 20, 30, 52, 100, 900, -10, -43, -44, -100, -900}

// wideBases: magnitudes in the unit: around the float32 mantissa, the int32 / int64 / fixed-point ranges, the float64 mantissa
var wideBases = []int{1, 3, 1 << 20, 1<<24 + 1, 1 << 31, 1<<32 + 1, 1 << 40, 1<<43 + 1, 1 << 45, 1 << 50, 1<<51 - 1}

// wideShapes: theta and the weights of k0, k1, k2, a1 as functions of the base b
var wideShapes = []func(b int) (int, [4]int){
	func(b int) (int, [4]int) { return b, [4]int{b, 0, 0, 0} },          // exactly at the boundary
	func(b int) (int, [4]int) { return b, [4]int{b - 1, 1, 0, 0} },      // reached only by both, by one unit
	func(b int) (int, [4]int) { return b + 1, [4]int{b, 0, 0, 0} },      // missed by one unit
	func(b int) (int, [4]int) { return b, [4]int{1, 1, 1, 0} },          // frozen: out of reach for b > 3
	func(b int) (int, [4]int) { return 4, [4]int{b, 2, 2, 1} },          // a master key
	func(b int) (int, [4]int) { return -b, [4]int{1, 0, 0, 0} },         // negative threshold: open
	func(b int) (int, [4]int) { return 1, [4]int{b, -b, 1, 0} },         // a veto weight
	func(b int) (int, [4]int) { return 0, [4]int{-b, b, 0, 0} },         // zero threshold
	func(b int) (int, [4]int) { return b, [4]int{b / 2, b - b/2, 0, b} }, // halves, or the nested account alone
	func(b int) (int, [4]int) { return 2 * b, [4]int{b, b, -1, 0} },     // the sum reaches it, one unit less does not
	func(b int) (int, [4]int) { return b, [4]int{b - 1, 0, 0, 0} },      // one unit short for ever
}

const wideAccAlphabet = "a0/k0 a0/k1 a0/k2 a0/a1/k0 a1/k0 a0/k0/k1"
const wideMethAlphabet = "k0 k1 k2 a1/k0 a0/k0 k0/k1"

func wideRule(e, theta int, ws [4]int) (string, bool) {
	tot := abs(theta)
	for _, w := range ws {
		tot += abs(w)
	}
	if tot >= 1<<53 {
		return "", false
	}
	ms := fmt.Sprintf("k0=%d,k1=%d,k2=%d,a1=%d", ws[0], ws[1], ws[2], ws[3])
	if e == 2 {
		return fmt.Sprintf("T:%d:%s", theta, ms), true
	}
	return fmt.Sprintf("Q%d:%d:%s", e, theta, ms), true
}

func abs(x int) int {
	if x < 0 {
		return -x
	}
	return x
}

func generateWide(run func(string, bool) string, rng *xvlib.Rng, full bool) int {
	n := 0
	nestedW := []string{"N", "T:2:k0=2", "Q-60:1:k0=1", "Q70:5:k0=5"}
	for _, e := range wideExps {
		for _, b := range wideBases {
			for si, sh := range wideShapes {
				theta, ws := sh(b)
				r, ok := wideRule(e, theta, ws)
				if !ok {
					continue
				}
				k := 3
				if full {
					k = 4
				}
				nr := nestedW[(si+n)%len(nestedW)]
				run(fmt.Sprintf("idx|a0|a0=%s a1=%s|%s|%d", r, nr, wideAccAlphabet, k), true)
				run(fmt.Sprintf("cmx|%s|a1=%s a0=N|%s|%d", r, nr, wideMethAlphabet, k), true)
				n += 2
			}
		}
	}
	// random rules over the whole range: unit, magnitudes and signs drawn independently
	nr := 1500
	if full {
		nr = 30000
	}
	for i := 0; i < nr; i++ {
		e := wideExps[rng.Intn(len(wideExps))]
		if rng.Chance(1, 3) {
			e = rng.Intn(1801) - 900
		}
		val := func() int {
			v := 0
			switch rng.Intn(4) {
			case 0:
				v = rng.Intn(5)
			case 1:
				v = wideBases[rng.Intn(len(wideBases))] + rng.Intn(3) - 1
			default:
				v = rng.Intn(1 << uint(1+rng.Intn(50)))
			}
			if rng.Chance(1, 5) {
				v = -v
			}
			return v
		}
		ws := [4]int{val(), val(), val(), val()}
		theta := val()
		switch rng.Intn(4) {
		case 0: // a threshold that some subset of the weights meets exactly, or misses by one unit
			theta = 0
			for j := range ws {
				if rng.Bool() {
					theta += ws[j]
				}
			}
			theta += rng.Intn(3) - 1
		case 1:
			theta = ws[0] + ws[1]
		}
		r, ok := wideRule(e, theta, ws)
		if !ok {
			continue
		}
		if rng.Bool() {
			run(fmt.Sprintf("idx|a0|a0=%s a1=%s|%s|3", r, nestedW[rng.Intn(len(nestedW))], wideAccAlphabet), true)
		} else {
			run(fmt.Sprintf("cmx|%s|a1=%s a0=N|%s|3", r, nestedW[rng.Intn(len(nestedW))], wideMethAlphabet), true)
		}
		n++
	}
	return n
}
