// Engine `acl` (C11): drives the real permission evaluation of xupercore
// (kernel/permission/acl/utils IdentifyAccount / CheckContractMethodPerm, which build the
// permission tree with ptree and run rule.ThresholdValidator / rule.AKSetsValidator) and the
// decision logic of State.verifyRWSetPermission, with a fake ACL manager that serves the rules
// named in the op line.
//
// op lines (also the input of the Lean driver `xvdriver acl`); fields are separated by '|':
//
//	ida|<root>|<env>|<uris>            IdentifyAccount(root, uris)                    -> accept|reject
//	cmp|<rule>|<env>|<uris>            CheckContractMethodPerm with method rule <rule> -> accept|reject
//	idx|<root>|<env>|<alphabet>|<k>    IdentifyAccount on ALL multisets of size <= k over the URI
//	                                   alphabet, in canonical order                   -> string of 1/0
//	cmx|<rule>|<env>|<alphabet>|<k>    same for CheckContractMethodPerm               -> string of 1/0
//	rw|<env>|<owners>|<uris>|<verified>|<writes>   State.verifyRWSetPermission on a transaction with a
//	                                   contract request, AuthRequire <uris>, the given already verified
//	                                   ids and the given write set                    -> accept|reject
//
// names: k<i> = an address (key), a<i> = a contract account.  uris: space separated, components
// joined by '/'.  env: space separated `a<i>=<rule>`; accounts not listed have no ACL stored.
// rule: `N` (no ACL stored), `T:<theta>:<name>=<w>,...` (threshold; weights and threshold are
// integers in units of 1/4, so every value is an exact float64; `Q<e>:<theta>:<name>=<w>,...` the same in units of
// 2^-e, e in -900..900: huge (1e285) and tiny (1e-270) values, fractions with 52 significant bits; |theta| + sum |w| <
// 2^53 in the unit, so every float64 sum the code can form is exact and the rule means the same in every unit),
// `S:<set>;<set>...` (key sets; a set is names joined by '+', `0` is the empty set).
// A lookup fault: the env entry `<name>=E<k>` (also allowed for keys) makes the manager's GetAccountACL(<name>) answer an
// error (k = 0..3 selects the error text: generic, kvdb not found, transaction not found, block not found); the method
// rule `E<k>` makes GetContractMethodACL answer an error.  A rule that cannot be read must never be taken for "no rule".
// owners: space separated `c<i>=<name>` (confirmed XCContract2Account entries).
// vtx|...: end-to-end State.VerifyTx on a real node, see e2e.go.
// writes: space separated: `A:<name>` XCAccount/<name>; `M:c<i>` XCContract/<c_i>\x01m; `MB` a
// XCContract key without separator; `C:<name>` XCContract2Account/cX := name; `CN` the same with
// a nil value; `O` some other bucket.
package main

import (
	"errors"
	"fmt"
	"math"
	"math/big"
	"regexp"
	"strconv"
	"strings"

	aclu "github.com/xuperchain/xupercore/kernel/permission/acl/utils"
	pb "github.com/xuperchain/xupercore/protos"
	"xv/xvlib"
)

// ---------------------------------------------------------------- names

var fixedNames = map[string]string{
	// a1 extends a0 and k1 extends k0 (prefix confusion); k2, k3, k4 look like accounts but are not
	// (14 digits, 16 letters, 17 digits): IsAccount must classify them as addresses
	"a0": "XC1111111111111111@xuper",
	"a1": "XC1111111111111111@xuper1",
	"a2": "XC2222222222222222@xuper",
	"k0": "TeyyPLpp9L7QAcxHangtcHTu7HUZ6iydY",
	"k1": "TeyyPLpp9L7QAcxHangtcHTu7HUZ6iydY1",
	"k2": "XC11111111111111@xuper",
	"k3": "XCabcdefghijklmnop@xuper",
	"k4": "XC11111111111111111@xuper",
}

func validTok(t string) bool {
	if len(t) < 2 || (t[0] != 'k' && t[0] != 'a') {
		return false
	}
	_, err := strconv.Atoi(t[1:])
	return err == nil
}

func realName(t string) string {
	if s, ok := fixedNames[t]; ok {
		return s
	}
	n, _ := strconv.Atoi(t[1:])
	if t[0] == 'a' {
		return fmt.Sprintf("XC%016d@xuper", 3000+n)
	}
	return fmt.Sprintf("key%dZ", n)
}

func isKeyTok(t string) bool { return t[0] == 'k' }

// ---------------------------------------------------------------- rules

type member struct {
	name string
	w    int
}

type rule struct {
	kind    byte // 'N' none, 'T' threshold, 'S' key sets, 'E' the lookup answers an error (theta = error text class)
	exp     int  // threshold rules: theta and the weights are integers in units of 2^-exp (`T:` = 2, quarters)
	theta   int
	members []member
	sets    [][]string
}

func parseRule(s string) (*rule, error) {
	if s == "N" {
		return &rule{kind: 'N'}, nil
	}
	if len(s) == 2 && s[0] == 'E' && s[1] >= '0' && s[1] <= '3' {
		return &rule{kind: 'E', theta: int(s[1] - '0')}, nil
	}
	if strings.HasPrefix(s, "T:") || strings.HasPrefix(s, "Q") {
		// `Q<e>:` = the unit is 2^-e (e in -900..900: values from 1e-270 to 1e+285, all exact float64); `T:` = `Q2:`
		exp, body := 2, s[2:]
		if s[0] == 'Q' {
			i := strings.Index(s, ":")
			if i < 2 {
				return nil, errors.New("bad threshold rule")
			}
			e, err := strconv.Atoi(s[1:i])
			if err != nil || e < -900 || e > 900 || strconv.Itoa(e) != s[1:i] {
				return nil, errors.New("bad unit exponent")
			}
			exp, body = e, s[i+1:]
		}
		p := strings.SplitN(body, ":", 2)
		if len(p) != 2 {
			return nil, errors.New("bad threshold rule")
		}
		th, err := strconv.Atoi(p[0])
		if err != nil {
			return nil, err
		}
		r := &rule{kind: 'T', theta: th, exp: exp}
		if p[1] != "" {
			seen := map[string]bool{}
			for _, m := range strings.Split(p[1], ",") {
				kv := strings.SplitN(m, "=", 2)
				if len(kv) != 2 || !validTok(kv[0]) || seen[kv[0]] {
					return nil, errors.New("bad member")
				}
				seen[kv[0]] = true
				w, err := strconv.Atoi(kv[1])
				if err != nil {
					return nil, err
				}
				r.members = append(r.members, member{kv[0], w})
			}
		}
		// the float64 sum of any subset of the weights, in any order, is exact: |theta| + sum |w| < 2^53
		tot := big.NewInt(int64(r.theta))
		tot.Abs(tot)
		for _, m := range r.members {
			tot.Add(tot, new(big.Int).Abs(big.NewInt(int64(m.w))))
		}
		if tot.BitLen() > 53 {
			return nil, errors.New("weights beyond the exact range")
		}
		return r, nil
	}
	if strings.HasPrefix(s, "S:") {
		r := &rule{kind: 'S'}
		if s[2:] != "" {
			for _, set := range strings.Split(s[2:], ";") {
				var names []string
				if set != "0" {
					for _, n := range strings.Split(set, "+") {
						if !validTok(n) {
							return nil, errors.New("bad set member")
						}
						names = append(names, n)
					}
				}
				r.sets = append(r.sets, names)
			}
		}
		return r, nil
	}
	return nil, errors.New("bad rule")
}

func (r *rule) toACL() *pb.Acl { return r.toACLn(realName) }

// toACLn renders the rule with the given naming of the tokens (the end-to-end part uses real key pairs)
func (r *rule) toACLn(realName func(string) string) *pb.Acl {
	switch r.kind {
	case 'T':
		a := &pb.Acl{Pm: &pb.PermissionModel{Rule: pb.PermissionRule_SIGN_THRESHOLD, AcceptValue: math.Ldexp(float64(r.theta), -r.exp)},
			AksWeight: map[string]float64{}}
		for _, m := range r.members {
			a.AksWeight[realName(m.name)] = math.Ldexp(float64(m.w), -r.exp)
		}
		return a
	case 'S':
		a := &pb.Acl{Pm: &pb.PermissionModel{Rule: pb.PermissionRule_SIGN_AKSET}, AkSets: &pb.AkSets{Sets: map[string]*pb.AkSet{}}}
		for i, s := range r.sets {
			set := &pb.AkSet{}
			for _, n := range s {
				set.Aks = append(set.Aks, realName(n))
			}
			a.AkSets.Sets[strconv.Itoa(i+1)] = set
		}
		return a
	}
	return nil
}

type env map[string]*rule

func parseEnv(s string) (env, error) {
	e := env{}
	for _, f := range strings.Fields(s) {
		kv := strings.SplitN(f, "=", 2)
		if len(kv) != 2 || !validTok(kv[0]) {
			return nil, errors.New("bad env entry")
		}
		if _, dup := e[kv[0]]; dup {
			return nil, errors.New("repeated env entry")
		}
		r, err := parseRule(kv[1])
		if err != nil {
			return nil, err
		}
		if isKeyTok(kv[0]) && r.kind != 'E' {
			return nil, errors.New("bad env entry")
		}
		if r.kind != 'N' {
			e[kv[0]] = r
		}
	}
	return e, nil
}

type uri []string

func parseURIs(s string) ([]uri, error) {
	var us []uri
	for _, f := range strings.Fields(s) {
		u := uri(strings.Split(f, "/"))
		for _, c := range u {
			if !validTok(c) {
				return nil, errors.New("bad uri")
			}
		}
		us = append(us, u)
	}
	return us, nil
}

func realURIs(us []uri) []string {
	out := make([]string, len(us))
	for i, u := range us {
		cs := make([]string, len(u))
		for j, c := range u {
			cs[j] = realName(c)
		}
		out[i] = strings.Join(cs, "/")
	}
	return out
}

func uriStr(us []uri) string {
	s := make([]string, len(us))
	for i, u := range us {
		s[i] = strings.Join(u, "/")
	}
	return strings.Join(s, " ")
}

// ---------------------------------------------------------------- the fake ACL manager (base.AclManager)

type fakeMgr struct {
	accounts  map[string]*pb.Acl
	errs      map[string]error
	method    *pb.Acl
	methodErr error
}

// the error texts a lookup may answer (what the real manager passes on from the snapshot reader)
var lookupErrors = []error{
	errors.New("query account acl failed.err:xv: injected reader error"),
	errors.New("query account acl failed.err:leveldb: not found"),
	errors.New("query account acl failed.err:query tx fail.err:transaction not found"),
	errors.New("query account acl failed.err:query block height fail.err:block not found"),
}

func newMgr(e env, method *rule) *fakeMgr {
	m := &fakeMgr{accounts: map[string]*pb.Acl{}, errs: map[string]error{}}
	for a, r := range e {
		if r.kind == 'E' {
			m.errs[realName(a)] = lookupErrors[r.theta]
			continue
		}
		m.accounts[realName(a)] = r.toACL()
	}
	if method != nil {
		if method.kind == 'E' {
			m.methodErr = lookupErrors[method.theta]
		} else {
			m.method = method.toACL()
		}
	}
	return m
}

// like the real manager: a name without stored ACL yields (nil, nil)
func (m *fakeMgr) GetAccountACL(name string) (*pb.Acl, error) {
	if err := m.errs[name]; err != nil {
		return nil, err
	}
	return m.accounts[name], nil
}
func (m *fakeMgr) GetContractMethodACL(c, meth string) (*pb.Acl, error) {
	if m.methodErr != nil {
		return nil, m.methodErr
	}
	return m.method, nil
}
func (m *fakeMgr) GetAccountAddresses(name string) ([]string, error) { return nil, nil }

// ---------------------------------------------------------------- the property, evaluated independently (oracle)
//
// sat rule S := (sum of the weights of the members that are in S) >= theta, or some listed set is non-empty and
// contained in S.  S, for the node reached by a prefix: a key k is in S iff some URI is exactly prefix/k (the last
// component is what signature checking verified); an account b is in S iff some URI continues with prefix/b and b's
// own rule (none stored = open) is satisfied by the URIs below prefix/b.  Nothing else counts.

func specSat(r *rule, e env, below []uri) bool {
	if r == nil || r.kind == 'N' {
		return true
	}
	if r.kind == 'E' {
		return false // a rule that could not be read is satisfied by nobody
	}
	in := func(m string) bool {
		if isKeyTok(m) {
			for _, u := range below {
				if len(u) == 1 && u[0] == m {
					return true
				}
			}
			return false
		}
		var sub []uri
		for _, u := range below {
			if len(u) >= 1 && u[0] == m {
				sub = append(sub, u[1:])
			}
		}
		return len(sub) > 0 && specSat(e[m], e, sub)
	}
	if r.kind == 'T' {
		sum := 0
		for _, m := range r.members {
			if in(m.name) {
				sum += m.w
			}
		}
		return sum >= r.theta
	}
	for _, s := range r.sets {
		if len(s) == 0 {
			continue
		}
		all := true
		for _, m := range s {
			if !in(m) {
				all = false
				break
			}
		}
		if all {
			return true
		}
	}
	return false
}

func specAccount(root string, e env, us []uri) bool {
	if isKeyTok(root) {
		return true // IdentifyAccount on a name that is not an account: no rule to satisfy (out of the property's scope)
	}
	var below []uri
	for _, u := range us {
		if len(u) >= 2 && u[0] == root {
			below = append(below, u[1:])
		}
	}
	return specSat(e[root], e, below)
}

func specMethod(r *rule, e env, us []uri) bool { return specSat(r, e, us) }

// ---------------------------------------------------------------- executor

func implAccount(m *fakeMgr, root string, us []uri) (res bool) {
	defer func() {
		if recover() != nil {
			res = false
		}
	}()
	ok, err := aclu.IdentifyAccount(m, realName(root), realURIs(us))
	return ok && err == nil
}

func implMethod(m *fakeMgr, us []uri) (res bool) {
	defer func() {
		if recover() != nil {
			res = false
		}
	}()
	ok, err := aclu.CheckContractMethodPerm(m, realURIs(us), "counter", "increase")
	return ok && err == nil
}

func ar(b bool) string {
	if b {
		return "accept"
	}
	return "reject"
}

var wideOp = regexp.MustCompile(`Q-?[0-9]+:|[:=]-?[0-9]{10,}`)

// classify gives the violation key: different root causes get different keys.
func classify(impl, spec bool, us []uri, faulty bool) string {
	if impl && !spec && faulty {
		return "acl:accept-under-lookup-error"
	}
	if impl && !spec {
		for _, u := range us {
			for i := 0; i+1 < len(u); i++ {
				if isKeyTok(u[i]) {
					return "acl:uri-nonterminal-ak"
				}
			}
		}
		dup := map[string]bool{}
		for _, u := range us {
			s := strings.Join(u, "/")
			if dup[s] {
				return "acl:accept-without-sat:repeated-uri"
			}
			dup[s] = true
		}
		return "acl:accept-without-sat"
	}
	return "acl:reject-although-sat"
}

// faultyOp: the op line makes some lookup answer an error; then only acceptance is judged (rejecting is always right)
func faultyOp(op string) bool {
	f := strings.Split(op, "|")
	if len(f) < 3 {
		return false
	}
	if len(f[1]) == 2 && f[1][0] == 'E' {
		return true
	}
	for _, e := range strings.Fields(f[2]) {
		if i := strings.Index(e, "="); i >= 0 && len(e) == i+3 && e[i+1] == 'E' {
			return true
		}
	}
	return false
}

func check(out *xvlib.Out, op string, impl, spec bool, us []uri) {
	if out == nil || impl == spec {
		return
	}
	if !impl && faultyOp(op) {
		return
	}
	op, impl, spec, us = shrink(op, impl, spec, us)
	key := classify(impl, spec, us, faultyOp(op))
	if wideOp.MatchString(op) {
		key += ":weights-beyond-the-small-range" // a threshold rule in another unit than quarters, or with a value of 10+ digits
	}
	out.Violate(xvlib.Violation{Key: key,
		What: fmt.Sprintf("the real evaluation answered %s but the rule is %s by the verified signers (sum of member weights / key sets over the last components)",
			ar(impl), map[bool]string{true: "satisfied", false: "not satisfied"}[spec]),
		Ops: []string{op}, Impl: []string{ar(impl)}})
}

// evalBoth runs one ida/cmp line on the real code and on the oracle.
func evalBoth(f []string) (impl, spec bool, us []uri, ok bool) {
	e, err := parseEnv(f[2])
	if err != nil {
		return
	}
	us, err = parseURIs(f[3])
	if err != nil {
		return
	}
	if f[0] == "ida" {
		return implAccount(newMgr(e, nil), f[1], us), specAccount(f[1], e, us), us, true
	}
	r, err := parseRule(f[1])
	if err != nil {
		return
	}
	return implMethod(newMgr(e, r), us), specMethod(r, e, us), us, true
}

// shrink minimises a failing ida/cmp line: drop URIs, then env entries, while the real code still disagrees
// with the oracle in the same direction.
func shrink(op string, impl, spec bool, us []uri) (string, bool, bool, []uri) {
	f := strings.Split(op, "|")
	if len(f) != 4 {
		return op, impl, spec, us
	}
	for changed := true; changed; {
		changed = false
		for field := 3; field >= 2; field-- {
			parts := strings.Fields(f[field])
			for i := 0; i < len(parts); i++ {
				cand := append(append([]string{}, parts[:i]...), parts[i+1:]...)
				g := []string{f[0], f[1], f[2], f[3]}
				g[field] = strings.Join(cand, " ")
				if i2, s2, u2, ok := evalBoth(g); ok && i2 == impl && s2 == spec {
					f, us, parts = g, u2, cand
					changed = true
					i--
				}
			}
		}
	}
	return strings.Join(f, "|"), impl, spec, us
}

// forMultisets enumerates all multisets of size <= max over a, canonical order (prefix first, then extensions by
// non-decreasing index); the Lean driver enumerates in the same order.
func forMultisets(a []uri, max int, f func([]uri)) {
	var rec func(start int, cur []uri)
	rec = func(start int, cur []uri) {
		f(cur)
		if len(cur) == max {
			return
		}
		for i := start; i < len(a); i++ {
			rec(i, append(cur, a[i]))
		}
	}
	rec(0, nil)
}

var evals int

func exec(line string, out *xvlib.Out) string {
	if strings.HasPrefix(line, "conc ") {
		return execConc(line, out)
	}
	f := strings.Split(line, "|")
	switch f[0] {
	case "ida", "idx":
		if (f[0] == "ida" && len(f) != 4) || (f[0] == "idx" && len(f) != 5) || !validTok(f[1]) {
			return "bad-op"
		}
		e, err := parseEnv(f[2])
		if err != nil {
			return "bad-op"
		}
		us, err := parseURIs(f[3])
		if err != nil {
			return "bad-op"
		}
		m := newMgr(e, nil)
		if f[0] == "ida" {
			evals++
			impl := implAccount(m, f[1], us)
			check(out, line, impl, specAccount(f[1], e, us), us)
			return ar(impl)
		}
		k, err := strconv.Atoi(f[4])
		if err != nil || k < 0 || k > 6 {
			return "bad-op"
		}
		var sb strings.Builder
		forMultisets(us, k, func(ms []uri) {
			evals++
			impl := implAccount(m, f[1], ms)
			if out != nil {
				spec := specAccount(f[1], e, ms)
				if impl != spec {
					check(out, "ida|"+f[1]+"|"+f[2]+"|"+uriStr(ms), impl, spec, ms)
				}
			}
			if impl {
				sb.WriteByte('1')
			} else {
				sb.WriteByte('0')
			}
		})
		return sb.String()
	case "cmp", "cmx":
		if (f[0] == "cmp" && len(f) != 4) || (f[0] == "cmx" && len(f) != 5) {
			return "bad-op"
		}
		r, err := parseRule(f[1])
		if err != nil {
			return "bad-op"
		}
		e, err := parseEnv(f[2])
		if err != nil {
			return "bad-op"
		}
		us, err := parseURIs(f[3])
		if err != nil {
			return "bad-op"
		}
		m := newMgr(e, r)
		if f[0] == "cmp" {
			evals++
			impl := implMethod(m, us)
			check(out, line, impl, specMethod(r, e, us), us)
			return ar(impl)
		}
		k, err := strconv.Atoi(f[4])
		if err != nil || k < 0 || k > 6 {
			return "bad-op"
		}
		var sb strings.Builder
		forMultisets(us, k, func(ms []uri) {
			evals++
			impl := implMethod(m, ms)
			if out != nil {
				spec := specMethod(r, e, ms)
				if impl != spec {
					check(out, "cmp|"+f[1]+"|"+f[2]+"|"+uriStr(ms), impl, spec, ms)
				}
			}
			if impl {
				sb.WriteByte('1')
			} else {
				sb.WriteByte('0')
			}
		})
		return sb.String()
	case "rw":
		return execRW(f, line, out)
	case "vtx":
		return execVtx(f, line, out)
	}
	return "bad-op"
}

// ---------------------------------------------------------------- generators

func thrRule(theta int, names []string, ws []int) string {
	var ms []string
	for i, n := range names {
		ms = append(ms, fmt.Sprintf("%s=%d", n, ws[i]))
	}
	return fmt.Sprintf("T:%d:%s", theta, strings.Join(ms, ","))
}

var weights = []int{0, 1, 2, 4}
var thetas = []int{1, 2, 4, 6}

// subsets of names as key sets, by bit mask (mask 0 = the empty set `0`)
func setStr(names []string, mask int) string {
	var s []string
	for i, n := range names {
		if mask&(1<<uint(i)) != 0 {
			s = append(s, n)
		}
	}
	if len(s) == 0 {
		return "0"
	}
	return strings.Join(s, "+")
}

// rootRules: the rules of the account under evaluation (or of the method), over members ms (4 names).
func rootRules(ms []string, full bool) []string {
	var rs []string
	for _, th := range thetas {
		for _, w0 := range weights {
			for _, w1 := range weights {
				for _, w2 := range weights {
					for _, w3 := range weights {
						if !full && w2 != 0 && w2 != 2 {
							continue
						}
						rs = append(rs, thrRule(th, ms, []int{w0, w1, w2, w3}))
					}
				}
			}
		}
	}
	// key sets: every family of at most two sets over the 4 members (including the empty set), and no set at all
	rs = append(rs, "S:")
	n := 1 << uint(len(ms))
	for a := 0; a < n; a++ {
		rs = append(rs, "S:"+setStr(ms, a))
		for b := a + 1; b < n; b++ {
			if !full && (a&4 != 0 || b&4 != 0) {
				continue
			}
			rs = append(rs, "S:"+setStr(ms, a)+";"+setStr(ms, b))
		}
	}
	return rs
}

// nestedRules: rules of the nested account
func nestedRules(full bool) []string {
	rs := []string{"N", "T:2:k0=2", "T:4:k0=2,k1=2", "T:1:k2=1,k0=0", "S:k0", "S:k0+k1", "S:k0;k1", "T:6:k0=4,k1=2"}
	if full {
		rs = append(rs, "T:4:k0=4,a0=4", "S:0;k2", "S:", "T:2:k0=1,k1=1,k2=1")
	}
	return rs
}

func main() {
	args := xvlib.ParseArgs()
	scratch = args.Scratch
	out := xvlib.NewOut(args.Out)
	defer out.Close()
	run := func(line string, nontrivial bool) string {
		before := evals
		r := exec(line, out)
		out.Emit(line, r)
		kind := strings.SplitN(line, "|", 2)[0]
		n := evals - before
		if strings.HasPrefix(line, "conc ") {
			out.Case(line, nontrivial)
			out.Count("conc")
			out.Stats.Evaluations += n
		} else if n <= 1 {
			out.Case(line, nontrivial)
			out.Count(kind + ":" + r)
		} else {
			// a batch line: every multiset is one case (distinct by construction: rule config x multiset)
			out.Stats.Evaluations += n
			out.Stats.DistinctNontrivial += n - 1
			out.Stats.Distribution[kind+":accept"] += strings.Count(r, "1")
			out.Stats.Distribution[kind+":reject"] += strings.Count(r, "0")
		}
		return r
	}
	if args.Replay != "" {
		for _, l := range xvlib.ReadLines(args.Replay) {
			run(l, true)
		}
		return
	}
	// 0. corpus (minimal replays of findings and repaired defects) first
	for _, l := range corpusLines() {
		run(l, true)
	}
	rng := xvlib.NewRng(args.Seed)
	full := args.Tier == "thorough"
	generate(run, rng, full, out)
}
