package main

import "github.com/xuperchain/xupercore/bcs/ledger/xledger/state/utxo"

// lockHeld reports whether the SpinLock's internal mutex is held right now (probed on the real
// mutex through the verif export, nothing is assumed about the code).
func lockHeld(sp *utxo.SpinLock) bool { return utxo.VerifLockHeld(sp) }
