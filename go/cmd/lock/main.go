// Engine `lock` (C12): a deterministic scheduler over the REAL utxo.SpinLock.
//
// N goroutines ("threads") each run the doTxSync protocol
//
//	succ, ok := sp.TryLock(keys); if ok { cs.check; cs.apply; cs.publish }; sp.Unlock(succ)
//
// on one shared real SpinLock.  The yield hooks (build tag verif) inside TryLock/Unlock and the
// harness-level pauses of the critical section block the goroutine on a channel until the
// scheduler, driven by the op line `sched <thread ids…>`, releases exactly one thread at a time.
// So one scheduled step = the code between two yield points = one atomic step of the protocol.
//
// op lines (also the input of the Lean driver `xvdriver lock`):
//
//	reset [split]               start a case (the word `split` only selects the pre-fix model in the Lean driver)
//	thread <item>...            declare the next thread (ids 0,1,2… in order); item = S<key>[@v] | X<key>[@v]:
//	                            shared/exclusive lock on key, request built against version v (default 0)
//	                            -> the lock keys the real ExtractLockKeys produced, e.g. `1:X 2:S`
//	sched <tid>...              run the declared threads from a fresh lock/store under this schedule
//	                            -> `<label>… | r=<result per thread> | st=<version per key> | lk=<keys still locked> | log=<serial order>`
//
// step labels: A trylock.added, L trylock.loaded, R unlock.released, D unlock.deleted (hooks in the real code);
// f trylock.fail (TryLock returned false holding ≥1 key), c+/c- cs.check passed/failed, a cs.apply, p cs.publish
// (harness-level pauses); `.` thread finished; `-` thread had already finished (no-op).
// results: a admitted, s stale (cs.check failed), f lock failed, r still running (schedule ended early).
//
// impl-side oracle (independent of the Lean model; DESIGN §6 C12):
//
//	mutex:two-exclusive / mutex:shared-exclusive  two threads inside their critical sections with a conflicting key
//	mutex:entry-missing      a thread is inside with key k but IsLocked(k) is false
//	serial:stale-apply       a key checked by cs.check changed before cs.apply of the same thread
//	serial:no-sequential-order  no one-at-a-time order of the requests that got their locks gives the same verdicts and store
//	lock:leak                all threads finished but a key is still locked
//	lock:timeout / lock:panic   a step did not reach its next yield point / the real code panicked
package main

import (
	"fmt"
	"os"
	"path/filepath"
	"sort"
	"strconv"
	"strings"
	"sync"
	"sync/atomic"
	"time"

	"github.com/xuperchain/xupercore/bcs/ledger/xledger/state/utxo"
	pb "github.com/xuperchain/xupercore/bcs/ledger/xledger/xldgpb"
	"github.com/xuperchain/xupercore/protos"
	"xv/lockproto"
	"xv/xvlib"
)

// ---------------------------------------------------------------- case definition

type item struct {
	key    int
	kind   byte // 'S' | 'X'
	expect int
}

type threadDef struct {
	line  string
	items []item // sorted by key
	keys  []*utxo.LockKey
}

const maxKey = 999
const maxThreads = 8

func keyName(k int) string { return fmt.Sprintf("k%03d", k) }

// parseThread builds the transaction whose lock keys are the declared items and runs the REAL
// ExtractLockKeys on it.
func parseThread(line string) (*threadDef, string) {
	w := strings.Fields(line)
	td := &threadDef{line: line}
	seen := map[int]bool{}
	for _, tok := range w[1:] {
		if len(tok) < 2 || (tok[0] != 'S' && tok[0] != 'X') {
			return nil, "bad-op"
		}
		body := tok[1:]
		exp := 0
		if i := strings.IndexByte(body, '@'); i >= 0 {
			e, err := strconv.Atoi(body[i+1:])
			if err != nil || e < 0 {
				return nil, "bad-op"
			}
			exp = e
			body = body[:i]
		}
		k, err := strconv.Atoi(body)
		if err != nil || k < 0 || k > maxKey || seen[k] {
			return nil, "bad-op"
		}
		seen[k] = true
		td.items = append(td.items, item{key: k, kind: tok[0], expect: exp})
	}
	tx := &pb.Transaction{}
	for _, it := range td.items {
		tx.TxInputsExt = append(tx.TxInputsExt, &protos.TxInputExt{Bucket: "b", Key: []byte(keyName(it.key))})
		if it.kind == 'X' {
			tx.TxOutputsExt = append(tx.TxOutputsExt, &protos.TxOutputExt{Bucket: "b", Key: []byte(keyName(it.key))})
		}
	}
	td.keys = utxo.NewSpinLock().ExtractLockKeys(tx)
	sort.Slice(td.items, func(i, j int) bool { return td.items[i].key < td.items[j].key })
	var canon []string
	for _, lk := range td.keys {
		s := lk.String() // b/k003:X
		s = strings.TrimPrefix(s, "b/k")
		i := strings.IndexByte(s, ':')
		n, err := strconv.Atoi(s[:i])
		if err != nil {
			return nil, "bad-key:" + s
		}
		canon = append(canon, strconv.Itoa(n)+s[i:])
	}
	if len(canon) == 0 {
		return td, "none"
	}
	return td, strings.Join(canon, " ")
}

// ---------------------------------------------------------------- one execution

type thr struct {
	id    int
	def   *threadDef
	goCh  chan struct{}
	done  bool
	label string // where it is paused
	succ  []*utxo.LockKey
	rel   []*utxo.LockKey // what the protocol's Unlock releases
	ok    bool
	res   byte // 'r' running, 'a', 's', 'f'
	// oracle state
	inside      bool
	checkedVals map[int]int
	inUnlock    bool
	unlockYield int
}

type event struct {
	t     int
	label string
	done  bool
	pnc   string
}

type logEntry struct {
	t  int
	ok bool
}

type viol struct{ key, what string }

// proto: doTxSync's lock protocol, extracted from $XV_REPO's state.go at start-up
var proto = lockproto.Expected

type execution struct {
	sp      *utxo.SpinLock
	thr     []*thr
	arrived chan event
	cur     int32
	free    int32
	mu      sync.Mutex // protects store/log/viol when threads run free during abort
	store   map[int]int
	log     []logEntry
	viols   []viol
	timer   *time.Timer
	aborted bool
}

var stepTimeout = 3 * time.Second

func (e *execution) violate(key, what string) {
	for _, v := range e.viols {
		if v.key == key {
			return
		}
	}
	e.viols = append(e.viols, viol{key, what})
}

func (e *execution) pause(t *thr, label string) {
	if atomic.LoadInt32(&e.free) != 0 {
		return
	}
	e.arrived <- event{t: t.id, label: label}
	<-t.goCh
}

func (e *execution) hook(label string) {
	if atomic.LoadInt32(&e.free) != 0 {
		return
	}
	t := e.thr[atomic.LoadInt32(&e.cur)]
	if lockHeld(e.sp) {
		// inside the SpinLock's own mutex: the enclosing region is one atomic step of the real
		// code, so this is not a scheduling point (the real mutex is probed, nothing is assumed)
		return
	}
	short := map[string]string{"trylock.loaded": "L", "trylock.added": "A", "unlock.released": "R", "unlock.deleted": "D"}[label]
	if short == "" {
		short = "?" + label
	}
	if t.inUnlock && short == "D" {
		t.unlockYield++
	}
	e.pause(t, short)
}

// ---- critical section on the shared store (the harness's stand-in for doTxSync's check/apply/publish)

func (e *execution) enterCS(t *thr) {
	e.mu.Lock()
	defer e.mu.Unlock()
	if atomic.LoadInt32(&e.free) != 0 {
		return
	}
	for _, o := range e.thr {
		if o == t || !o.inside {
			continue
		}
		for _, a := range t.def.items {
			for _, b := range o.def.items {
				if a.key != b.key {
					continue
				}
				if a.kind == 'X' && b.kind == 'X' {
					e.violate("mutex:two-exclusive", fmt.Sprintf("threads %d and %d are both inside their critical sections holding key %d exclusively", o.id, t.id, a.key))
				} else if a.kind == 'X' || b.kind == 'X' {
					e.violate("mutex:shared-exclusive", fmt.Sprintf("threads %d and %d are both inside their critical sections with key %d, one shared and one exclusive", o.id, t.id, a.key))
				}
			}
		}
	}
	t.inside = true
}

func (e *execution) exitCS(t *thr) {
	e.mu.Lock()
	t.inside = false
	e.mu.Unlock()
}

func (e *execution) check(t *thr) bool {
	e.mu.Lock()
	defer e.mu.Unlock()
	ok := true
	t.checkedVals = map[int]int{}
	for _, it := range t.def.items {
		v := e.store[it.key]
		t.checkedVals[it.key] = v
		if v != it.expect {
			ok = false
		}
	}
	if !ok {
		e.log = append(e.log, logEntry{t.id, false})
		t.res = 's'
	}
	return ok
}

func (e *execution) apply(t *thr) {
	e.mu.Lock()
	defer e.mu.Unlock()
	if atomic.LoadInt32(&e.free) == 0 {
		for _, it := range t.def.items {
			if e.store[it.key] != t.checkedVals[it.key] {
				e.violate("serial:stale-apply", fmt.Sprintf("key %d changed from version %d to %d between cs.check and cs.apply of thread %d (lost update)", it.key, t.checkedVals[it.key], e.store[it.key], t.id))
			}
		}
	}
	for _, it := range t.def.items {
		if it.kind == 'X' {
			e.store[it.key] = t.id + 1
		}
	}
	e.log = append(e.log, logEntry{t.id, true})
}

func (e *execution) publish(t *thr) {
	e.mu.Lock()
	t.res = 'a'
	e.mu.Unlock()
}

// body is doTxSync's lock protocol AS EXTRACTED from state.go (package lockproto): TryLock on the
// extracted keys; what the (deferred) Unlock releases; whether a failed TryLock returns before the
// critical section. With the protocol of the unchanged tree this is
//
//	succ, ok := TryLock(keys); defer Unlock(succ); if !ok { return }; cs.check; cs.apply; cs.publish
func (e *execution) body(t *thr) {
	defer func() {
		ev := event{t: t.id, done: true}
		if r := recover(); r != nil {
			ev.pnc = fmt.Sprint(r)
		}
		e.arrived <- ev
	}()
	<-t.goCh
	t.succ, t.ok = e.sp.TryLock(t.def.keys)
	switch proto.UnlockWhat {
	case "succ":
		t.rel = t.succ
	case "requested":
		t.rel = t.def.keys
	default:
		t.rel = nil
	}
	unlock := func() {
		t.inUnlock = true
		e.sp.Unlock(t.rel)
	}
	if !proto.UnlockDeferred {
		unlock() // a plain statement: the locks are gone before the critical section
	}
	if !t.ok {
		t.res = 'f'
		if proto.GuardBeforeCritical {
			if proto.UnlockDeferred && proto.UnlockOnFailPath {
				if len(t.rel) > 0 {
					e.pause(t, "f")
				}
				unlock()
			}
			return
		}
	}
	e.enterCS(t)
	pass := e.check(t)
	if pass {
		e.pause(t, "c+")
		e.apply(t)
		e.pause(t, "a")
		e.publish(t)
		e.pause(t, "p")
	} else {
		e.pause(t, "c-")
	}
	e.exitCS(t)
	if proto.UnlockDeferred {
		unlock()
	}
}

func newExecution(defs []*threadDef) *execution {
	e := &execution{sp: utxo.NewSpinLock(), arrived: make(chan event, 2*len(defs)+4), store: map[int]int{}}
	e.timer = time.NewTimer(time.Hour)
	for i, d := range defs {
		t := &thr{id: i, def: d, goCh: make(chan struct{}, 1), res: 'r', label: "start"}
		e.thr = append(e.thr, t)
	}
	utxo.VerifYieldHook = e.hook
	for _, t := range e.thr {
		go e.body(t)
	}
	return e
}

// step lets thread tid run to its next yield point; returns the label.
func (e *execution) step(tid int) string {
	if e.aborted {
		return "!"
	}
	t := e.thr[tid]
	if t.done {
		return "-"
	}
	atomic.StoreInt32(&e.cur, int32(tid))
	if !e.timer.Stop() {
		select {
		case <-e.timer.C:
		default:
		}
	}
	e.timer.Reset(stepTimeout)
	t.goCh <- struct{}{}
	select {
	case ev := <-e.arrived:
		if ev.t != tid {
			e.violate("lock:scheduler", fmt.Sprintf("thread %d moved while thread %d was scheduled", ev.t, tid))
		}
		if ev.pnc != "" {
			e.violate("lock:panic", fmt.Sprintf("thread %d panicked: %s", tid, ev.pnc))
			t.done = true
			t.label = "panic"
			return "!panic"
		}
		if ev.done {
			t.done = true
			t.label = "."
		} else {
			t.label = ev.label
		}
	case <-e.timer.C:
		e.violate("lock:timeout", fmt.Sprintf("thread %d did not reach a yield point within %v after being scheduled at %q (blocked)", tid, stepTimeout, t.label))
		e.abort()
		return "!timeout"
	}
	e.afterStep()
	return t.label
}

// afterStep: the entry of every key of a thread inside its critical section must exist.
func (e *execution) afterStep() {
	for _, t := range e.thr {
		if !t.inside {
			continue
		}
		for _, it := range t.def.items {
			if !e.sp.IsLocked("b/" + keyName(it.key)) {
				e.violate("mutex:entry-missing", fmt.Sprintf("thread %d is inside its critical section with key %d (%c) but the lock table has no entry for it", t.id, it.key, it.kind))
			}
		}
	}
}

func (e *execution) alive() []int {
	var a []int
	for _, t := range e.thr {
		if !t.done {
			a = append(a, t.id)
		}
	}
	return a
}

// choices: the threads worth branching on. A thread paused after releasing its last key has only
// thread-local work left; scheduling it first loses no behaviour (sound reduction of the enumeration).
func (e *execution) choices() []int {
	for _, t := range e.thr {
		if !t.done && t.inUnlock && t.label == "D" && t.unlockYield >= len(t.rel) {
			return []int{t.id}
		}
	}
	return e.alive()
}

// abort lets every unfinished goroutine run free to its end (bounded wait).
func (e *execution) abort() {
	if e.aborted {
		return
	}
	e.aborted = true
	atomic.StoreInt32(&e.free, 1)
	n := 0
	for _, t := range e.thr {
		if !t.done {
			n++
			select {
			case t.goCh <- struct{}{}:
			default:
			}
		}
	}
	deadline := time.After(2 * time.Second)
	for n > 0 {
		select {
		case ev := <-e.arrived:
			if ev.done {
				n--
			}
		case <-deadline:
			n = 0
		}
	}
}

func (e *execution) universe() []int {
	m := map[int]bool{}
	for _, t := range e.thr {
		for _, it := range t.def.items {
			m[it.key] = true
		}
	}
	var ks []int
	for k := range m {
		ks = append(ks, k)
	}
	sort.Ints(ks)
	return ks
}

// finish evaluates the end-of-run oracles and renders the canonical summary.
func (e *execution) finish() string {
	ks := e.universe()
	var r, st, lk, lg []string
	allDone := true
	for _, t := range e.thr {
		r = append(r, string(t.res))
		if !t.done {
			allDone = false
		}
	}
	for _, k := range ks {
		st = append(st, fmt.Sprintf("%d:%d", k, e.store[k]))
		if e.sp.IsLocked("b/" + keyName(k)) {
			lk = append(lk, strconv.Itoa(k))
		}
	}
	for _, l := range e.log {
		s := "-"
		if l.ok {
			s = "+"
		}
		lg = append(lg, strconv.Itoa(l.t)+s)
	}
	if allDone && !e.aborted {
		if len(lk) > 0 {
			e.violate("lock:leak", fmt.Sprintf("all threads finished but keys %v are still locked (a later TryLock on them fails forever)", lk))
		}
		e.serialOracle(ks)
	}
	e.abort()
	utxo.VerifYieldHook = nil
	return fmt.Sprintf("r=%s | st=%s | lk=%s | log=%s", strings.Join(r, ","), strings.Join(st, ","), strings.Join(lk, ","), strings.Join(lg, ","))
}

// serialOracle: some one-at-a-time order of the requests that obtained their locks must give the
// same verdict for each of them and the same final store.
func (e *execution) serialOracle(ks []int) {
	var ent []*thr
	for _, t := range e.thr {
		if t.res == 'a' || t.res == 's' {
			ent = append(ent, t)
		}
	}
	if len(ent) > 6 {
		return
	}
	idx := make([]int, len(ent))
	for i := range idx {
		idx[i] = i
	}
	found := false
	var perm func(k int)
	perm = func(k int) {
		if found {
			return
		}
		if k == len(idx) {
			st := map[int]int{}
			for _, i := range idx {
				t := ent[i]
				ok := true
				for _, it := range t.def.items {
					if st[it.key] != it.expect {
						ok = false
					}
				}
				if ok != (t.res == 'a') {
					return
				}
				if ok {
					for _, it := range t.def.items {
						if it.kind == 'X' {
							st[it.key] = t.id + 1
						}
					}
				}
			}
			for _, key := range ks {
				if st[key] != e.store[key] {
					return
				}
			}
			found = true
			return
		}
		for i := k; i < len(idx); i++ {
			idx[k], idx[i] = idx[i], idx[k]
			perm(k + 1)
			idx[k], idx[i] = idx[i], idx[k]
		}
	}
	perm(0)
	if !found {
		e.violate("serial:no-sequential-order", "no one-at-a-time order of the requests that obtained their locks yields the observed verdicts and final store")
	}
}

// ---------------------------------------------------------------- running schedules

type runResult struct {
	sched   []int   // the schedule actually executed (prefix + extension)
	choices [][]int // choices()[d] before step d, for d >= len(prefix) (nil before)
	answer  string
	viols   []viol
	steps   int
}

// runSchedule executes prefix; with extend it then keeps scheduling the lowest-numbered choice until
// every thread has finished (bounded).
// curSched: the schedule being executed, for the watchdog (a step that blocks the harness itself never returns)
var curSched atomic.Value

func runSchedule(defs []*threadDef, prefix []int, extend bool, pick func(ch []int) int) runResult {
	e := newExecution(defs)
	res := runResult{}
	var labels []string
	for i, tid := range prefix {
		curSched.Store(append([]int(nil), prefix[:i+1]...))
		if tid < 0 || tid >= len(e.thr) {
			labels = append(labels, "?")
		} else {
			labels = append(labels, e.step(tid))
		}
		res.sched = append(res.sched, tid)
		res.choices = append(res.choices, nil)
	}
	if extend {
		bound := 0
		for _, d := range defs {
			bound += 4*len(d.items) + 8
		}
		for n := 0; n < bound && !e.aborted; n++ {
			ch := e.choices()
			if len(ch) == 0 {
				break
			}
			tid := ch[0]
			if pick != nil {
				tid = pick(ch)
			}
			res.choices = append(res.choices, ch)
			res.sched = append(res.sched, tid)
			curSched.Store(append([]int(nil), res.sched...))
			labels = append(labels, e.step(tid))
		}
		if len(e.alive()) > 0 && !e.aborted {
			e.violate("lock:no-termination", "threads still running after the step bound of their programs")
		}
	}
	res.steps = len(labels)
	res.answer = strings.TrimSpace(strings.Join(labels, " ") + " | " + e.finish())
	res.viols = e.viols
	return res
}

func schedLine(s []int) string {
	var b strings.Builder
	b.WriteString("sched")
	for _, t := range s {
		b.WriteByte(' ')
		b.WriteString(strconv.Itoa(t))
	}
	return b.String()
}

// ---------------------------------------------------------------- driver of cases

type harness struct {
	out     *xvlib.Out
	defs    []*threadDef
	header  []string // reset + thread lines of the current case
	pattern string
}

func (h *harness) report(line string, r runResult) {
	for _, v := range r.viols {
		ops := append(append([]string{}, h.header...), line)
		h.out.Violate(xvlib.Violation{Key: v.key, What: v.what, Ops: ops, Impl: []string{r.answer}})
	}
}

func (h *harness) execLine(line string) string {
	w := strings.Fields(line)
	if len(w) == 0 {
		return "bad-op"
	}
	switch w[0] {
	case "reset":
		if len(w) > 2 || (len(w) == 2 && w[1] != "split") {
			return "bad-op"
		}
		h.defs = nil
		h.header = []string{line}
		return "ok"
	case "thread":
		if len(h.header) == 0 || len(h.defs) >= maxThreads {
			return "bad-op"
		}
		td, ans := parseThread(line)
		if td == nil {
			return ans
		}
		h.defs = append(h.defs, td)
		h.header = append(h.header, line)
		return ans
	case "sched":
		if len(h.header) == 0 {
			return "bad-op"
		}
		var s []int
		for _, x := range w[1:] {
			n, err := strconv.Atoi(x)
			if err != nil || n < 0 || n >= len(h.defs) {
				return "bad-op"
			}
			s = append(s, n)
		}
		r := runSchedule(h.defs, s, false, nil)
		h.report(line, r)
		h.out.Case(strings.Join(h.header, ";")+";"+line, len(s) > 0)
		return r.answer
	}
	return "bad-op"
}

func (h *harness) begin(pattern string, threads []string) {
	h.pattern = pattern
	h.out.Emit("reset", h.execLine("reset"))
	for _, t := range threads {
		l := "thread " + t
		h.out.Emit(l, h.execLine(l))
	}
}

func (h *harness) record(r runResult) {
	line := schedLine(r.sched)
	h.out.Emit(line, r.answer)
	h.report(line, r)
	h.out.Case(strings.Join(h.header, ";")+";"+line, true)
	h.out.Count("schedules:" + h.pattern)
	h.out.Count(fmt.Sprintf("steps:%02d-%02d", r.steps/5*5, r.steps/5*5+4))
	i := strings.Index(r.answer, "| r=")
	j := strings.Index(r.answer, " | st=")
	if i >= 0 && j > i {
		res := strings.Split(r.answer[i+4:j], ",")
		sort.Strings(res)
		h.out.Count("verdicts:" + strings.Join(res, ""))
	}
}

// exhaustive enumerates every complete schedule of the current case (stateless DFS: every execution
// runs to the end; siblings of every choice point after the prefix are explored recursively).
func (h *harness) exhaustive(limit int) (int, bool) {
	n := 0
	complete := true
	var explore func(prefix []int)
	explore = func(prefix []int) {
		if n >= limit {
			complete = false
			return
		}
		r := runSchedule(h.defs, prefix, true, nil)
		n++
		h.record(r)
		for d := len(r.sched) - 1; d >= len(prefix); d-- {
			for _, t := range r.choices[d] {
				if t > r.sched[d] {
					explore(append(append([]int{}, r.sched[:d]...), t))
				}
			}
		}
	}
	explore(nil)
	return n, complete
}

func (h *harness) random(rng *xvlib.Rng, count int) {
	for i := 0; i < count; i++ {
		r := runSchedule(h.defs, nil, true, func(ch []int) int { return ch[rng.Intn(len(ch))] })
		h.record(r)
	}
}

// ---------------------------------------------------------------- generators

func randThread(rng *xvlib.Rng, nKeys, universe int) string {
	perm := make([]int, universe)
	for i := range perm {
		perm[i] = i + 1
	}
	for j := universe - 1; j > 0; j-- {
		k := rng.Intn(j + 1)
		perm[j], perm[k] = perm[k], perm[j]
	}
	ks := perm[:nKeys]
	var its []string
	for _, k := range ks {
		kind := "X"
		if rng.Chance(1, 2) {
			kind = "S"
		}
		s := kind + strconv.Itoa(k)
		if rng.Chance(1, 6) { // built against another thread's write (a dependent request)
			s += "@" + strconv.Itoa(1+rng.Intn(4))
		}
		its = append(its, s)
	}
	return strings.Join(its, " ")
}

func main() {
	args := xvlib.ParseArgs()
	out := xvlib.NewOut(args.Out)
	defer out.Close()
	h := &harness{out: out}
	out.OnHang(func() []string {
		ops := append([]string{}, h.header...)
		if s, ok := curSched.Load().([]int); ok {
			ops = append(ops, schedLine(s))
		}
		return ops
	})
	repo := os.Getenv("XV_REPO")
	if repo == "" {
		repo = "/repo"
	}
	if f, err := lockproto.Extract(repo); err != nil {
		out.Stats.Notes = append(out.Stats.Notes, "doTxSync lock protocol could not be extracted from "+repo+": "+err.Error()+"; the harness threads follow the expected protocol")
	} else {
		proto = f
		if f != lockproto.Expected {
			out.Stats.Notes = append(out.Stats.Notes, fmt.Sprintf("doTxSync's lock protocol in %s differs from the modelled one: %+v (expected %+v); the harness threads follow the extracted protocol", lockproto.File, f, lockproto.Expected))
		}
	}
	if args.Replay != "" {
		for _, l := range xvlib.ReadLines(args.Replay) {
			out.Emit(l, h.execLine(l))
		}
		return
	}
	rng := xvlib.NewRng(args.Seed)
	thorough := args.Tier == "thorough"

	// 0. the corpus (minimised past failures and hand-written corner cases) runs first
	corpus, _ := filepath.Glob(filepath.Join("corpus", args.Prop, "*.ops"))
	sort.Strings(corpus)
	for _, f := range corpus {
		for _, l := range xvlib.ReadLines(f) {
			out.Emit(l, h.execLine(l))
			if strings.HasPrefix(l, "sched") {
				out.Count("schedules:corpus")
			}
		}
	}
	if len(corpus) == 0 {
		out.Stats.Notes = append(out.Stats.Notes, "corpus/"+args.Prop+" not found (run from the framework root)")
	}

	// 1. every schedule of two threads, for each conflict pattern
	two := [][2]string{
		{"xx", "X1|X1"}, {"sx", "S1|X1"}, {"xs", "X1|S1"}, {"ss", "S1|S1"},
		{"crossed-xx", "X1 X2|X1 X2"}, {"crossed-sx", "S1 X2|X1 S2"}, {"crossed-ss-x", "S1 S2|S1 X2"},
		{"disjoint", "X1|X2"}, {"chain", "X1 S2|S2 X3"}, {"dependent", "X1|S1@1 X2"},
	}
	allComplete := true
	for _, p := range two {
		h.begin("2:"+p[0], strings.Split(p[1], "|"))
		_, c := h.exhaustive(200000)
		allComplete = allComplete && c
	}
	// 2. three threads, exhaustive
	three := [][2]string{{"sss", "S1|S1|S1"}, {"ssx", "S1|S1|X1"}, {"sxx", "S1|X1|X1"}, {"xxx", "X1|X1|X1"},
		{"ss-sx", "S1|S1 X2|X1 S2"}, {"s-s-x2", "S1|S1|X1 X2"}, {"s-x2-s2", "S1|X2|S1 S2"}}
	lim3 := 40000
	if thorough {
		three = append(three, [2]string{"dep-chain", "X1|S1@1 X2|S2@2 X3"}, [2]string{"s12-s12-x2", "S1 S2|S1 S2|X2"}, [2]string{"disjoint3", "X1|X2|X3"})
		lim3 = 1000000
	}
	for _, p := range three {
		h.begin("3:"+p[0], strings.Split(p[1], "|"))
		_, c := h.exhaustive(lim3)
		if !c {
			out.Stats.Notes = append(out.Stats.Notes, fmt.Sprintf("pattern 3:%s: enumeration cut at %d schedules (DFS order)", p[0], lim3))
		}
	}
	// 3. random schedules of 3-4 threads; every fourth case is the shared/shared/exclusive/exclusive pattern
	cases, per := 600, 10
	if thorough {
		cases, per = 8000, 20
	}
	for c := 0; c < cases; c++ {
		var ths []string
		name := "rand"
		if c%4 == 0 {
			ths = []string{"S1", "S1", "X1", "X1"}
			name = "ssxx"
		} else {
			n := 3 + rng.Intn(2)
			for i := 0; i < n; i++ {
				ths = append(ths, randThread(rng, 1+rng.Intn(2), 2+rng.Intn(2)))
			}
		}
		h.begin(fmt.Sprintf("%d:%s", len(ths), name), ths)
		h.random(rng, per)
		if c < 3 {
			out.Sample(map[string]interface{}{"threads": ths})
		}
	}
	out.Stats.Exhaustive = allComplete
	out.Stats.Rule = fmt.Sprintf("every complete schedule (stateless DFS over the real code's yield points) of 2 threads for the conflict patterns xx, sx, xs, ss, crossed, disjoint, chain, dependent and of 3 single-key threads (cut at %d schedules per pattern); %d random cases of 3-4 threads (1-2 keys out of 2-3, shared/exclusive, some built against another thread's write; every fourth the S,S,X,X pattern on one key) with %d uniformly random complete schedules each; non-trivial = distinct (threads, schedule)", lim3, cases, per)
}
