"""Registry: which Lean modules, which engine harness and which trusted base decide each property."""

KERNEL = "Lean 4.33.0 kernel; axioms limited to propext, Classical.choice, Quot.sound (audited by #print axioms on every run; leanchecker in the thorough tier)"
TRANSLATOR = "go/extract (go/ast translator, arithmetic subset / encoder schemas): trusted to render the Go subset faithfully; validated on every run by running the generated defs and the real functions on the same inputs"
HARNESS = "the Go harness, its canonicaliser and id abstraction: trusted to report what the implementation returned"
CRYPTO = "ECDSA, SHA-256, address derivation (xuperchain/crypto) are not modelled: a signature entry is abstracted to the boolean result of the real verification, computed by the real code in the harness"

