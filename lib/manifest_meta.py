from props import META, NOT_APPLICABLE, HOOK_COMMITS, ENGINES  # kept for tools/mkmanifest.py
