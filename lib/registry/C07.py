from common import *

PROPS = {
    'C07': dict(
        engine='enc', driver='enc', stateful=False,
        lean=['XV.Props.C07'],
        level='proof',
        timeout={'quick': 600, 'thorough': 3000},
        trusted_base=[KERNEL, TRANSLATOR, HARNESS,
                      "SHA-256, ECDSA, multi-signature, key parsing and address derivation are not modelled: signature entries are abstracted to (address of the key, verifies over this digest); the Lean driver runs the decision model on symbolic keys/signatures over its own byte-exact v3 pre-images",
                      "translated from source: the write sequences of txDigestHashV2 and encodeTxData and the leaf fields of the Transaction protobuf message (Gen.txDigestV3/V1/txFields; theorems gen_v3_is_model, v3_well_delimited, v3_covers, id_covers_signatures by decide); their Go-side interpreter must reproduce MakeTxDigestHash and MakeTransactionID on every generated transaction (v1, v2, v3) and the Lean codec must produce the same v3 bytes; modelled by hand, tied by correspondence: verifySignatures / verifyXuperSign / verifyUTXOPermission decision logic (every v3 mutation line compared with the real State.VerifyTx)",
                      "account rules (IdentifyAccount) are an abstract predicate of the model (decided by C11); the harness uses an in-memory ACL table"],
        assumptions=["no hash collision between the two pre-images compared (hypothesis of digest_hash_binds_fields)",
                     "no signature forgery: an entry verifies only if made with the private key of the address it claims (signature entries enter the model as the boolean result of the real check)",
                     "field lengths and list lengths are below 2^64 (Codec.valid)",
                     "the part of ImmediateVerifyTx after verifyUTXOPermission (contract permission, RWSet re-execution) is C09/C11"],
    ),
}

ENGINES = []

META = {
    'C07': dict(
        text="Kernel-checked theorems (lean/XV/Props/C07.lean). Encodings: enc_injective (generic: any encoder assembled from the framing primitives of txhash/encode.go — 8-byte words, length-prefixed bytes, counted loops, pairs — has a prefix decoder, hence is injective), gen_v3_is_model / v3_well_delimited / v3_covers / id_covers_signatures / exclusions_exact (decide over the schema and the Transaction field list regenerated from source: every message field except the explicit exclusion list is written, framed, into digest resp. id), digest_binds_fields_partial (v3: equal digest pre-image => equal covered fields), id_binds_fields_and_signatures, digest_ignores_signatures, digest_hash_binds_fields. The full statement over versions 1-3 is refuted: digest_binds_fields_counterexample + v1_not_well_delimited + v1_loop_uncounted_collision + v1_hdinfo_only_from_v2 (known findings txdigest-v1v2-not-injective, txdigest-v1-omits-hdinfo; format frozen). Decision logic: accept_implies_signed (acceptance => txid recomputed, initiator and every AuthRequire address have a valid entry over the digest under a key hashing to the address — account initiator: every initiator entry valid and the ACL accepts them —, every non-contract input owner is such an address or an account whose rule the listed signers satisfy), unsigned_signer_rejected, unsigned_owner_rejected, txid_mismatch_rejected, signature_mutation_rejected_partial; signature_mutation_rejected_statement (every entry is checked) is refuted on model and code (known finding signature-area-malleable). Tie: schemas regenerated every run and interpreted in Go against the real hashes; Lean v3 bytes = interpreter bytes; every single-field mutation (schema walk) of accepted transactions of 5 forms through the real State.VerifyTx and the Lean model.",
        design_ref='DESIGN.md §6 C07',
        note="Trusted: Lean kernel, go/extract, the harness. Crypto abstract (no-forgery / no-collision are hypotheses). Covered entry point: State.VerifyTx = ImmediateVerifyTx on a real State (txid recomputation, verifySignatures, verifyXuperSign, verifyUTXOPermission) with an in-memory ACL table. NOT covered: Chain.SubmitTx, the block path (verifyDAGTxs; predicted defect F5 autogen-flagged txs is not examined), contract requests / RWSet re-execution (C09), real ACL evaluation (C11); v1/v2 mutants are judged by the impl-side oracle only (the Lean model has the v1/v2 stream abstractly, enough for the collision witness). Observations: Blockid, ReceivedTimestamp, ModifyBlock.* are outside digest and id.",
        technique='Lean 4 proof: codec combinators with prefix decoders (generic injectivity) + decision model; schemas regenerated from source by go/ast; schema-walking single-mutation harness on the real State.VerifyTx',
    ),
}

HOOK_COMMITS = []
