from common import *

PROPS = {
    'C14': dict(
        engine='safety', driver='safety', stateful=False,
        lean=['XV.Props.C14'],
        level='proof',
        trusted_base=[KERNEL, TRANSLATOR, HARNESS, CRYPTO,
                      "modelled by hand (tied by correspondence, not by translation): the signature loop of CheckProposal and CheckVote; translated from source: CalVotesThreshold, CheckPacemaker"],
        assumptions=["validator lists have no repeated address", "view-number / pending-tree preconditions of CheckProposal are satisfied (the certified proposal is in the local tree)",
                     "no signature forgery: an entry verifies only if produced with the private key of the claimed address"],
    ),
}

ENGINES = [
    dict(name='safety', path='go/cmd/safety + lean/XV/Model/Safety.lean', serves_properties=['C14'],
         kind_free_text='Lean model of CheckProposal/CheckVote + translated CalVotesThreshold; harness drives the real DefaultSaftyRules with real ECDSA keys'),
]

META = {
    'C14': dict(
        text="Kernel-checked theorems (lean/XV/Props/C14.lean) about the certificate check: the threshold function regenerated from saftyrules.go decides k+1 >= n - floor((n-1)/3) for every n>=1 (threshold_value); acceptance implies that many distinct members with valid signatures over the certified id, for every validator set and every multiset of entries (qc_needs_quorum_partial, counted_le_validMembers); repeated entries, non-members and invalid signatures never help (repeat_irrelevant, nonmember_irrelevant, invalid_member_sig_rejects). The full statement (quorum besides the collector) is refuted on model and code (qc_needs_quorum_counterexample, known finding collector-counted) and proved under 'collector has no entry' (qc_needs_quorum_no_collector_entry). Tie: CalVotesThreshold/CheckPacemaker are translated from source on every run; the loop model is compared with the real CheckProposal/CheckVote using real keys and signatures on all multisets for small n and random ones up to n=10.",
        design_ref='DESIGN.md §6 C14',
        note="Trusted: Lean kernel, the go/ast translator, the harness. ECDSA/address derivation are run for real in the harness but abstracted to a boolean in the model. Not covered: view-number preconditions of CheckProposal, tdpos/xpoa CheckMinerMatch wrappers (they pass the previous block's validator set to the same function).",
        technique='Lean 4 proof over translated threshold function + hand model of the signature loop; exhaustive/random differential correspondence with real signatures',
    ),
}

HOOK_COMMITS = []
