from common import *

PROPS = {
    'C14': dict(
        engine='safety', driver='safety', stateful=False,
        lean=['XV.Props.C14', 'XV.Props.C14b'],
        level='proof',
        # second engine: WHICH validator set xpoa / tdpos CheckMinerMatch check the justify certificate against (the set in force for the certified view)
        extra=[dict(engine='bftmatch', driver='bftmatch', stateful=False, timeout={'quick': 600, 'thorough': 3000})],
        trusted_base=[KERNEL, TRANSLATOR, HARNESS, CRYPTO,
                      "modelled by hand (tied by correspondence, not by translation): the signature loop of CheckProposal and CheckVote; translated from source: CalVotesThreshold, CheckPacemaker",
                      "bftmatch: modelled by hand and tied by correspondence on the real plugins (every candidate block's verdict): the validator-set lookup of xpoa GetLocalValidates/getValidates and tdpos CalOldProposers/calHisValidators/calTopKNominator as used by CheckMinerMatch, the StartHeight exemption and the missing-justify rejection; the stub ledger (blocks, per-block snapshots of the validator keys) is trusted to present the recorded history"],
        assumptions=["validator lists have no repeated address", "view-number / pending-tree preconditions of CheckProposal are satisfied (the certified proposal is in the local tree)",
                     "no signature forgery: an entry verifies only if produced with the private key of the claimed address",
                     "bftmatch: the ledger the node checks against is an honest chain (stored tdpos terms non-decreasing and equal to the term of the block's timestamp, at most proposer_num*block_num blocks per term); the certificate certifies the id of the block's predecessor and the candidate's height is within tip-2..tip+1 (so the pending-tree precondition of CheckProposal holds); validator sets are non-empty and duplicate-free; tdpos sets have exactly proposer_num members"],
    ),
}

ENGINES = [
    dict(name='bftmatch', path='go/cmd/bftmatch + lean/XV/Model/BftMatch.lean', serves_properties=['C14'],
         kind_free_text='Lean model of the validator-set lookup behind xpoa / tdpos CheckMinerMatch (history of set changes -> set in force for the certified view) on top of the safety model; harness builds the real plugins with chained-bft on a stub ledger with per-block snapshots and presents candidate blocks around validator-set changes with real signatures'),
    dict(name='safety', path='go/cmd/safety + lean/XV/Model/Safety.lean', serves_properties=['C14'],
         kind_free_text='Lean model of CheckProposal/CheckVote + translated CalVotesThreshold; harness drives the real DefaultSaftyRules with real ECDSA keys'),
]

META = {
    'C14': dict(
        text="Kernel-checked theorems (lean/XV/Props/C14.lean) about the certificate check: the threshold function regenerated from saftyrules.go decides k+1 >= n - floor((n-1)/3) for every n>=1 (threshold_value); acceptance implies that many distinct members with valid signatures over the certified id, for every validator set and every multiset of entries (qc_needs_quorum_partial, counted_le_validMembers); repeated entries, non-members and invalid signatures never help (repeat_irrelevant, nonmember_irrelevant, invalid_member_sig_rejects). The full statement (quorum besides the collector) is refuted on model and code (qc_needs_quorum_counterexample, known finding collector-counted) and proved under 'collector has no entry' (qc_needs_quorum_no_collector_entry). Tie: CalVotesThreshold/CheckPacemaker are translated from source on every run; the loop model is compared with the real CheckProposal/CheckVote using real keys and signatures on all multisets for small n and random ones up to n=10. Second engine bftmatch (lean/XV/Props/C14b.lean, lean/XV/Model/BftMatch.lean): for EVERY history of validator-set changes, the verdict of xpoa / tdpos CheckMinerMatch on the justify certificate depends on the chain only through the set in force for the CERTIFIED view (match_uses_certified_view, checkMinerMatch_uses_certified_view, td_match_uses_certified_view) - an edit recorded above block view-4 (xpoa) / above 3 blocks before the first block of the predecessor's term (tdpos) never changes it (match_ignores_later_edits, td_match_ignores_later_edits; xpoa_edit_in_force / xpoa_edit_not_yet_in_force locate the boundary at edit height + 4); acceptance implies a quorum of distinct valid members of THAT set (match_needs_quorum_of_view_set, ..._no_collector_entry for the full statement; the full statement is refuted by match_needs_quorum_of_view_set_counterexample = known finding collector-counted); entries of addresses outside that set never change the verdict, all of them can be dropped, and a certificate signed only by them is rejected for n>=2 (other_set_never_helps, other_set_entries_dropped, other_set_alone_rejected, td_ variants). Tie: the real xpoa and tdpos plugins are built with chained-bft through their constructors on a stub ledger whose snapshots depend on the block (7 variants of the new set, n up to 10, one or two edits, later StartHeight, rollback markers, term changes); for every tip height around the change the candidate block (correct proposer and timestamp for its slot) is presented to the real CheckMinerMatch with 15 classes of certificate (quorum of the view's set, quorum of the other set only, mixed, below quorum, outsiders, repeated, wrong id / corrupted / key mismatch, empty, no justify) and the verdict is compared with the model; the impl-side oracle recomputes the set in force for the certified view from the recorded history and reports acceptance without a quorum of it (keys wrong-set:<which>, collector-counted, ...), rejection of a genuine quorum (genuine-quorum-rejected), a missing certificate accepted above StartHeight and a rejected StartHeight block.",
        design_ref='DESIGN.md §6 C14',
        note="Trusted: Lean kernel, the go/ast translator, the harness. ECDSA/address derivation are run for real in the harness but abstracted to a boolean in the model. Not covered: view-number / pending-tree preconditions of CheckProposal (the bftmatch harness keeps them satisfied); the proposer half of CheckMinerMatch is C16's. bftmatch models the lookup the code performs for a block whose predecessor is in the ledger; tdpos: the historical lookup (first block F of the term, snapshot F-3) differs by one block from what the live miner used when it opened the term (snapshot of tip-3 = F-4) - the model follows the historical lookup, which is what CheckMinerMatch runs.",
        technique='Lean 4 proof over translated threshold function + hand model of the signature loop; exhaustive/random differential correspondence with real signatures',
    ),
}

HOOK_COMMITS = []
