from common import *

CHAIN_TB = [KERNEL, HARNESS,
            "the in-memory kvdb engine go/kvmem (registered through kvdb.Register; leveldb's own batch atomicity and iterator semantics are trusted, not modelled)",
            "modelled by hand and tied by correspondence after EVERY operation (raw tables U / ZU / M, balances, total, key values with versions, pool, ledger tables B / ZH / C / ZI): lean/XV/Model/Chain.lean, Ledger.lean; signatures, contract re-execution and protobuf/leveldb encodings are exercised for real by the harness but are outside the model",
            "SHA-256 / ECDSA are not modelled: transaction and block ids are abstracted to first-occurrence numbers"]
CHAIN_ASM = ["transactions are built and signed by the harness ($xvkv kernel contract pre-executed by the real sandbox); wasm/native/evm contracts cannot run in this sandbox",
             "no int64 overflow (heights, timestamps), amounts are arbitrary-precision in model and code",
             "Play is only called on a block that extends the state's tip (the code's own precondition)"]

def _p(**kw):
    d = dict(engine='chain', driver='chain', stateful=True, level='proof', trusted_base=CHAIN_TB, assumptions=CHAIN_ASM,
             timeout={'quick': 1500, 'thorough': 6000})
    d.update(kw)
    return d

PROPS = {
    'C01': _p(lean=['XV.Props.C01']),
    'C02': _p(lean=['XV.Props.C02']),
    'C03': _p(lean=['XV.Props.C03']),
    'C04': _p(lean=['XV.Props.C04']),
    'C05': _p(lean=['XV.Props.C05']),
    'C06': _p(lean=['XV.Props.C06'], level='fault_enumeration'),
    'C17': _p(lean=['XV.Props.C17']),
    'C18': _p(lean=['XV.Props.C18']),
}

ENGINES = [
    dict(name='chain', path='go/cmd/chain + go/chainlib + go/kvmem; lean/XV/Model/Chain.lean, Ledger.lean, Snapshot.lean',
         serves_properties=['C01', 'C02', 'C03', 'C04', 'C05', 'C06', 'C17', 'C18'],
         kind_free_text='real ledger.Ledger + state.State + contract manager in-process on an instrumented in-memory kvdb engine; history generator; independent spec interpreter as oracle; Lean L1 models of the state machine and the block store compared with the implementation after every operation'),
]

_NOTE = ("Trusted: Lean kernel, the harness and its in-memory kvdb engine. The theorems are about the hand-written L1 model; the tie to the Go code is the "
         "correspondence after every operation of every generated history plus the impl-side oracle named in the text. ")

META = {
    'C01': dict(
        text="Theorems (lean/XV/Props/C01.lean): for every admitted transaction, undoTx after applyTx restores every row of the UTXO table (undo_apply_U, under the explicit hypothesis that inputs cite the frozen height of the output they spend - the code restores the cited value), the total (undo_apply_total, all transactions) and leaves pointer / irreversible height / pool alone (undo_apply_frame); apply/undo of outputs characterised row by row (applyOuts_lookup, undoOuts_lookup). PARTIAL: the key-version half of undo and the lift from one transaction to blocks, walks and whole histories (chain_refines in DESIGN) are not proved; they are covered by the checks: the Lean L1 model (play, playForMiner, walk with pool roll-back and replay) is compared with the real State after every operation (tables U, ZU, M, balances, total, every key's value and version, pool), an independent spec interpreter (fold of genesis..B + pool) must equal the real observables after every operation, and a FRESH NODE that confirms and plays genesis..B must answer identically (the property's own oracle). Histories: forks, cross-fork walks, reopen, transfers with fee / zero / frozen outputs, key put / delete / re-create / read-only.",
        design_ref='DESIGN.md §6 C01', note=_NOTE + "Proved at transaction level only; history level decided by correspondence + replica oracle.",
        technique='Lean 4 proof (tx-level undo/apply inverse) + differential correspondence of an executable L1 model with the real state machine + fresh-replica oracle'),
    'C02': dict(
        text="Theorems (lean/XV/Props/C02.lean) about the sum of the UTXO table: removing / putting a row changes the sum by exactly that row (sumU_del, sumU_put); an admitted non-coinbase transaction keeps total and moves exactly its fee out of the table (applyTx_conserves, from admitted_balanced: inputs = outputs incl. fee); a coinbase without inputs adds exactly its materialised outputs to table and total (applyTx_coinbase); paying the fee on confirmation puts it back (payFee_sum); the invariant 'sum U + pending fees = total' is kept by every pool admission (doTx_keeps_conservation). PARTIAL: the invariant across undo / walks is not proved. Impl-side oracle after every operation of every history: sum of the raw U table + pending fees == GetTotal == coinbase sum of the spec chain, GetBalance == per-address scan sum (cold and warm cache), amounts incl. zero, leading-zero and > 64-bit encodings.",
        design_ref='DESIGN.md §6 C02', note=_NOTE + "Coinbase transactions are assumed to have no token inputs (what the miner builds).",
        technique='Lean 4 proof (sum lemmas over the UTXO table, conservation per admission) + conservation oracle on the real tables'),
    'C03': dict(
        text="Theorems (lean/XV/Props/C03.lean) about the admission rule of the L1 model (= CheckInputEqualOutput + XModel.verifyInputs/verifyOutputs): admit_sound (admitted => every token input is an unspent, unfrozen output with the cited owner and amount, inputs pairwise distinct, every read key at the cited version, written keys were read), consume and spent_stays_spent (inputs are gone afterwards and stay gone), no_double_spend_step (two successively admitted transactions never share an input), no_readmission, block_double_spend_refused (Play and Walk refuse a block spending an output twice), admit_complete (the converse: all inputs current => never refused as missing / stale / frozen / mismatched). Impl-side oracle: an independent notion of 'current' (spec fold of the ledger path + accepted submissions) judges every DoTx result in both directions, and after every operation no two admitted transactions (main chain + pool) share an output or supersede the same key version. Histories interleave pool submissions (incl. verify-verify-do-do on one key), peer blocks with seen and unseen transactions, own blocks, reorganisations, walks.",
        design_ref='DESIGN.md §6 C03', note=_NOTE,
        technique='Lean 4 proof of admission soundness/completeness and consumption + independent-current-set oracle on the real DoTx / Play / Walk'),
    'C04': dict(
        text="Theorems (lean/XV/Props/C04.lean) about the table-level ledger model (ConfirmBlock with handleFork / correctTxsBlockid / updateBranchInfo / duplicated-tx rule, Truncate): confirm_tip_rule (the tip moves only to a strictly higher block: earlier-confirmed wins ties), confirm_trunkHeight_mono, confirm_duplicate_refused, confirm_unknown_parent_refused, truncate_meta, frame lemmas. PARTIAL: the full invariant (path, InTrunk flags, height index, next links, tx->block mapping, branch tips) for trunk switches is not proved (ledger_inv in DESIGN). It is decided on the implementation: after EVERY operation of every generated ledger history (random trees, duplicates, late arrivals, unknown parents, the same tx on several branches, truncations, reopen) the oracle recomputes the main chain from what QueryBlockHeader / QueryBlock / QueryBlockByHeight / IsTxInTrunk / QueryTransaction / QueryBlockByTxid / branch-info scan / FindUndoAndTodoBlocks answer and checks items (1)-(7) of DESIGN §6 C04, and the model's raw tables B / ZH / C / ZI / meta are compared with the real ones.",
        design_ref='DESIGN.md §6 C04', note=_NOTE,
        technique='Lean 4 proof (tip rule, monotone trunk height, refusals) + table-level correspondence + main-chain invariant oracle after every op'),
    'C05': dict(
        text="Theorems (lean/XV/Props/C05.lean): every L1 operation that reports failure returns the tables unchanged (doTx_fail_noop, play_fail_noop, playForMiner_fail_noop, confirm_fail_noop, truncate_fail_noop), a walk step either applies its whole block or nothing (todoBlock_all_or_nothing) and a refused walk stops at a block boundary (undo_refusal_is_block_boundary). The models have no volatile part, so 'running == reopened' IS the correspondence: the real node (with its utxo / balance / header / block / batch caches and MetaTmp) must answer every query like the cache-free model after every operation, in particular after failing ones (bad parent, duplicate coinbase, duplicated tx, missing / frozen / stale input, mid-block failing tx); oracle: observables unchanged by every failing op, and a second pair of instances opened on a COPY of the data answers identically (cmpcopy).",
        design_ref='DESIGN.md §6 C05', note=_NOTE + "Injected storage write errors are supported by the engine (FailAt) but not yet part of the generated histories.",
        technique='Lean 4 proof (failed op = no-op at table level) + cache-free-model correspondence + copy-reopen oracle'),
    'C06': dict(
        text="Enumeration of EVERY prefix of the storage-write sequence (single puts / deletes / atomic batches, across ledger DB and state DB, logged by the in-memory engine) of generated scenarios incl. forks, walks, truncation: on each image OpenLedger / NewState must succeed, the ledger's main chain must be self-consistent, the state at its persisted pointer must equal genesis..pointer + its persisted pool (pool transactions applicable => effects present), conservation must hold, and Walk(ledger tip) must succeed and reach the chain state of that tip. Theorems (lean/XV/Props/C06.lean): confirm_keeps_blocks (no ledger batch removes a block: the state's pointer stays resolvable), pool_record_with_effects (pool record and effects are one batch), with C05's block-boundary theorems for walks.",
        design_ref='DESIGN.md §6 C06', note=_NOTE + "Torn writes inside a batch and fsync ordering are goleveldb's contract. Quick samples up to 120 crash points per scenario evenly, thorough takes all.",
        technique='crash-point enumeration over the logged write groups of the real code (fault enumeration) + Lean 4 proofs of the batch-level facts'),
    'C17': dict(
        text="Theorems (lean/XV/Props/C17.lean): nextIrrev_eq_max and irrev_is_max (with window w>0 the height after applying blocks of heights hs is the maximum of the start and every h-w: upper bound that is attained), irrev_nonneg, nextIrrev_window_zero; doTx / play / playForMiner / todoBlock never lower it and set it to max(old, h-w) (play_irrev, playForMiner_irrev, todoBlock_irrev), undo without prune leaves it (undoBlock_irrev); walk_irrev_mono: no non-pruning walk lowers it, also when it fails half way; walk_never_undoes_irreversible: every block a non-pruning walk undoes lies strictly above it, and a refusal happens before the first block at or below it. Impl-side oracle on histories with windows 0..3, deep forks and walks across the line: height == max over blocks ever applied of (h-w), never decreases, window and height survive reopen, and after every walk (also refused ones) every block at or below the irreversible height of the old chain is still on the state's chain.",
        design_ref='DESIGN.md §6 C17', note=_NOTE,
        technique='Lean 4 proof over the L1 walk model + max/monotonicity oracle on the real State.Walk'),
    'C18': dict(
        text="Theorems (lean/XV/Props/C18.lean) about the backwards walk of xModSnapshot.Get (lean/XV/Model/Snapshot.lean): snapshot_hides_pool (a pending write is never returned), snapshot_height_bound (nor a write confirmed above the snapshot height), walkBack_skip, applyKOut_curVer, and snapshot_unaffected_by_later_write: a later write of the key - pending or confirmed above the snapshot height, overwrite / delete / re-create - leaves every snapshot answer unchanged (the inductive step of the property). PARTIAL: the closing induction over whole histories (snapshot at B == live read when B was tip) is decided on the implementation: for every main-chain block B up to the tip and every key, CreateSnapshot(B).Get / CreateXMSnapshotReader(B).Get / GetTipXMSnapshotReader().Get are compared with what the live reader answered when B was the tip (recorded then) and with the spec fold of genesis..B, with pending writes on top.",
        design_ref='DESIGN.md §6 C18', note=_NOTE + "The snapshot model is not yet part of the line-protocol driver (the oracle compares with recorded live reads instead).",
        technique='Lean 4 proof about the version-chain walk + recorded-live-read oracle on the real snapshot readers'),
}

HOOK_COMMITS = ['9cb7709', 'e088484', '8c92a5d']
