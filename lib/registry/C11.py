from common import *

PROPS = {
    'C11': dict(
        engine='acl', driver='acl', stateful=False,
        lean=['XV.Props.C11'],
        level='proof',
        timeout={'quick': 600, 'thorough': 3000},
        trusted_base=[KERNEL, HARNESS,
                      "modelled by hand (tied by exhaustive correspondence, not by translation): buildPermTree as the trie of the signer URIs and validatePermTree as recursion over it (lean/XV/Model/Acl.lean, the model the theorems are about), ThresholdValidator, AKSetsValidator, the loop of verifyRWSetPermission; a second, literal model (array of nodes, FindChild, Terminal flag, BFS list, backwards traversal with stored statuses; lean/XV/Model/AclTree.lean) is evaluated by the driver on every op line and must agree with the trie model (answer model-split otherwise) - that agreement is checked on every executed case, not proved",
                      "signature verification (IdentifyAK / VerifySign) is not modelled: the last component of every URI is taken as verified, which is what verifySignatures establishes before the ACL is consulted (C07)"],
        assumptions=["names are non-empty and the stored ACLs passed validACL (permission model present, rule SIGN_THRESHOLD or SIGN_AKSET); an empty name or an unknown rule makes the real evaluation return an error, i.e. reject",
                     "AksWeight is a Go map: the member names of a threshold rule are pairwise distinct (hypotheses RuleWF / EnvWF of the theorems)",
                     "weights and thresholds are dyadic (multiples of 1/4 in the harness) so float64 summation is exact; summation order for other weights is not modelled",
                     "a name without stored ACL is open (GetAccountACL returns nil: 'empty ACL means everyone could pass'); this is the documented behaviour of the code and part of the specification, so a rule that lists a non-existent account is satisfied by any URI delegating through that name",
                     "verifyRWSetPermission is modelled for transactions that carry contract requests (without requests it passes directly; verifyTxRWSets then rejects any extended output); the confirmed XCContract2Account table is an input (owner map); the harness uses one fixed confirmed owner table written into a real ledger + xmodel",
                     "IdentifyAccount on a root name that is an address (not an account) returns true without evaluating anything (unchanged behaviour, outside the property)"],
    ),
}

ENGINES = [
    dict(name='acl', path='go/cmd/acl + lean/XV/Model/Acl.lean + lean/XV/Model/AclTree.lean', serves_properties=['C11'],
         kind_free_text='Lean model of the permission trie, validatePermTree, the two validators and the verifyRWSetPermission loop; harness drives the real IdentifyAccount / CheckContractMethodPerm with a fake ACL manager and the real State.verifyRWSetPermission (fresh ledger, confirmed owner table) through an export shim'),
]

META = {
    'C11': dict(
        text="Kernel-checked theorems (lean/XV/Props/C11.lean, lemmas in lean/XV/Lemmas/Acl.lean) about the model of IdentifyAccount / CheckContractMethodPerm after the repair 'a key inside a signer uri counts only as its last component' (repo commit b704358): eval_eq_spec / eval_eq_spec_method - for every rule environment with distinct member names, every URI list and every nesting bound the evaluation accepts exactly when sat holds (sum of the weights of the members that are verified >= threshold, or a listed non-empty key set consists of verified names), where a key is verified iff some URI ends with it at that level and a nested account iff a URI delegates through it and its own rule is satisfied below; eval_flat_threshold / eval_flat_sets (the same spelled out for rules over keys); eval_monotone(_method) for non-negative weights (eval_monotone_needs_nonneg: the hypothesis is necessary); dup_irrelevant(_method) and repeated_uri_irrelevant (the result depends only on the SET of URIs); outsiders_irrelevant (URIs of other accounts), nonmember_irrelevant, nonterminal_key_irrelevant (the statement the code violated before the repair: v0_counts_nonterminal_key, v0_violates_spec, repaired_rejects_nonterminal_key); acl_change_needs_owner (verifyRWSetPermission accepts a write to XCAccount/<A>, XCContract/<c>.<m> or XCContract2Account only if the rule in force of the owning account is satisfied by AuthRequire, or the owner was already identified with the same AuthRequire). Nothing is partial. Tie: exhaustive small-universe correspondence (every rule pair x all URI multisets of size <= 4 over a 14-URI alphabet, 76 million cases in the thorough tier) of the real code with the model, with a literal tree/BFS model, and with an independent Go oracle of sat; random larger cases; the real State.verifyRWSetPermission on a real ledger.",
        design_ref='DESIGN.md §6 C11',
        note="Trusted: Lean kernel, the harness. The pointer tree and the reverse-BFS order of validatePermTree are abstracted as recursion over URI prefixes; a literal tree model is cross-checked on every executed case but its equivalence with the trie model is not proved. Signature verification itself belongs to C07. Not covered: float64 summation order for non-dyadic weights; error paths for malformed ACLs / empty names; end-to-end State.VerifyTx (only verifyRWSetPermission is driven on a real State).",
        technique='Lean 4 proof over a hand model of the permission trie and validators; exhaustive small-universe differential correspondence with the real code; independent Go oracle of the specification',
    ),
}

HOOK_COMMITS = ['a9c0950 verif hook: export verifyRWSetPermission and an unverified xmodel write for the verification harness (build tag verif)']
