from common import *

PROPS = {
    'C11': dict(
        engine='acl', driver='acl', stateful=False,
        lean=['XV.Props.C11'],
        level='proof',
        timeout={'quick': 600, 'thorough': 3000},
        trusted_base=[KERNEL, HARNESS,
                      "modelled by hand (tied by exhaustive correspondence, not by translation): buildPermTree as the trie of the signer URIs, validatePermTree as recursion over it, ThresholdValidator, AKSetsValidator, the loop of verifyRWSetPermission",
                      "signature verification (IdentifyAK / VerifySign) is not modelled: the last component of every URI is taken as verified, which is what verifySignatures establishes before the ACL is consulted"],
        assumptions=["names are non-empty and the stored ACLs passed validACL (permission model present, rule SIGN_THRESHOLD or SIGN_AKSET); an empty name or an unknown rule makes the real evaluation return an error, i.e. reject",
                     "AksWeight is a map: the member names of a threshold rule are pairwise distinct (hypothesis RuleWF / EnvWF of the theorems)",
                     "weights and thresholds are dyadic (multiples of 1/4 in the harness) so float64 summation is exact; summation order for other weights is not modelled",
                     "a name without stored ACL is open (GetAccountACL returns nil: 'empty ACL means everyone could pass'); this is the documented behaviour and part of the specification",
                     "verifyRWSetPermission: the confirmed XCContract2Account entry is an input (owner map); the harness covers the contract bucket only for contracts without a confirmed owner entry (reject)"],
    ),
}

ENGINES = [
    dict(name='acl', path='go/cmd/acl + lean/XV/Model/Acl.lean', serves_properties=['C11'],
         kind_free_text='Lean model of the permission trie, validatePermTree, the two validators and the verifyRWSetPermission loop; harness drives the real IdentifyAccount / CheckContractMethodPerm with a fake ACL manager and State.verifyRWSetPermission through an export shim'),
]

META = {
    'C11': dict(
        text="Kernel-checked theorems (lean/XV/Props/C11.lean) about the model of IdentifyAccount / CheckContractMethodPerm after the repair 'a key inside a signer uri counts only as its last component': eval_eq_spec / eval_eq_spec_method (for every rule environment with distinct member names, every nesting bound and every URI list the evaluation accepts exactly when sat holds for the set of verified names: a key counts iff some URI ends with it at that level, a nested account iff a URI delegates through it and its own rule is satisfied below), eval_monotone (non-negative weights), dup_irrelevant (depends only on the set of URIs), outsiders_irrelevant (URIs of other accounts, non-members), nonterminal_key_irrelevant, acl_change_needs_owner (verifyRWSetPermission accepts a write to XCAccount/<A>, XCContract/<c>.<m> or XCContract2Account only if the owning account's confirmed rule is satisfied by AuthRequire). Tie: exhaustive small-universe correspondence of the real code with the model and with an independent Go oracle of sat.",
        design_ref='DESIGN.md §6 C11',
        note="Trusted: Lean kernel, the harness. The pointer tree and the reverse-BFS order of validatePermTree are abstracted as recursion over URI prefixes (tied by correspondence on every multiset of the small universe). Signature verification itself belongs to C07. Not covered: float64 summation order for non-dyadic weights; error paths for malformed ACLs / empty names.",
        technique='Lean 4 proof over a hand model of the permission trie and validators; exhaustive small-universe differential correspondence with the real code; independent Go oracle of the specification',
    ),
}

HOOK_COMMITS = []
