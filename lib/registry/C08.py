from common import *

PROPS = {
    'C08': dict(
        engine='enc', driver='enc', stateful=False,
        lean=['XV.Props.C08'],
        level='proof',
        timeout={'quick': 600, 'thorough': 3000},
        trusted_base=[KERNEL, TRANSLATOR, HARNESS,
                      "SHA-256, ECDSA, key parsing and address derivation (xuperchain/crypto) are not modelled: they are parameters of the Lean model (H, keyOf, addrOk, verify) and run for real in the harness; the Lean driver runs the same decision logic with a symbolic injective hash and symbolic keys",
                      "modelled by hand, tied by correspondence: MakeMerkleTree/getLeafSize (whole array compared for n=0..300, leaf size for every n up to 1024/4096), Ledger.VerifyBlock and formatBlock decision logic (every mutation op line compared); translated from source: the sequence of write calls of MakeBlockID/encodeFailedTxs/encodeJustify (Gen.blockIdSchema, theorem gen_schema_is_model), whose Go-side interpreter must reproduce ledger.MakeBlockID on every generated header and whose bytes must equal the Lean pre-image"],
        assumptions=["no hash collision among the inputs actually hashed in the two computations compared (stated per theorem as NoCollisionOn; never global injectivity)",
                     "H has the width of a txid (32 bytes) — used only to align leaf boundaries",
                     "an address is the hash of one public key (addrOk a k and addrOk a k' imply k = k'); a signature made with another key does not verify (no forgery) — hypotheses of resign_rejected / reid_rejected",
                     "int32/int64 header fields are within the range of their Go type",
                     "storage is modelled only as far as queryBlock's listing of the body from the stored tree (storedBody); the rest of ConfirmBlock / the tables is C04"],
    ),
}

ENGINES = [
    dict(name='enc', path='go/cmd/enc + go/extract/reg_enc.go + lean/XV/Model/{Merkle,EncTypes,Schema,SigLogic}.lean', serves_properties=['C08', 'C07'],
         kind_free_text='encoder schemas extracted from MakeBlockID, txDigestHashV2, encodeTxData and the protobuf field lists (go/ast) with a Go-side interpreter checked against the real hash; Lean model of the merkle tree, the id pre-image and the VerifyBlock decision logic; mutation harness on the real Ledger.VerifyBlock with real keys; codec model of the v3 tx digest/id and decision model of the signature checks; schema-walking mutation harness on the real State.VerifyTx'),
]

META = {
    'C08': dict(
        text="Kernel-checked theorems (lean/XV/Props/C08.lean): merkle_binds (lists of equal length and hash-width leaves with the same root are equal unless the two tree computations contain a hash collision; merkle_needs_equal_length / merkle_needs_equal_width show both side conditions are necessary), merkle_leafsize (padding = next power of two for every n>=1), gen_schema_is_model + blockid_covers + blockid_fields_classified (the write sequence regenerated from MakeBlockID is the modelled one, names every field the property lists, and every InternalBlock field is classified hashed/unhashed; all by decide over Gen), single_field_mutation_changes_preimage (+ per-field instances; two_field_shift_collides refutes full injectivity of the undelimited concatenation), verify_binds_body and same_id_same_body (any other body is rejected; the count in the id discharges the equal-length hypothesis), header_mutation_rejected, reid_rejected, resign_rejected, formatted_verifies (n>=1, non-empty PreHash), accept_implies_bound; the merkle tree carried in the message is part of the model: carried_tree_unhashed (outside the id, hence outside the signature), carried_tree_bound / carried_tree_tamper_rejected (a block passes only if the array it carries is the tree of its body; any rewriting of it alone is rejected), merkleTree_leaves + stored_body_is_verified_body (the body queryBlock lists from the stored tree is exactly the verified ordered transaction list), verify_binds_body_whatever_tree (replacing the body AND rewriting the carried tree in any way is rejected like the body change alone), formatted_carries_its_tree; as found the statement was false: stored_body_is_verified_body_as_found_counterexample, carried_tree_ignored_as_found. All full strength w.r.t. the model of the repaired code (three fix: commits in VerifyMerkle: count, txid width, carried tree). Tie: schema regenerated every run and interpreted in Go against ledger.MakeBlockID; Lean pre-image = interpreter bytes; whole MakeMerkleTree array for n<=300; every single mutation of node-formatted blocks through the real Ledger.VerifyBlock and the Lean verifyBlock, each body mutation also as a coordinated tamper with the carried tree (leaves rewritten to the new txids with inner nodes and root kept; the k lowest levels recomputed and everything above kept; every node below the root recomputed and the signed root put back), the carried tree alone (leaves swapped, doubled, altered, tree dropped), and stored=1 lines: a (mutated) block that passes on the tip of a second ledger is confirmed and read back from storage the way state.Walk does (FindUndoAndTodoBlocks); the served body must be the verified one.",
        design_ref='DESIGN.md §6 C08',
        note="Trusted: Lean kernel, go/extract, the harness. SHA-256/ECDSA/address derivation are abstract in the model (explicit hypotheses: no collision among the hashed inputs, one key per address, no forgery). Observations, not violations (printed in evidence notes): Height, FailedTxs keys and TargetBits <= 0 are outside the id (the carried MerkleTree is outside the id too, but since fix 29e758b it is checked against the body); two-field boundary shifts of neighbouring variable-length fields keep the id; VerifyBlock does not look at transaction content (txid recomputation is C07) nor at the proposer's entitlement (C16); a formatted block with 0 transactions or empty PreHash does not verify. Not covered: consensus CheckMinerMatch wrappers.",
        technique='Lean 4 proof over a hand model + schema regenerated from source by go/ast; differential correspondence and single-mutation and coordinated body+carried-tree mutation harness on the real VerifyBlock',
    ),
}

HOOK_COMMITS = []
