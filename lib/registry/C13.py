from common import *

PROPS = {
    'C13': dict(
        engine='pool', driver='pool', stateful=True,
        lean=['XV.Props.C13'],
        level='proof',
        timeout={'quick': 600, 'thorough': 3000},
        trusted_base=[KERNEL, HARNESS,
                      "modelled by hand (tied by correspondence, not by translation): Tx.SortUnconfirmedTx, TopSortDFS, and the L1 admission / application rules of XV.Model.Chain",
                      "signatures, contract re-execution and block hashing are run for real in the harness and are outside the model"],
        assumptions=["transaction ids are collision-free hashes: pending transactions have pairwise distinct ids and no output / key version carrying the id of a pending transaction exists before it is applied",
                     "Go's map iteration order is arbitrary: the model quantifies over every iteration order (a superset of what the runtime produces)"],
    ),
}

ENGINES = [
    dict(name='pool', path='go/cmd/pool + lean/XV/Model/Pool.lean', serves_properties=['C13'],
         kind_free_text='Lean model of SortUnconfirmedTx + TopSortDFS (iteration order explicit) over the L1 chain model; harness runs a real producer node (real packBlock) and a real replica node in-process'),
]

META = {
    'C13': dict(
        text="TBD",
        design_ref='DESIGN.md §6 C13',
        note="TBD",
        technique='Lean 4 proof over a hand model of the pool graph and TopSortDFS with explicit iteration order + commutation of independent admissions in the L1 chain model; differential correspondence and replica replay of enumerated orders on real nodes',
    ),
}

HOOK_COMMITS = []
