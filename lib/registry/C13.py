from common import *

PROPS = {
    'C13': dict(
        engine='pool', driver='pool', stateful=True,
        lean=['XV.Props.C13'],
        level='proof',
        timeout={'quick': 600, 'thorough': 3000},
        trusted_base=[KERNEL, HARNESS,
                      "modelled by hand (tied by correspondence, not by translation): Tx.SortUnconfirmedTx, TopSortDFS, and the L1 admission / application rules of XV.Model.Chain",
                      "signatures, contract re-execution and block hashing are run for real in the harness and are outside the model"],
        assumptions=["transaction ids are collision-free hashes: pending transactions have pairwise distinct ids and no output / key version carrying the id of a pending transaction exists before it is applied",
                     "Go's map iteration order is arbitrary: the model quantifies over every iteration order (a superset of what the runtime produces)"],
    ),
}

ENGINES = [
    dict(name='pool', path='go/cmd/pool + lean/XV/Model/Pool.lean', serves_properties=['C13'],
         kind_free_text='Lean model of SortUnconfirmedTx + TopSortDFS (iteration order explicit) over the L1 chain model; harness runs a real producer node (real packBlock) and a real replica node in-process'),
]

META = {
    'C13': dict(
        text="Kernel-checked theorems (lean/XV/Props/C13.lean) about a model of Tx.SortUnconfirmedTx + TopSortDFS in which Go's map iteration order is an explicit argument, over the L1 chain model (admitTx/applyTx): (1) order_respects_deps: every order TopSortDFS returns, for ALL graphs and ALL iteration orders, lists each node exactly once and puts u before v for every edge (proved about the algorithm itself: component split, DFS with temporary/permanent marks, result filled from the back; no acyclicity hypothesis), acyclic_is_sorted / cyclic_is_refused: the cycle flag is exact and the recursion bound of the model suffices; (2) graph_has_dep_edges, graph_has_antidep_edges, graph_edges_complete, graph_edges_sound, graph_nodes: the graph consists exactly of the producer->consumer edges (token and key inputs) and the reader->overwriter edges; (3) swap_independent (two adjacent independent admissions commute: both admissible in the other order, same U/ZU/ZD lookups and total) and the headline replayable: a pool admitted one by one in some order is admissible one by one from the same start state, with the same final tables, in ANY order that respects the edges; admitted_order_respects_edges, admitted_pool_unique_writers, admitted_pool_is_sorted: the admission order is itself a topological order, so the graph of a consistent pool is acyclic, has one overwriter per version, and GetUnconfirmedTx always yields an order; pool_order_replayable: every order the pool can yield (any iteration orders) is replayable to the producer's tables; block_replayable: also with the award applied first by the replica and last by the producer; prefix_admissible (size limit); (4) prefix_counterexample: for the graph before repair eb76c54 (no reader->overwriter edges) the order (W,R) is possible and not admissible. Tie: the same op lines go through two real in-process nodes and the Lean driver: the graph of SortUnconfirmedTx (hook VerifPoolGraph), membership of orders, replay of forced orders on a replica copy (accept/reject/tables), the real TopSortDFS on random graphs (cycle flag, component sizes). Impl-side oracle: >=40 GetUnconfirmedTx samples per pool and the real packBlock output (VerifPackBlock) must respect every dependency and anti-dependency computed by the harness from what the transactions declare; every order the implementation's graph allows (all of them for small pools) and the packed block are formatted as producer blocks (award first, one coinbase, award = configured amount) and handed to a node that never saw the transactions: IsValidTx, VerifyBlock, ConfirmBlock, Walk must succeed and balances, U table, key values+versions and total must equal the producer's (after ConfirmBlock + PlayForMiner for the packed block; pending state + award + fees for forced orders).",
        design_ref='DESIGN.md §6 C13',
        note="Trusted: Lean kernel, the harness (id abstraction, canonicaliser, its own dependency relation), the hand model of SortUnconfirmedTx/TopSortDFS and of L1 admission (tied by correspondence on every run, not translated). Idealisation used as hypotheses: transaction ids are hashes - pairwise distinct, and no output / key version carrying a pending id exists before that transaction is applied (FreshU/FreshV). Not proved in Lean (harness oracle only): the fee layer of a block (payFee rows), signatures, contract re-execution, block hashing/merkle, the timer transaction with tasks (without tasks it is generated and omitted, which the harness exercises), award decay (float). The model's set of possible orders over-approximates Go's runtime (all permutations as iteration orders).",
        technique='Lean 4 proof over a hand model of the pool graph and TopSortDFS with explicit iteration order + commutation of independent admissions in the L1 chain model; differential correspondence and replica replay of enumerated orders on real nodes',
    ),
}

HOOK_COMMITS = ['44d6a7a verif hook: VerifPoolGraph exposes the pool\'s dependency graph (Tx.SortUnconfirmedTx) to the verification harness (build tag verif)',
                '8c92a5d verif hook: export Miner.packBlock as VerifPackBlock (build tag verif)',
                '9cb7709 verif hook: signal completion of the pending-transaction replay started by State.Walk (build tag verif)']
