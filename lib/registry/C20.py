from common import *

PROPS = {
    'C20': dict(
        engine='p2p', driver='p2p', stateful=True,
        lean=['XV.Props.C20'],
        level='proof',
        timeout={'quick': 600, 'thorough': 3000},
        trusted_base=[KERNEL, TRANSLATOR, HARNESS,
                      "modelled, not verified: protobuf marshalling of the payload and snappy (abstract codec with the two inverse laws as hypotheses of roundtrip; the harness runs the real proto.Marshal/Unmarshal and snappy on every generated message), hash/crc32 (the bit-serial Lean CRC-32 is compared with it on every run), the double SHA-256 of MessageKey (assumed injective), go-cache (a key is present until its expiry time), Go's sync primitives and memory model"],
        assumptions=["unmarshal (marshal a) = a and decompress (compress b) = b for the payload codec (protobuf, snappy)",
                     "the de-duplication cache is modelled on a logical millisecond clock (3000 ms window); the harness checks it against the real wall-clock cache with ticks of 1.2 s / 3.4 s",
                     "concurrency: the lock discipline of the subscriber table is established lexically (every access to d.mc lies between mu.Lock/RLock and its release, regenerated from dispatcher.go on every run) by a concurrent stress run, and by deterministic interleavings of a Register / UnRegister started from inside a Dispatch's walk over the subscribers (op dmut; model side dispatch_mutation_in_flight: in either order every other subscriber's target count is unchanged); the Go scheduler and memory model themselves are not modelled"],
    ),
}

ENGINES = [
    dict(name='p2p', path='go/cmd/p2p + lean/XV/Model/{Crc32,Msg,Dispatch}.lean + go/extract/reg_p2p.go', serves_properties=['C20'],
         kind_free_text='Lean models of CRC-32/IEEE, NewMessage/Unmarshal/VerifyChecksum/GetRespMessageType and the dispatcher; the harness drives the real p2p package in-process (round trips through the real proto wire, exhaustive bit flips / bursts, recording subscribers, real 3 s de-duplication window, concurrent stress in a child process)'),
]

META = {
    'C20': dict(
        text="Kernel-checked theorems (lean/XV/Props/C20.lean). CRC-32/IEEE as a bit-serial register machine: the update is GF(2)-linear (crc_linear), the zero-bit step has an explicit inverse (zero_step_inverse, zero_step_injective), a non-zero burst of at most 32 bits leaves a non-zero register (burst_state_nonzero), hence for every payload of every length and every error pattern confined to at most 32 consecutive bits at any position the checksum changes (crc_detects_bursts, byte-level crc32_detects_bursts, single-bit case crc_detects_single_bit_flip). Messages: unmarshal (wire (newMessage ...)) returns the payload for every type, option list and payload including the empty one (roundtrip, roundtrip_inproc), a failed checksum is reported before anything is decompressed or decoded (corruption_detected) and every burst-corrupted message fails it (burst_corruption_rejected); GetRespMessageType maps every request to its _RES type (resp_type_map) on the table regenerated from message.go and network.pb.go. Dispatcher: over all histories of Register/UnRegister/Dispatch/tick the delivered list is duplicate-free and is exactly the registered subscribers of the type whose filters match (table_exact, types_exact, dispatch_exact, dispatch_rejects), repeats inside the window are dropped and repeats after it delivered again (repeat_dropped, repeat_redelivered), the de-duplication key regenerated from MessageKey is injective so only repeats of the very same message are ever dropped (msgKey_injective, dedup_only_repeats), every access to the subscriber table happens under the mutex (mc_accesses_locked, regenerated from dispatcher.go). Tie: tables and lock facts are regenerated from source on every run; every op line is executed on the real p2p package and on the Lean model and the answers diffed.",
        design_ref='DESIGN.md §6 C20',
        note="Trusted: Lean kernel, the extractor, the harness. protobuf, snappy, hash/crc32, SHA-256, go-cache and Go's sync/memory model are not verified (protobuf/snappy enter as hypotheses; hash/crc32 and go-cache are compared with the model on every run). Partial by nature: the runtime crash of an unsynchronised map access and the wall-clock window are outside the model (logical clock; lexical lock-discipline fact + stress run instead).",
        technique='Lean 4 proofs (CRC-32 burst detection by linear algebra over GF(2) on BitVec 32; message codec; dispatcher state machine) + tables/lock facts extracted by go/ast + differential correspondence and impl-side oracle on the real p2p package',
    ),
}

HOOK_COMMITS = []  # no hooks needed: the p2p package is driven through its exported API
