from common import *

PROPS = {
    'C10': dict(
        engine='sandbox', driver='sandbox', stateful=True,
        lean=['XV.Props.C10'],
        level='proof',
        timeout={'quick': 600, 'thorough': 2400},
        trusted_base=[KERNEL, HARNESS,
                      "modelled by hand (tied by correspondence, not by translation): XMCache.Get/Put/Del/Select, the iterator stack of iterator.go, MemXModel, XMReaderFromRWSet",
                      "the XModel-like backing reader of the harness (Get falls back to the delete table, then to an empty-version entry; Select iterates live keys, never errors) stands in for bcs/ledger/xledger/state/xmodel.XModel, which needs a ledger"],
        assumptions=["bucket names contain no '/' (contract names cannot), so raw keys of different buckets never interleave",
                     "keys are non-empty byte strings (compareBytes treats a nil key as +infinity)",
                     "a Select is consumed (n calls of Next, then Close) before the next sandbox call, as the bridge's NewIterator syscall does",
                     "the backing reader is consistent: Select iterates keys in order and Get returns the same entry for an iterated key; a key Get finds but Select does not iterate carries a delete mark or an empty version",
                     "the backing state does not change during one execution"],
    ),
}

ENGINES = [
    dict(name='sandbox', path='go/cmd/sandbox + lean/XV/Model/Sandbox.lean', serves_properties=['C10'],
         kind_free_text='Lean model of XMCache (Get/Put/Del, the Select iterator stack with look-ahead and read-set recording, RW set, reader from RW set); harness drives the real XMCache over MemXModel and over an XModel-like reader, re-runs every program over XMReaderFromRWSet'),
]

META = {
    'C10': dict(
        text="TODO",
        design_ref='DESIGN.md §6 C10',
        note="TODO",
        technique='Lean 4 proof over a hand model of the iterator stack; exhaustive small-universe + random differential correspondence with the real XMCache; impl-side oracle from a shadow map and a re-run over the read set',
    ),
}

HOOK_COMMITS = []
