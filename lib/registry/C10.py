from common import *

PROPS = {
    'C10': dict(
        engine='sandbox', driver='sandbox', stateful=True,
        lean=['XV.Props.C10'],
        level='proof',
        timeout={'quick': 600, 'thorough': 2400},
        trusted_base=[KERNEL, HARNESS,
                      "modelled by hand (tied by correspondence, not by translation): XMCache.Get/Put/Del/Select, the iterator stack of iterator.go, MemXModel, XMReaderFromRWSet",
                      "the XModel-like backing reader of the harness (Get falls back to the delete table, then to an empty-version entry; Select iterates live keys, never errors) stands in for bcs/ledger/xledger/state/xmodel.XModel, which needs a ledger"],
        assumptions=["bucket names contain no '/' (contract names cannot), so raw keys of different buckets never interleave",
                     "keys are non-empty byte strings (compareBytes treats a nil key as +infinity)",
                     "a Select is consumed (n calls of Next, then Close) before the next sandbox call, as the bridge's NewIterator syscall does",
                     "the backing reader is consistent: Select iterates keys in order and Get returns the same entry for an iterated key; a key Get finds but Select does not iterate carries a delete mark or an empty version",
                     "the backing state does not change during one execution"],
    ),
}

ENGINES = [
    dict(name='sandbox', path='go/cmd/sandbox + lean/XV/Model/Sandbox.lean', serves_properties=['C10'],
         kind_free_text='Lean model of XMCache (Get/Put/Del, the Select iterator stack with look-ahead and read-set recording, RW set, reader from RW set); harness drives the real XMCache over MemXModel and over an XModel-like reader, re-runs every program over XMReaderFromRWSet'),
]

META = {
    'C10': dict(
        text="Kernel-checked theorems (lean/XV/Props/C10.lean) about an executable model of XMCache whose Select is the iterator stack of the code (peek look-aheads, front-priority merge, strip layers, read-set recording on every backend pull), for every program of Get/Put/Del/Select(bounds, early stop) from the empty sandbox over every consistent reader: wset_final (write set = latest write per key), read_your_writes, rset_sound (read-set entries are the reader's entries with their versions; a Get that falls through is recorded), wset_subset_rset (+ _partial/_counterexample: over MemXModel a missing key is not recorded), select_exact (n calls of Next yield the first n entries of the sorted list of exactly the live keys of the range), select_early_stop_rset (every backend entry up to the last consumed key is in the read set or shadowed by an own write; whole range if the scan ended), replay_deterministic (the same program over XMReaderFromRWSet gives the same results and write set). The full statements are refuted for the pre-repair strip configuration (select_exact_orig_counterexample, replay_deterministic_orig_counterexample). Tie: every op line is run on the real XMCache (over MemXModel and over an XModel-like reader) and on the model; results, read-set size after every scan, final RW sets and the verdict of the re-run are diffed; impl-side oracle = shadow map (read-your-writes, exact scans, read/write-set obligations) + re-run over XMReaderFromRWSet.",
        design_ref='DESIGN.md §6 C10',
        note="Three genuine defects were repaired in the repository (fix: commits c0493d7, d0c6142, 0f2e81e) and the model follows the repaired code. Trusted: Lean kernel, the harness and its XModel-like reader. Not covered: the real XModel iterator (XModel.Select with a nil end key builds the limit bucket/ and iterates nothing - to be decided by the chain engine), Transfer/UTXO sandbox and Flush, interleaving other sandbox calls with a half-consumed iterator, nil/empty keys.",
        technique='Lean 4 proof over a hand model of the iterator stack; exhaustive small-universe + random differential correspondence with the real XMCache; impl-side oracle from a shadow map and a re-run over the read set',
    ),
}

HOOK_COMMITS = []
