from common import *

PROPS = {
    'C16': dict(
        engine='sched', driver='sched', stateful=False,
        lean=['XV.Props.C16', 'XV.Props.C16Pow', 'XV.Props.C16Fork', 'XV.Props.C16Plug', 'XV.Props.C16Elect'],
        level='proof',
        timeout={'quick': 600, 'thorough': 3000},
        trusted_base=[KERNEL, TRANSLATOR, HARNESS, CRYPTO,
                      "translated from source on every run: tdposSchedule.minerScheduling, xpoaSchedule.minerScheduling; modelled by hand (tied by correspondence): GetCompact/SetCompact/IsProofed/refreshDifficulty and the decision logic of the four CheckMinerMatch"],
        assumptions=["tdpos configuration is well formed as the source comment demands: period > 0, blockNum >= 1, proposerNum >= 1, alternateInterval >= period, termInterval >= alternateInterval, 0 <= initTimestamp <= timestamp (excluded configurations are run against the real code and summarised in the evidence)",
                     "no int64 / int32 overflow (timestamps, heights and time spans are far below 2^62 / 2^31)",
                     "chained-bft is switched off in tdpos/xpoa (the certificate check of the bft variants is property C14)",
                     "the validator list handed to the decision is the one the plugin computes for the block (init list, or contract snapshot for xpoa); vote-based re-election of tdpos validators is not driven",
                     "ECDSA verification and address derivation are run for real in the harness and abstracted to booleans in the model"],
    ),
}

ENGINES = [
    dict(name='sched', path='go/cmd/sched + lean/XV/Model/Sched.lean + lean/XV/Model/Pow.lean', serves_properties=['C16'],
         kind_free_text='theorems about the slot-schedule functions regenerated from tdpos/xpoa schedule.go; Lean model of the pow compact codec, retarget rule and of the four CheckMinerMatch decisions; harness drives the real plugins through their public constructors on a stub ledger'),
]

META = {
    'C16': dict(
        text="Kernel-checked theorems (lean/XV/Props/C16.lean, C16Pow.lean). Schedule, about the definitions regenerated from bcs/consensus/{tdpos,xpoa}/schedule.go on every run, for every well-formed configuration and every timestamp from the start time on: sched_range / xp_range (term>=1, 0<=pos<proposerNum, -1<=blockPos<blockNum; xpoa 1<=blockPos<=blockNum); sched_slot_iff / xp_slot_iff (the timestamps mapped to (term t, proposer p, slot k) are exactly an explicit millisecond interval [slotLo,slotHi)); sched_slot_length (one period; tdpos slot 0: period-1 ms), sched_slots_consecutive, sched_turns_ordered, xp_slots_tile (intervals adjacent / ordered, hence disjoint), sched_turn_iff (each validator owns one contiguous run of blockNum slots per term), sched_lex_monotone / xp_lex_monotone. Full tiling 'every slot is scheduled' is refuted for period = 1 ms (sched_tiles_counterexample: slot 0 is empty) and proved under 2 <= period (sched_tiles_partial); xpoa: xp_slot_nonempty. Acceptance: tdpos_accept_iff_entitled, tdpos_at_most_one_producer, xpoa_accept_iff_entitled, xpoa_rejects_unknown, single_accepts_only_miner, pow_accept_sound / pow_accept_hash_le_target (prescribed bits, hash <= target, target legal, timestamp >= parent's, id, signature). PoW arithmetic: proofed_iff, target_formula, setCompact_monotone, compact_roundtrip (all canonical encodings, sizes 0..255), clampSpan_bounds, retarget_clamped (new <= 4*old and exact lower bound), refresh_retarget (the retarget step of refreshDifficulty is exactly that scaled, clamped, floored quantity); the quarter bound is refuted when 4 does not divide the expected span (retarget_quarter_counterexample) and proved when it does (retarget_quarter_partial). Tie: translator + exhaustive run-length correspondence of every millisecond of three terms over the configuration box; differential correspondence of the compact codec (boundaries + 2^20 / 2^24 samples) and of all four CheckMinerMatch on the real plugins (stub ledger, real keys).",
        design_ref='DESIGN.md §6 C16',
        note="Trusted: Lean kernel, the go/ast translator (validated exhaustively against the real functions through export shims), the harness and its stub ledger. Two defects repaired (tdpos accepted blocks stamped before the start time; xpoa accepted an empty proposer when no validator set is computable). Not covered: chained-bft variants, tdpos vote-based validator re-election, int64 overflow.",
        technique='Lean 4 proof over translated schedule functions + hand model of PoW arithmetic and acceptance decisions; exhaustive / random differential correspondence on the real plugins',
    ),
}

HOOK_COMMITS = [
    'f3d50a7',  # bcs/consensus/tdpos/export_verif.go: VerifMinerScheduling (build tag verif)
    '9e7b142',  # bcs/consensus/xpoa/export_verif.go: VerifMinerScheduling (build tag verif)
]
