from common import *

PROPS = {
    'C19': dict(
        engine='gov', driver='gov', stateful=True,
        lean=['XV.Props.C19'],
        level='proof',
        timeout={'quick': 600, 'thorough': 3000},
        trusted_base=[KERNEL, HARNESS,
                      "modelled by hand (tied by correspondence on every call, not by translation): InitGovernTokens, TransferGovernTokens, LockGovernTokens, UnLockGovernTokens, Propose, Vote, Thaw, CheckVoteResult, Trigger, unlockGovernTokensForProposal, timer Add/Do",
                      "big.Int arithmetic and encoding/json of the balance records are run for real in the harness and abstracted to Int / records in the model"],
        assumptions=["contract buckets are only written by the modelled kernel methods (no other contract writes the governToken / proposal / timer buckets)",
                     "a failed top-level call commits nothing (transaction semantics of the chain); nested calls whose error the caller ignores wrote nothing before failing (true of UnLock, CheckVoteResult, Trigger as written)",
                     "the trigger target of a proposal does not itself write the governToken bucket",
                     "stop_vote_height >= 1 (timer tasks added while $timer_task.Do iterates a height are for another height)",
                     "amounts fit the big.Int/Int abstraction (no overflow exists in either)"],
    ),
}

ENGINES = [
    dict(name='gov', path='go/cmd/gov + lean/XV/Model/GovToken.lean', serves_properties=['C19'],
         kind_free_text='Lean model of the governance-token, proposal and timer kernel contracts; harness drives the real kernel methods (registered by the real managers) through the real contract manager / bridge / sandbox over an in-memory XModel, with callers $proposal, $tdpos, $xpos, outsiders'),
]

META = {
    'C19': dict(
        text="Kernel-checked theorems (lean/XV/Props/C19.lean) about the model of the repaired $govern_token contract and the $proposal/$timer_task contracts that lock tokens, for every genesis predistribution (duplicates allowed) and every history of Init/Transfer/Lock/UnLock by any caller/Propose/Vote/Thaw/timer callbacks with arbitrary integer amounts: once initialised the recorded total supply equals the sum of all balances and equals the sum of the genesis quotas (supply_conserved, supply_fixed_at_init, no_balance_before_init); a transfer moves exactly n and touches no lock, a self transfer is neutral (transfer_moves_exactly, self_transfer_neutral); in every state a call changes locked(a,t) only if it is a Lock/UnLock on (a,t) by a permitted contract or the proposal contract acting for a (locks_only_by_lock_unlock, lock_exact, unlock_exact, proposal_calls_lock_exactly, timer_only_releases); a transfer succeeds only if total-locked >= amount for every lock type and leaves total >= locked (locks_bind); in every reachable state 0 <= locked <= total (locks_within_balance); Lock/UnLock/CheckVoteResult/Trigger do nothing for other callers (lock_restricted_callers, lock_invalid_type_rejected, callbacks_restricted). The pre-fix transfer is kept as transferLegacy with both statements refuted (legacy_*_counterexample). Tie: every call of exhaustive short histories and seeded random histories is executed on the real kernel methods through the real contract manager and on the model, answers and full bucket dumps are diffed; the impl-side oracle checks conservation, lock-change attribution, lock binding and 0<=locked<=total on the decoded store after every call.",
        design_ref='DESIGN.md §6 C19',
        note="Five genuine defects were repaired by fix: commits (receiver lock reset, self-transfer mint, unbounded/negative UnLock, negative Lock amount, duplicated genesis address over-counting totalSupply); the model is of the repaired code. Trusted: Lean kernel, the harness. Not covered: the tdpos nominate/vote/revoke contracts themselves (only their Lock/UnLock calls, reproduced by a forwarding contract named $tdpos/$xpos), the path through State.VerifyTx + DoTx (left to the chain engine), int64-sized fee accounting. Observation outside the property: unlockGovernTokensForProposal scans [lock_<pid>_, lock_<pid>_`) and therefore never releases the locks of accounts whose name starts with a byte >= 0x60 (lower-case letters); modelled faithfully (lockScanCovers), not a C19 violation.",
        technique='Lean 4 proof (invariant induction over call histories) + exhaustive/random differential correspondence of every call against the real kernel contracts',
    ),
}

HOOK_COMMITS = []
