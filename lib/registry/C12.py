from common import *

PROPS = {
    'C12': dict(
        engine='lock', driver='lock', stateful=True,
        lean=['XV.Props.C12'],
        level='proof',
        timeout={'quick': 600, 'thorough': 3000},
        # concurrent State.DoTx / GetBalance / SelectUtxos / Walk / Play / PlayForMiner on the REAL ledger + state machine at deterministic schedule points (go/cmd/chain, profile C12)
        extra=[dict(engine='chain', driver='chain', stateful=True, timeout={'quick': 1500, 'thorough': 6000})],
        trusted_base=[KERNEL, HARNESS, "go/lockproto (go/ast fact extractor for doTxSync's lock skeleton, ~150 lines): trusted to read the statements of doTxSync correctly",
                      "modelled by hand and tied by correspondence (label-for-label, on every enumerated schedule of the real code): SpinLock.TryLock/Unlock/ExtractLockKeys and the lock/critical-section/unlock skeleton of doTxSync",
                      "Go's sync.Mutex / sync.Map and memory model: a region executed under SpinLock.mu is one atomic step (the harness probes the real mutex at every yield point, so removing it splits the step and is seen)"],
        assumptions=["the lock keys of a request are pairwise distinct (ExtractLockKeys de-duplicates; checked by the correspondence on every thread line)",
                     "lock engine: the critical section is the harness's stand-in for doTxSync's check/apply/publish (a versioned key store); the REAL State.DoTx is driven at deterministic schedule points by the chain engine (second submission executed while the first is between applying and writing its batch; balance scan overlapping an admission; walkrace: a Walk / Play / PlayForMiner / DoTx started while another one is held at a yield point inside utxo.Mutex and seen waiting for the lock - outcome = one of the two one-at-a-time orders run by the real code on copies of the storage image, both orders answered by the Lean chain model) with the serialisable outcome computed by the Lean model (lockConflict of XV/Drv/Chain.lean)",
                     "preemption inside an atomic step, memory-model effects and wall-clock expiry of SelectUtxos locks are outside the model"],
    ),
}

ENGINES = [
    dict(name='lock', path='go/cmd/lock + lean/XV/Model/SpinLock.lean + lean/XV/Model/Sched.lean', serves_properties=['C12'],
         kind_free_text='Lean step system of SpinLock/doTxSync under arbitrary schedules; harness is a deterministic scheduler over goroutines running the real utxo.SpinLock through yield hooks'),
]

META = {
    'C12': dict(
        text="Kernel-checked theorems (lean/XV/Props/C12.lean) about the step system of the lock protocol (lean/XV/Model/SpinLock.lean: TryLock key by key with lookup+refcount as one atomic step per key, critical section cs.check / cs.apply / cs.publish, Unlock key by key with release+delete as one atomic step; lean/XV/Model/Sched.lean: run : Sys -> List ThreadId -> Sys), for EVERY schedule, any number of threads and any requests with pairwise distinct keys: mutex_inv (two threads inside their critical sections share a key only if both hold it shared; the table entry of every key of a thread inside exists), mutex_inv_holders (the same for every holder, also half-way through TryLock/Unlock), refcount_exact (count = number of shared holders, entry exists iff somebody holds the key), quiescent_clean (all-or-fail: when everybody has finished the table is empty), step_progress / no_deadlock / no_deadlock_all (no step ever waits; a thread scheduled 2*keys+5 times has finished whatever the others do), serialisable (replaying the logged requests one at a time in cs.apply order from the initial store reproduces every verdict and the final store: no lost update), log_verdicts (the log is exactly the applied/stale requests), lock_fail_has_conflict (TryLock fails only on a real conflict with another holder), doTxSync_follows_protocol (the lock skeleton of the real State.doTxSync, re-extracted from state.go with go/ast on every run into lean/XV/Gen/LockProto.lean, is the modelled one: TryLock on the extracted keys, deferred Unlock of exactly the keys taken registered before the guard, return on failure before any shared access, under utxo.Mutex.RLock). The statement is refuted for the faithful model of the code BEFORE the repair (mutex_inv_prefix_counterexample: the predicted S,S,X,X schedule ends with two exclusive holders inside; mutex_inv_prefix_counterexample3), which was reproduced on the real unpatched SpinLock through the yield hooks and repaired by a fix: commit. Tie: a deterministic scheduler runs goroutines on the REAL utxo.SpinLock (thread body = doTxSync's lock protocol as extracted from state.go) and releases exactly one at each yield hook; the yield-label sequence, verdicts, store, remaining locks and serial log of every enumerated schedule must equal the Lean model's (all complete schedules of 2 threads for 10 conflict patterns and of 3 single-key threads, random 3-4 thread schedules); the impl-side oracle checks mutual exclusion, entry existence, stale applies, existence of an equivalent sequential order, leaks, timeouts and panics directly on the real run.",
        design_ref='DESIGN.md §6 C12',
        note="Trusted: Lean kernel, the harness/scheduler, Go's sync.Mutex/sync.Map (a region under SpinLock.mu is one atomic step; the harness probes the real mutex at every yield point, so a missing lock splits the step, breaks the correspondence and exposes the race to the oracle). The critical section is a versioned key store inside the harness (stand-in for doTxSync's check/apply/publish); concurrent State.DoTx / SelectUtxos / PlayAndRepost on a real ledger are NOT driven by this engine, so the end-to-end part of C12 (balances/total after concurrent DoTx, select_unique for SelectUtxos under MutexMem) is not covered. Not covered by nature: preemption inside an atomic step, memory-model effects, wall-clock lock expiry.",
        technique='Lean 4 invariant proof over an interleaving semantics (unbounded threads/steps); stateless model checking of the real code through yield hooks, label-for-label correspondence; go/ast fact extraction for doTxSync',
    ),
}

HOOK_COMMITS = [
    "589aecf verif hook: yield points between the atomic steps of SpinLock.TryLock/Unlock (build tag verif; no-op otherwise)",
    "027d6bd verif hook: VerifLockHeld probes whether SpinLock's mutex is held (yield points inside it are not scheduling points)",
]
