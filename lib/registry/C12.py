from common import *

PROPS = {
    'C12': dict(
        engine='lock', driver='lock', stateful=True,
        lean=['XV.Props.C12'],
        level='proof',
        timeout={'quick': 600, 'thorough': 3000},
        trusted_base=[KERNEL, HARNESS,
                      "modelled by hand and tied by correspondence (label-for-label, on every enumerated schedule of the real code): SpinLock.TryLock/Unlock/ExtractLockKeys and the lock/critical-section/unlock skeleton of doTxSync",
                      "Go's sync.Mutex / sync.Map and memory model: a region executed under SpinLock.mu is one atomic step (the harness probes the real mutex at every yield point, so removing it splits the step and is seen)"],
        assumptions=["the lock keys of a request are pairwise distinct (ExtractLockKeys de-duplicates; checked by the correspondence on every thread line)",
                     "the critical section is the harness's stand-in for doTxSync's check/apply/publish: a versioned key store; the real ledger/state is not driven concurrently by this engine",
                     "preemption inside an atomic step, memory-model effects and wall-clock expiry of SelectUtxos locks are outside the model"],
    ),
}

ENGINES = [
    dict(name='lock', path='go/cmd/lock + lean/XV/Model/SpinLock.lean + lean/XV/Model/Sched.lean', serves_properties=['C12'],
         kind_free_text='Lean step system of SpinLock/doTxSync under arbitrary schedules; harness is a deterministic scheduler over goroutines running the real utxo.SpinLock through yield hooks'),
]

META = {
    'C12': dict(
        text="TODO",
        design_ref='DESIGN.md §6 C12',
        note="TODO",
        technique='Lean 4 invariant proof over an interleaving semantics (unbounded threads/steps); stateless model checking of the real code through yield hooks, label-for-label correspondence',
    ),
}

HOOK_COMMITS = []
