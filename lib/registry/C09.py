from common import *

PROPS = {
    'C09': dict(
        engine='contract', driver='contract', stateful=True,
        lean=['XV.Props.C09'],
        level='proof',
        timeout={'quick': 900, 'thorough': 3000},
        trusted_base=[KERNEL, HARNESS, CRYPTO,
                      "modelled by hand (tied by correspondence, not by translation): Chain.PreExec, verifyTxRWSets / GenRWSetFromTx / getGasLimitFromTx / isContractUtxoEffective, xmodel.verifyInputs / verifyOutputs / updateExtUtxo / XModel.Get, the resource check of vmContextImpl.Invoke and ContractCall; the sandbox is the model proved for C10 (lean/XV/Model/Sandbox.lean)",
                      "the test kernel contracts $xvc / $xvd of the harness (go/cmd/contract/xvc.go) stand in for contract code: wasm / native / evm drivers cannot run offline; they reach the same sandbox, bridge context and verification path"],
        assumptions=["a contract is a deterministic function of the results of its sandbox calls (no clock, randomness or cross-chain query)",
                     "contracts address only the buckets of the contracts involved (never the transient bucket directly); bucket names contain no '/'; keys and values are non-empty",
                     "range scans are given explicit bounds (a nil end key: see C10 notes) and are consumed before the next sandbox call",
                     "the initiator's balance covers the transfers (token selection, change outputs, token inputs and the sum check are C02/C03's subject: here a transfer is (receiver, amount))",
                     "signatures, ACL and the reserved-contract prefix are valid / not configured (C07, C11)",
                     "transaction ids of distinct transactions differ (hash idealisation), used only by stale_read_rejected as the hypothesis hfresh",
                     "resources are one-dimensional (XFee, 1 gas per unit on a fee chain; cpu/memory/disk of kernel contracts are 0)"],
    ),
}

ENGINES = [
    dict(name='contract', path='go/cmd/contract + lean/XV/Model/Contract.lean', serves_properties=['C09'],
         kind_free_text='Lean model of the pipeline PreExec -> assembly -> verifyTxRWSets (re-execution over the declared reads) -> xmodel admission -> updateExtUtxo on top of the proved sandbox model; harness drives the real Chain.PreExec / Chain.SubmitTx / State.VerifyTx / State.DoTx and the block path (ConfirmBlock + Play on a replica) with programs of test kernel contracts and single mutations of the assembled, re-signed transaction'),
]

META = {
    'C09': dict(
        text="Kernel-checked theorems (lean/XV/Props/C09.lean) about an executable model of the contract pipeline, for EVERY contract program (any deterministic function from the results so far to the next action: Get/Put/Del/range scan with bounds and early stop in several buckets - nested calls share the sandbox -, transfer, event, resource use, fail, error), every step bound, gas price and every committed state satisfying the table invariant (kept by every commit and hence along every history of submissions: commit_wf, submit_wf, reachable_wf): reexec_of_preexec (re-running the request over the reader built from the returned read set reproduces outcome, transfers, events, resource use and write set, and every returned read is current - from C10's replay_step), preexec_writes_read, preexec_verifies_partial + preexec_submits_partial (the transaction assembled from a successful pre-execution passes the whole verification and is committed; hypothesis: no nested call needs more resources than the caller's own use covers - the full statement is refuted on model and code: preexec_verifies_counterexample, known finding nested-call-resources), commit_exact / commit_exact_live / commit_untouched / commit_written (after the commit every key holds the last declared entry for it - declared value or delete mark with version (txid, offset) - every other key keeps value and version; live table likewise), tamper_read_version_rejected, tamper_write_rejected (any declared write set that is not a permutation of the returned one), tamper_transfer_rejected, tamper_event_rejected, reroute_rejected (declared contract transfers must be real outputs, fix 913f43e), write_unread_rejected, verify_sound (an accepted transaction's own request, whatever it is, re-executed over its declared reads succeeds within the declared limit and yields exactly the declared writes / transfers / events; reads current; fee covers the limit), stale_read_rejected, underpaid_rejected, limit_below_use_rejected, error_call_no_response, failed_call_rejected + failed_call_noop (a call answering status >= 400 is refused whatever it declares, fix fef9b2a; state unchanged), rejected_noop, refused_dotx_noop (= XV.C05.doTx_fail_noop). Tie: every op line runs on the real Chain.PreExec / SubmitTx / VerifyTx+DoTx and on the model; read sets with versions, write sets, transfers, events, resource use, per-call results and the accept/reject verdict of every mutant are diffed. Impl-side oracle: accepted = pre-executed, state delta == write set exactly (reader + raw ZU/ZD rows, nothing transient stored), transfers effective, definite mutant classes refused (harmless ones accepted) by submission and by a block played on a replica alike, stale reads refused, failed / refused calls leave no trace, a fresh replica replays all blocks to the same state.",
        design_ref='DESIGN.md §6 C09',
        note="Two genuine defects repaired in the repository (fix: 913f43e contract transfer re-routing F17, fef9b2a failed call committed); one known finding kept (nested-call resources of kernel contracts). Partial / not covered: token selection and change (a transfer is (receiver, amount), balance assumed sufficient), reserved contracts and VerifyReservedContractRequests (none configured), wasm/native/evm drivers, multi-dimensional resources, cross-contract permission checks, empty values (XMCache.Put accepts an empty value that xmodel.verifyOutputs later refuses as nil - not reachable with the test contracts), auto-generated (timer) transactions.",
        technique='Lean 4 proof over a hand model built on the proved sandbox model (simulation of re-execution for adaptive programs); differential correspondence with the real PreExec / VerifyTx / DoTx / block path including ~20 classes of re-signed mutants; impl-side oracle from state deltas, balances and a replaying replica',
    ),
}

HOOK_COMMITS = ['e088484 verif hook: VerifNewChain wraps an initialised chain context so PreExec/SubmitTx can be driven in-process (build tag verif)']
