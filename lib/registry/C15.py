from common import *

PROPS = {
    'C15': dict(
        engine='qctree', driver='qctree', stateful=True,
        lean=['XV.Props.C15'],
        level='proof',
        trusted_base=[KERNEL, HARNESS],
        assumptions=[],
        timeout={'quick': 600, 'thorough': 3000},
    ),
}

ENGINES = [
    dict(name='qctree', path='go/cmd/qctree + lean/XV/Model/QcTree.lean', serves_properties=['C15'],
         kind_free_text='Lean model of QCPendingTree (flat sons map, fuelled DFS, orphan forest, markers) and DefaultPaceMaker; harness drives the real tree mutators through the verif export shim'),
]

META = {
    'C15': dict(
        text="TODO",
        design_ref='DESIGN.md §6 C15',
        note="TODO",
        technique='Lean 4 proof over a hand model of the pending tree; differential correspondence after every op; impl-side invariant oracle',
    ),
}

HOOK_COMMITS = []
