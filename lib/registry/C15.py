from common import *

PROPS = {
    'C15': dict(
        engine='qctree', driver='qctree', stateful=True,
        lean=['XV.Props.C15'],
        level='proof',
        trusted_base=[KERNEL, HARNESS,
                      "go/extract reg_qctree.go (guard-fact extractor): trusted to lift the three comparisons (updateHighQC view check, insertOrphan expiry check, DefaultPaceMaker.AdvanceView) verbatim into lean/XV/Gen/QcTree.lean; validated by the correspondence run",
                      "modelled by hand (tied by correspondence after every op, not by translation): insert / insertOrphan / adoptOrphans / updateHighQC / enforceUpdateHighQC / updateCommit / DFSQuery over a flat sons map; the tree-and-pacemaker part of handleReceivedProposal / handleReceivedVoteMsg as the composite ops prop / vote"],
        assumptions=["a proposal id determines the proposal's view and parent id, and parent ids are acyclic (ids are block hashes covering the parent hash): hypothesis `Acyclic W` of tree_inv / stored_once / adopted_on_parent_arrival",
                     "the tree starts in the state built by InitQCTree on a fresh chain (Genesis = Root = HighQC = CommitQC); restart states of InitQCTree are not covered",
                     "int64 overflow of view numbers is out of the model (views are Int)",
                     "signature / quorum checks in front of the tree (CheckProposal, CheckVote, vote counting) are C14's subject: prop / vote model the tree and pacemaker effects of an accepted proposal / a reached quorum"],
        timeout={'quick': 900, 'thorough': 3000},
    ),
}

ENGINES = [
    dict(name='qctree', path='go/cmd/qctree + lean/XV/Model/QcTree.lean', serves_properties=['C15'],
         kind_free_text='Lean model of QCPendingTree (flat sons map, fuelled DFS, orphan forest, four markers) and DefaultPaceMaker; the harness drives the real package-private tree mutators through the verif export shim, compares the full structural dump with the model after every op and evaluates the C15 invariant on the real pointer structure'),
]

META = {
    'C15': dict(
        text="Kernel-checked theorems (lean/XV/Props/C15.lean) about an executable model of QCPendingTree after the two fix: commits (98685d0 insertOrphan, 070bc29 updateHighQC), quantified over ALL operation sequences (arrivals in any order, duplicates, competing children, updateHighQC, enforceUpdateHighQC, updateCommit, proposal-with-commit, vote-quorum, pacemaker) and all acyclic proposal worlds: tree_inv (Root's tree + orphan forest is a forest: edges agree with ParentId, roots distinct and nobody's sons, sons lists duplicate-free, every id reachable in exactly one way = stored at most once); stored_once (an inserted proposal is accepted and stored, unless OrphanMap shows it already went through the orphan list and was since expired/pruned); adopted_on_parent_arrival (no stored proposal waits beside its stored parent: it is in the parent's sons and not an orphan root); highqc_monotone (HighQC view non-decreasing over any history without enforceUpdateHighQC); markers_are_ancestors (Generic/Locked/Commit are parent/grandparent/great-grandparent of HighQC whenever set; only exception the initial CommitQC=Genesis placeholder while HighQC=Genesis); root_moves_down / root_only_descends (new Root is a node of the old tree; over histories the old Root stays an ancestor); pacemaker_monotone. The DFS fuel (number of placed ids) is proved sufficient under the invariant (dfs_complete). Tie: three comparisons are regenerated from source (Gen/QcTree.lean); everything else by correspondence: after EVERY op the full dump (root, 4 markers, pacemaker, tree edges, orphan roots, orphan-forest edges, OrphanMap) of the real structure is compared with the model, on all block trees x all arrival orders for n<=4 (quick) / n<=6 (thorough) and thousands of random interleavings up to 12 proposals; an impl-side oracle evaluates the invariant on the real pointers.",
        design_ref='DESIGN.md §6 C15',
        note="Trusted: Lean kernel, the harness and its dump, the guard-fact extractor. Both defects found (orphan adoption, stale markers) are repaired in /repo and the theorems are about the repaired code; their replays stay in corpus/C15. Markers may still point at nodes pruned by updateCommit (updateCommit's own TODO): C15 as written constrains them to be HighQC's ancestors, not to lie inside the tree; the harness counts these states (info:marker-outside-tree) but does not report them. The real handleReceivedProposal/handleReceivedVoteMsg are exported by the hook but the harness drives only their tree/pacemaker effects (ops prop/vote), not message decoding, signatures or vote counting.",
        technique='Lean 4 invariant proof over a hand model of the pending tree (flat sons map + fuelled DFS proved complete); guard facts regenerated from source; differential correspondence after every op; impl-side invariant oracle with delta-debugged replays',
    ),
}

HOOK_COMMITS = ['1cb5aa0 verif hook: chained-bft export shim (synchronous tree mutators, message handlers, tree dump)']
