"""Registry loader: every lib/registry/*.py defines PROPS, META, ENGINES, HOOK_COMMITS (optionally NOT_APPLICABLE)."""
import os, glob, importlib.util, sys
_here = os.path.dirname(os.path.abspath(__file__))
sys.path.insert(0, _here)
PROPS, META, ENGINES, HOOK_COMMITS, NOT_APPLICABLE = {}, {}, [], [], {}
for _f in sorted(glob.glob(os.path.join(_here, 'registry', '*.py'))):
    _spec = importlib.util.spec_from_file_location('xvreg_' + os.path.basename(_f)[:-3], _f)
    _m = importlib.util.module_from_spec(_spec)
    _spec.loader.exec_module(_m)
    PROPS.update(getattr(_m, 'PROPS', {}))
    META.update(getattr(_m, 'META', {}))
    ENGINES += getattr(_m, 'ENGINES', [])
    HOOK_COMMITS += getattr(_m, 'HOOK_COMMITS', [])
    NOT_APPLICABLE.update(getattr(_m, 'NOT_APPLICABLE', {}))
