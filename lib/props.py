"""Registry: which Lean modules, which engine harness and which trusted base decide each property."""

KERNEL = "Lean 4.33.0 kernel; axioms limited to propext, Classical.choice, Quot.sound (audited by #print axioms on every run; leanchecker in the thorough tier)"
TRANSLATOR = "go/extract (go/ast translator, arithmetic subset / encoder schemas): trusted to render the Go subset faithfully; validated on every run by running the generated defs and the real functions on the same inputs"
HARNESS = "the Go harness, its canonicaliser and id abstraction: trusted to report what the implementation returned"
CRYPTO = "ECDSA, SHA-256, address derivation (xuperchain/crypto) are not modelled: a signature entry is abstracted to the boolean result of the real verification, computed by the real code in the harness"

PROPS = {
    'C14': dict(
        engine='safety', driver='safety', stateful=False,
        lean=['XV.Props.C14'],
        level='proof',
        trusted_base=[KERNEL, TRANSLATOR, HARNESS, CRYPTO,
                      "modelled by hand (tied by correspondence, not by translation): the signature loop of CheckProposal and CheckVote; translated from source: CalVotesThreshold, CheckPacemaker"],
        assumptions=["validator lists have no repeated address", "view-number / pending-tree preconditions of CheckProposal are satisfied (the certified proposal is in the local tree)",
                     "no signature forgery: an entry verifies only if produced with the private key of the claimed address"],
    ),
}
