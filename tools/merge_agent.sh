#!/bin/bash
# merges the work of an engine builder: /work/<n>/verif commits onto /verif, /work/<n>/repo commits onto /repo
set -e
N=$1
VBASE=cfac380e66cd44f1006aac541ab20401a8143f88
RBASE=8f401d8
[ -f /work/$N/VBASE ] && VBASE=$(cat /work/$N/VBASE)
[ -f /work/$N/RBASE ] && RBASE=$(cat /work/$N/RBASE)
rm -rf /tmp/merge-$N && mkdir -p /tmp/merge-$N/v /tmp/merge-$N/r
git -C /work/$N/verif format-patch -q -o /tmp/merge-$N/v $VBASE..HEAD
git -C /work/$N/repo format-patch -q -o /tmp/merge-$N/r $RBASE..HEAD || true
echo "verif patches: $(ls /tmp/merge-$N/v | wc -l), repo patches: $(ls /tmp/merge-$N/r | wc -l)"
