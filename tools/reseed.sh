#!/bin/bash
# usage: tools/reseed.sh <prop> <k> [tier] [extra check ids...]
# re-runs the check(s) against an already confirmed seeded change (seeded/<prop>-<k>/patch.diff) after the machinery was
# strengthened.  The change is applied to a scratch worktree of /repo's HEAD (XV_REPO), so /repo itself is not touched
# and other checks can go on; the worktree is removed afterwards.
P=$1; K=$2; TIER=${3:-quick}; shift; shift; shift
OUT=/verif/seeded/$P-$K
WT=/tmp/reseed-$P-$K
rm -rf $WT; git -C /repo worktree prune; git -C /repo worktree add -q --detach $WT HEAD || exit 2
git -C $WT apply $OUT/patch.diff || { echo "patch does not apply"; git -C /repo worktree remove --force $WT; exit 2; }
for C in $P "$@"; do
  (cd /verif && XV_REPO=$WT timeout 3600 ./check $C $TIER) > $OUT/recheck_${C}_$TIER.txt 2>&1; RC=$?
  echo "re-check (strengthened) $C $TIER exit=$RC: $(grep -c '^VIOLATION' $OUT/recheck_${C}_$TIER.txt) VIOLATION line(s): $(grep '^VIOLATION' $OUT/recheck_${C}_$TIER.txt | head -3 | tr '\n' ' ')" | tee -a $OUT/result.txt
done
git -C /repo worktree remove --force $WT; rm -rf $WT
