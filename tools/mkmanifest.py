#!/usr/bin/env python3
"""Regenerates MANIFEST.json from lib/props.py (claimed checks) and lib/manifest_meta.py."""
import json, os, sys
ROOT = os.path.dirname(os.path.dirname(os.path.abspath(__file__)))
sys.path.insert(0, os.path.join(ROOT, 'lib'))
from props import PROPS
from manifest_meta import META, NOT_APPLICABLE, HOOK_COMMITS, ENGINES

ids = [json.loads(l)['id'] for l in open(os.path.join(ROOT, 'properties.jsonl'))]
checks = []
for pid in ids:
    if pid not in PROPS:
        continue
    m = META[pid]
    checks.append(dict(
        property_id=pid,
        quick_cmd='./check %s quick' % pid,
        thorough_cmd='./check %s thorough' % pid,
        evidence_file='/verif/evidence/%s.json' % pid,
        replay_cmd_template='./check %s --replay {path}' % pid,
        engine=PROPS[pid]['engine'],
        level_claimed=dict(category=PROPS[pid].get('level', 'proof'), text=m['text'], design_ref=m['design_ref']),
        level_note=m['note'],
        technique=m['technique'],
    ))
na = [dict(property_id=p, reason=NOT_APPLICABLE.get(p, 'check not built yet in this round (planned: DESIGN.md section 6); not claimed until its model, theorems and correspondence harness exist'))
      for p in ids if p not in PROPS]
man = dict(
    version=1,
    setup_cmd='./check --setup',
    hooks=dict(guard='verif', enable='go build -tags verif (the harness module /verif/go replaces github.com/xuperchain/xupercore by /repo)',
               baseline_off_cmd="cd /repo && go test -mod=mod -json -vet=off -count=1 -timeout 25m ./...",
               source_commits=HOOK_COMMITS, add_only=True),
    engines=ENGINES,
    checks=checks,
    not_applicable=na,
    notes='Technique: machine-checked proof in Lean 4 about executable models, tied to /repo on every run by a go/ast translator (lean/XV/Gen regenerated) and by an in-process correspondence harness (same op lines through the real Go code and the Lean driver, outputs diffed); impl-side property oracles provide replays. See DESIGN.md.',
)
json.dump(man, open(os.path.join(ROOT, 'MANIFEST.json'), 'w'), indent=1)
print('claimed', [c['property_id'] for c in checks], 'not_applicable', [n['property_id'] for n in na])
