#!/bin/bash
# keeps applying a `git am -3` series, resolving the shared registry files by union
cd /verif
for i in 1 2 3 4 5 6 7 8 9 10; do
  U=$(git diff --name-only --diff-filter=U)
  [ -z "$U" ] && break
  for f in $U; do
    case "$f" in
      lean/Driver.lean|lean/XV.lean) tools/resolve_union.py $f; git add $f;;
      MANIFEST.json) git checkout --ours MANIFEST.json 2>/dev/null; git add MANIFEST.json;;
      *) echo "UNRESOLVED $f"; exit 1;;
    esac
  done
  git -c core.editor=true am --continue 2>&1 | grep -i "conflict\|error\|Applying" 
done
git status --short | head -3
