#!/bin/bash
# creates an isolated work area for building one engine: /work/<name>/verif (clone of /verif) and
# /work/<name>/repo (detached git worktree of /repo HEAD); records the base commits for the merge
set -e
N=$1
mkdir -p /work/$N
git clone -q /verif /work/$N/verif
git -C /repo worktree add -q --detach /work/$N/repo HEAD
git -C /work/$N/verif config user.name builder; git -C /work/$N/verif config user.email builder@example.com
git -C /verif rev-parse HEAD > /work/$N/VBASE
git -C /repo rev-parse HEAD > /work/$N/RBASE
echo "/work/$N ready"
