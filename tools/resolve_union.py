#!/usr/bin/env python3
"""resolve git conflicts in the given files by taking both sides (ours first)"""
import sys, re
for p in sys.argv[1:]:
    out = []
    for line in open(p).read().split('\n'):
        if line.startswith('<<<<<<< ') or line.startswith('=======') or line.startswith('>>>>>>> '):
            continue
        out.append(line)
    # drop duplicate import lines
    seen = set(); res = []
    for l in out:
        if l.startswith('import ') and l in seen:
            continue
        seen.add(l); res.append(l)
    open(p, 'w').write('\n'.join(res))
