#!/bin/bash
# re-runs only the confirmation part of try_seed.sh (no check run)
P=$1; K=$2
sed '/^# run the checks on \/repo/,$d' /verif/tools/try_seed.sh > /tmp/confirm_only_$$.sh
bash /tmp/confirm_only_$$.sh $P $K; rm -f /tmp/confirm_only_$$.sh
