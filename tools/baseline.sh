#!/bin/bash
# Runs the repository's pinned test suite with the `verif` guard OFF and compares
# the passing set with /root/.vp/BASELINE.json (stable_pass). Exit 0 iff every
# stable_pass test still passes.
export GOFLAGS=-mod=mod GOPROXY=off GOSUMDB=off
OUT=${1:-/verif/.build/baseline.json}
mkdir -p "$(dirname "$OUT")"
(cd /repo && go test -mod=mod -json -vet=off -count=1 -timeout 25m ./... > "$OUT" 2>/dev/null)
python3 - "$OUT" <<'PY'
import json,sys
base=json.load(open('/root/.vp/BASELINE.json'))['stable_pass']
passed=set()
for l in open(sys.argv[1]):
    try: e=json.loads(l)
    except Exception: continue
    if e.get('Action')=='pass' and e.get('Test'):
        passed.add(e['Package']+'::'+e['Test'])
missing=[t for t in base if t not in passed]
print('baseline stable_pass:',len(base),'passing now:',len(base)-len(missing))
for m in missing: print('MISSING',m)
sys.exit(1 if missing else 0)
PY
git -C /repo clean -fdq kernel/mock
git -C /repo checkout -- kernel/mock
