#!/usr/bin/env python3
"""After `git am` the commits in /repo have new hashes: rewrite the 7-hex hashes cited in known_findings*.json and
lib/registry/*.py by matching commit subjects between the builder's worktree and /repo."""
import subprocess, sys, re, glob, os
name = sys.argv[1]
def log(repo, rng):
    out = subprocess.run(['git', '-C', repo, 'log', '--format=%h %s', rng], capture_output=True, text=True).stdout
    return [l.split(' ', 1) for l in out.strip().split('\n') if l]
import os
rb = open(f'/work/{name}/RBASE').read().strip() if os.path.exists(f'/work/{name}/RBASE') else '8f401d8'
old = log(f'/work/{name}/repo', rb + '..HEAD')
new = {s: h for h, s in log('/repo', 'c4faa05..HEAD')}
mp = {h: new[s] for h, s in old if s in new}
print(mp)
files = glob.glob('/verif/known_findings.d/*.json') + glob.glob('/verif/lib/registry/*.py') + ['/verif/known_findings.json']
for f in files:
    s = open(f).read(); t = s
    for a, b in mp.items():
        t = re.sub(r'\b' + a + r'[0-9a-f]*\b', b, t)
    if t != s:
        open(f, 'w').write(t); print('updated', f)
