#!/bin/bash
# usage: [SEED_ROOT=/tmp/seed] [SEED_OFFSET=0] tools/try_seed.sh <prop> <k> [tier] [extra check ids...]
# 1. confirms the seeded change in a scratch worktree: demo FAILS with the patch, PASSES without; touched packages' tests pass
# 2. runs ./check <prop> <tier> (default quick) against /repo's HEAD + the patch: the patch is applied to a scratch worktree
#    passed as XV_REPO (same effect as `git -C /repo apply`, check, `git -C /repo checkout -- .`, but /repo is never dirty,
#    other checks can go on meanwhile, and the committed evidence is not overwritten by a run against a changed tree)
# 3. copies the seed to /verif/seeded/<prop>-<k+offset>/ with the results
export GOFLAGS=-mod=mod GOPROXY=off GOSUMDB=off GOTOOLCHAIN=local
P=$1; K=$2; TIER=${3:-quick}; shift; shift; shift
SRC=${SEED_ROOT:-/tmp/seed}/$P/$K
[ -f $SRC/patch.diff ] || { echo "no $SRC/patch.diff"; exit 2; }
N=$((K+${SEED_OFFSET:-0}))
WT=/tmp/confirm-$P-$N
OUT=/verif/seeded/$P-$N
mkdir -p $OUT
PAT="[A-Za-z0-9_/.-]*zz_seed[A-Za-z_0-9]*\.go\|[A-Za-z0-9_/.-]*/main\.go"
if [ ! -f $OUT/confirmed.txt ]; then
  rm -rf $WT; git -C /repo worktree prune; git -C /repo worktree add -q --detach $WT HEAD || exit 2
  DEMO=$(find $SRC/demo -type f -name "*.go" | head -1)
  RUN=$(python3 -c "import json;print(json.load(open('$SRC/meta.json'))['demo_cmd'])")
  # use only the `go test`/`go run` part of the demo command
  GOCMD=$(echo "$RUN" | grep -o "go \(test\|run\) .*" | tail -1 | sed 's/ 2>&1.*//; s/ |.*//; s/   *(.*//')
  echo "cmd: $GOCMD" > $OUT/confirm.log
  for f in $(find $SRC/demo -type f -name "*.go"); do d=$(head -6 $f | grep -m1 -io "$PAT" | head -1); [ -z "$d" ] && continue; d=${d#/}; mkdir -p $WT/$(dirname $d); cp $f $WT/$d; echo "demo $f -> $d" >> $OUT/confirm.log; done
  (cd $WT && timeout 600 bash -c "$GOCMD") > $OUT/demo_without.txt 2>&1; R0=$?
  (cd $WT && git apply $SRC/patch.diff) || { echo "patch does not apply" >> $OUT/confirm.log; }
  (cd $WT && timeout 600 bash -c "$GOCMD") > $OUT/demo_with.txt 2>&1; R1=$?
  PK=$(cd $WT && git diff --name-only | grep "\.go$" | xargs -n1 dirname | sort -u | sed 's#^#./#')
  for f in $(find $SRC/demo -type f -name "*.go"); do d=$(head -6 $f | grep -m1 -io "$PAT" | head -1); [ -z "$d" ] && continue; rm -f $WT/${d#/}; done
  (cd $WT && go build $PK && timeout 900 go test -mod=mod -vet=off -count=1 $PK) > $OUT/pkg_tests.txt 2>&1; R2=$?
  echo "demo without change exit=$R0 (want 0); with change exit=$R1 (want !=0); package tests exit=$R2 ($(grep -c '^ok' $OUT/pkg_tests.txt) ok, $(grep -c '^FAIL\|^---' $OUT/pkg_tests.txt) fail lines)" | tee -a $OUT/confirm.log
  git -C /repo worktree remove --force $WT; rm -rf $WT
  if [ $R0 -eq 0 ] && [ $R1 -ne 0 ]; then echo confirmed > $OUT/confirmed.txt; else echo "NOT CONFIRMED"; fi
  cp $SRC/patch.diff $SRC/meta.json $OUT/; mkdir -p $OUT/demo; cp -r $SRC/demo/. $OUT/demo/
fi
# run the checks against HEAD + patch
rm -rf $WT; git -C /repo worktree prune; git -C /repo worktree add -q --detach $WT HEAD || exit 2
git -C $WT apply $SRC/patch.diff || { echo "patch does not apply to HEAD" | tee -a $OUT/result.txt; git -C /repo worktree remove --force $WT; exit 2; }
for C in $P "$@"; do
  (cd /verif && XV_REPO=$WT timeout 3600 ./check $C $TIER) > $OUT/check_${C}_$TIER.txt 2>&1; RC=$?
  echo "check $C $TIER exit=$RC: $(grep -c '^VIOLATION' $OUT/check_${C}_$TIER.txt) VIOLATION line(s): $(grep '^VIOLATION' $OUT/check_${C}_$TIER.txt | head -3 | tr '\n' ' ')" | tee -a $OUT/result.txt
  tail -1 $OUT/check_${C}_$TIER.txt
done
git -C /repo worktree remove --force $WT; rm -rf $WT
